"""Nested file names (acq 'acq', file 'sub/f') through hard link / internal copy (no rsync on PATH)."""
from common import *
import os, hashlib, shutil
from alpenhorn.daemon import update
from alpenhorn.scheduler import FairMultiFIFOQueue, pool, global_abort
import alpenhorn.io.default as dflt
class OneShot(pool.EmptyPool):
    def check(self): global_abort.set()
class Q(FairMultiFIFOQueue):
    def get(self, timeout=None): return super().get(timeout=0.01)
for same_type in (True, False):
    tmp, sdb = setup("h1"); dflt._reserved_bytes.clear()
    keep = os.environ["PATH"]; os.environ["PATH"] = "/nonexistent"
    g1 = StorageGroup.create(name="g1"); g2 = StorageGroup.create(name="g2")
    a = mknode(tmp,"a",g1,stype="A" if same_type else "F"); b = mknode(tmp,"b",g2,stype="A")
    acq = ArchiveAcq.create(name="acq"); data=b"abc"
    f = ArchiveFile.create(acq=acq,name="sub/f",size_b=3,md5sum=hashlib.md5(data).hexdigest())
    (tmp/"a"/"acq"/"sub").mkdir(parents=True); (tmp/"a"/"acq"/"sub"/"f").write_bytes(data)
    ArchiveFileCopy.create(file=f,node=a,has_file="Y",wants_file="Y")
    ArchiveFileCopyRequest.create(file=f,node_from=a,group_to=g2)
    q = Q(); hist=[]
    for i in range(6):
        global_abort.clear(); update.update_loop(q, OneShot(), False)
        r = ArchiveFileCopyRequest.get(id=1); sc = ArchiveFileCopy.get(file=f,node=a); dc = ArchiveFileCopy.get_or_none(file=f,node=b)
        hist.append((("done" if r.completed else "canc" if r.cancelled else "pend"), sc.has_file, dc.has_file if dc else "-"))
    print("hardlink-eligible" if same_type else "internal-copy", hist, sorted(str(p.relative_to(tmp)) for p in (tmp/"b").rglob("*")))
    os.environ["PATH"] = keep; shutil.rmtree(tmp)
