"""World builder: a real sqlite data index reached through alpenhorn's own database-extension hook,
node trees under a scratch directory, configuration."""
from __future__ import annotations

import datetime
import pathlib
import sys

import peewee as pw  # noqa

sys.path.insert(0, "/repo")

from alpenhorn.common import config, extensions  # noqa: E402
from alpenhorn import db  # noqa: E402
from alpenhorn.db import (  # noqa: E402
    ArchiveAcq, ArchiveFile, ArchiveFileCopy, ArchiveFileCopyRequest, ArchiveFileImportRequest,
    DataIndexVersion, StorageGroup, StorageNode, StorageTransferAction,
)

_current = None


def detect(path, node):
    """scripted import-detect: first component is the acquisition (files directly under the root are rejected)"""
    if len(path.parts) < 2:
        return None, None
    return path.parts[0], None


def fresh_db(host="h1", conf=None, shared=False):
    """a new in-memory index; returns the peewee database"""
    global _current
    if _current is not None:
        try:
            _current.close()
        except Exception:
            pass
    cfg = config.merge_dict_tree(config._default_config.copy(), {"base": {"hostname": host}})
    if conf:
        cfg = config.merge_dict_tree(cfg, conf)
    config.config = cfg
    kw = dict(thread_safe=False, check_same_thread=False) if shared else {}
    sdb = pw.SqliteDatabase(":memory:", **kw)
    extensions._db_ext = {"name": "verif", "database": {"connect": lambda config: sdb, "reentrant": False}}
    extensions._id_ext = [detect]
    db.connect()
    db.database_proxy.create_tables(db.gamut)
    DataIndexVersion.create(component="alpenhorn", version=db.current_version)
    _current = sdb
    return sdb


def mkgroup(name, **kw):
    return StorageGroup.create(name=name, **kw)


def mknode(base: pathlib.Path | None, name, group, stype="A", host="h1", active=True, marker=True, root=None, **kw):
    if root is None:
        root = str(base / name)
    if base is not None:
        pathlib.Path(root).mkdir(parents=True, exist_ok=True)
        if marker:
            (pathlib.Path(root) / "ALPENHORN_NODE").write_text(name + "\n")
    return StorageNode.create(name=name, group=group, root=root, host=host, active=active, storage_type=stype, **kw)


def dump_index():
    """canonical dump of the whole index (sorted rows, no timestamps)"""
    out = {}
    out["acq"] = sorted((a.id, a.name) for a in ArchiveAcq.select())
    out["file"] = sorted((f.id, f.acq_id, f.name, f.size_b, f.md5sum) for f in ArchiveFile.select())
    out["copy"] = sorted((c.id, c.file_id, c.node_id, c.has_file, c.wants_file, bool(c.ready), c.size_b) for c in ArchiveFileCopy.select())
    out["req"] = sorted((r.id, r.file_id, r.node_from_id, r.group_to_id, bool(r.completed), bool(r.cancelled)) for r in ArchiveFileCopyRequest.select())
    out["ireq"] = sorted((r.id, r.node_id, r.path, bool(r.recurse), bool(r.register), bool(r.completed)) for r in ArchiveFileImportRequest.select())
    out["node"] = sorted((n.id, n.name, n.group_id, n.host, bool(n.active), n.storage_type, n.root) for n in StorageNode.select())
    out["group"] = sorted((g.id, g.name) for g in StorageGroup.select())
    out["rule"] = sorted((a.node_from_id, a.group_to_id, bool(a.autosync), bool(a.autoclean)) for a in StorageTransferAction.select())
    return out
