(* Correspondence for C13: a trace of critical sections observed on the real lock under the deterministic
   scheduler (labels in the order the sections ran) with the outcome of each *)
From Coq Require Import List ZArith Bool Arith.
From Alp Require Import Base.Str Base.Types Model.UpDown.
Import ListNotations.
Definition outcome_eqb (a b : outcome) : bool :=
  match a, b with
  | Got, Got | Refused, Refused | WouldBlock, WouldBlock | TimedOut, TimedOut | Slept, Slept
  | ReleasedOk, ReleasedOk | NotHeld, NotHeld | Noop, Noop => true
  | _, _ => false
  end.
Definition case := (list label * list outcome * Z)%type.
(* outcomes agree and the final count agrees *)
Definition check (c : case) : bool :=
  let '(ls, outs, cnt) := c in
  list_eqb outcome_eqb (outcomes init ls) outs && Z.eqb (count (reach ls)) cnt.
