"""C15 — discretionary cleaning: the candidate loop of UpdateableNode.update_delete."""
from vf import core
from vf.core import cbool, clist, cn, copt, ctup, cz
from vf.translate import core as T

TRUSTED = [
    "Coq 8.16.1 kernel + VM; no native_compute",
    "translator vf/translate for the guards of UpdateableNode.update_delete and StorageNode.under_min (8 if-tests located by source order, count checked)",
    "modelled, not verified: GiB values are multiples of 1/1024 (exactly representable floats), so int((min-avail)*2**30) is exact; "
    "binary-float rounding of other values is outside the model; sqlite ORDER BY id / WHERE semantics (validated by correspondence)",
]
RULE = ("random copy tables (wanted/removable/released x present/suspect/corrupt/absent x size on copy / only on file / unknown / zero) x shortfalls "
        "x pending requests x node types, the real update_delete with a recording io.delete; non-trivial = at least one removable or released copy; distinct by full input")


def gen(ctx):
    upd = T.parse(core.REPO / "alpenhorn/daemon/update.py")
    sto = T.parse(core.REPO / "alpenhorn/db/storage.py")
    q = "UpdateableNode.update_delete"
    n = 8
    d = [
        T.nth_test(upd, q, 0, {"self_db_under_min": "bool", "self_db_archive": "bool"}, "g_discretionary", ["self_db_under_min", "self_db_archive"], expect_count=n),
        T.nth_test(upd, q, 1, {"copy_wants_file": "wants", "avail_needed": "Z"}, "g_skip_removable", ["copy_wants_file", "avail_needed"]),
        T.nth_test(upd, q, 3, {"avail_needed": "Z"}, "g_need_positive"),
        T.nth_test(upd, q, 4, {"copy_size_b": "optZ"}, "g_credit_copy"),
        T.nth_test(upd, q, 5, {"copy_file_size_b": "optZ"}, "g_credit_file"),
        T.nth_test(upd, q, 6, {"del_copies": "list"}, "g_batch_full"),
        T.nth_test(upd, q, 7, {"del_copies": "list"}, "g_flush"),
        T.assigned(upd, q, "dfclause", {"ArchiveFileCopy_wants_file": "wants"}, "g_df_discretionary", which=0),
        T.assigned(upd, q, "dfclause", {"ArchiveFileCopy_wants_file": "wants"}, "g_df_released", which=1),
        T.assigned(upd, q, "avail_needed", {"self_db_min_avail_gb": "Z", "self_db_avail_gb": "Z"}, "g_shortfall", ["self_db_min_avail_gb", "self_db_avail_gb"], which=0),
        T.nth_test(sto, "StorageNode.under_min", 0, {"self_avail_gb": "optZ"}, "g_avail_unknown", expect_count=1),
        T.return_expr(sto, "StorageNode.under_min", {"self_avail_gb": "Z", "self_min_avail_gb": "Z"}, "g_under_min", ["self_avail_gb", "self_min_avail_gb"]),
    ]
    # the crediting statements and the zero initialisation are part of the loop's meaning too
    import ast

    fn = T.find_func(upd, q)
    augs = [(x.lineno, ast.unparse(x)) for x in ast.walk(fn) if isinstance(x, ast.AugAssign)]
    augs.sort()
    if [a[1] for a in augs] != ["avail_needed -= copy.size_b", "avail_needed -= copy.file.size_b"]:
        raise T.Untranslatable(f"UNTRANSLATABLE: crediting statements changed: {augs}")
    zero = [ast.unparse(x) for x in ast.walk(fn) if isinstance(x, ast.Assign) and ast.unparse(x.targets[0]) == "avail_needed"]
    if zero != ["avail_needed = int((self.db.min_avail_gb - self.db.avail_gb) * 2 ** 30)", "avail_needed = 0"]:
        raise T.Untranslatable(f"UNTRANSLATABLE: avail_needed assignments changed: {zero}")
    # the decision is taken on the free space measured in this very pass: update() refreshes it before it calls update_delete()
    ub = T.strip_doc(T.find_func(upd, "UpdateableNode.update").body)
    tops = [ast.unparse(x) for x in ub]
    if "self.update_free_space()" not in tops or not isinstance(ub[-1], ast.If) or "self.update_delete()" not in [ast.unparse(x) for x in ub[-1].body] \
            or tops.index("self.update_free_space()") > len(tops) - 2 or ast.unparse(ub[-1]).count("update_free_space") or sum(t.count("update_delete") for t in tops[:-1]):
        raise T.Untranslatable("UNTRANSLATABLE: UpdateableNode.update no longer measures the free space (update_free_space) before the block that calls update_delete")
    ufs = ast.unparse(T.find_func(upd, "UpdateableNode.update_free_space"))
    if "bytes_avail = self.io.bytes_avail(fast=False)" not in ufs or "self.db.update_avail_gb(bytes_avail)" not in ufs:
        raise T.Untranslatable("UNTRANSLATABLE: update_free_space no longer stores io.bytes_avail() through update_avail_gb")
    # "in record order": the candidate query is ordered by the copy's own id (the model's candidate list is in that order)
    orders = [ast.unparse(x) for x in ast.walk(fn) if isinstance(x, ast.Call) and isinstance(x.func, ast.Attribute) and x.func.attr == "order_by"]
    if len(orders) != 1 or not orders[0].endswith(".order_by(ArchiveFileCopy.id)"):
        raise T.Untranslatable(f"UNTRANSLATABLE: candidate order changed: {[o[-60:] for o in orders]}")
    return {"Gen_select": T.HEADER + "\n".join(d) + "\n"}


def proofs(ctx):
    try:
        files = gen(ctx)
    except T.Untranslatable as e:
        ctx.broke("translator", "daemon/update.py update_delete guards", str(e))
        files = None
    if files:
        core.check_tie(ctx, files, ["Tie_C15"])
    core.check_property_file(ctx, "C15.v")


# ---- implementation ----------------------------------------------------------------------------------------
def run_impl(case):
    """build the index for one case, call the real update_delete with a recording io; returns batches of copy ids"""
    from vf.harness import world as w
    from alpenhorn.daemon import update as U

    w.fresh_db()
    g = w.mkgroup("g")
    g2 = w.mkgroup("g2")
    node = w.mknode(None, "n", g, stype=case["stype"], root="/nonexistent", min_avail_gb=case["min"] / 1024.0,
                    avail_gb=None if case["avail"] is None else case["avail"] / 1024.0)
    other = w.mknode(None, "o", g, stype="F", root="/nonexistent2")
    acq = w.ArchiveAcq.create(name="acq")
    ids = []
    # the file records are made in their own order (case["forder"]), so copy-id order differs from file-id and name order
    forder = case.get("forder") or list(range(len(case["copies"])))
    files = {}
    for i in forder:
        files[i] = w.ArchiveFile.create(acq=acq, name=f"f{(i * 7) % 97:02d}_{i}", size_b=case["copies"][i]["fsize"], md5sum="0" * 32)
    for i, c in enumerate(case["copies"]):
        f = files[i]
        cp = w.ArchiveFileCopy.create(file=f, node=node, has_file=c["has"], wants_file=c["wants"], size_b=c["csize"])
        ids.append(cp.id)
        if c["pending"]:
            w.ArchiveFileCopyRequest.create(file=f, node_from=node, group_to=g2, completed=False, cancelled=False)
        for kind in c.get("decoys", []):
            if kind == "done":
                w.ArchiveFileCopyRequest.create(file=f, node_from=node, group_to=g2, completed=True, cancelled=False)
            elif kind == "cancelled":
                w.ArchiveFileCopyRequest.create(file=f, node_from=node, group_to=g2, completed=False, cancelled=True)
            elif kind == "othernode":
                w.ArchiveFileCopyRequest.create(file=f, node_from=other, group_to=g2, completed=False, cancelled=False)
            elif kind == "othercopy":
                w.ArchiveFileCopy.create(file=f, node=other, has_file="Y", wants_file="N", size_b=5)
    batches = []

    class IO:
        def delete(self, copies):
            batches.append([c.id for c in copies])

    class Stub:
        pass

    un = Stub()
    un.db = w.StorageNode.get(id=node.id)
    un.io = IO()
    un.name = "n"
    un._io_happened = False
    U.UpdateableNode.update_delete(un)
    return ids, batches, un._io_happened


def reference(case, ids):
    """the property, written from its text: returns the set of admissible facts to check on `taken`"""
    disc = case["stype"] != "A" and case["avail"] is not None and case["avail"] < case["min"]
    need = (case["min"] - case["avail"]) * 1048576 if disc else 0
    return disc, need


def monitor(ctx, case, ids, batches, io_happened):
    taken = [i for b in batches for i in b]
    byid = dict(zip(ids, case["copies"]))
    disc, need = reference(case, ids)
    bad = None
    if taken != sorted(taken) or len(set(taken)) != len(taken):
        bad = "not in record order / duplicates"
    if any(not b for b in batches):
        bad = "empty delete task"
    pre = 0
    for i in taken:
        c = byid[i]
        if c["wants"] == "Y" or c["has"] == "N" or c["pending"]:
            bad = f"copy {i} selected although wanted/absent/pending source"
        if c["wants"] == "M":
            if not disc:
                bad = f"removable copy {i} selected without space pressure"
            elif pre >= need:
                bad = f"removable copy {i} selected although {pre} bytes already queued cover the shortfall {need}"
        pre += c["csize"] or c["fsize"] or 0
    for i, c in byid.items():
        if c["wants"] == "N" and c["has"] != "N" and not c["pending"] and i not in taken:
            bad = f"released copy {i} not selected"
        if disc and c["wants"] == "M" and c["has"] != "N" and not c["pending"] and i not in taken:
            # must be because the shortfall was covered by what was queued before it
            before = sum((byid[j]["csize"] or byid[j]["fsize"] or 0) for j in taken if j < i)
            if before < need:
                bad = f"removable copy {i} skipped although only {before} of {need} bytes were queued before it"
    if bad:
        ctx.fail("C15:selection", f"update_delete: {bad}", {"family": "select", "case": case, "batches": batches})


def gen_case(rng):
    stype = rng.choice("AFFFT")
    mn = rng.choice([0, 1024, 2048, 5 * 1024 + 512])
    avail = rng.choice([None, mn, mn + 1, mn - 1, mn - rng.randint(1, 3000), rng.randint(0, 8000)])
    if avail is not None and avail < 0:
        avail = 0
    n = rng.choice([0, 1, 2, 3, 5, 8, 12, 23, 35])
    copies = []
    short = max(0, (mn - (avail or 0))) * 1048576
    for i in range(n):
        sz = rng.choice([None, 0, 1, 1000, short // 3 + 1, short // 2, short, short + 1, rng.randint(1, 2_000_000_000)])
        kind = rng.random()
        copies.append({
            "has": rng.choice("YYYMXN"), "wants": rng.choice("YMMMNN"),
            "csize": sz if kind < 0.6 else None if kind < 0.8 else 0,
            "fsize": rng.choice([None, sz, rng.randint(0, 1_000_000)]),
            "pending": rng.random() < 0.15,
            "decoys": [rng.choice(["done", "cancelled", "othernode", "othercopy"])] if rng.random() < 0.3 else [],
        })
    forder = list(range(n))
    if rng.random() < 0.8:
        rng.shuffle(forder)
    return {"stype": stype, "min": mn, "avail": avail, "copies": copies, "forder": forder}


HAS = {"Y": "HY", "M": "HM", "X": "HX", "N": "HN"}
WANTS = {"Y": "WY", "M": "WM", "N": "WN"}


def term(case, ids, batches):
    cs = [f"(mk {cn(i)} {HAS[c['has']]} {WANTS[c['wants']]} {copt(c['csize'], cz, 'Z')} {copt(c['fsize'], cz, 'Z')} {cbool(c['pending'])})" for i, c in zip(ids, case["copies"])]
    return ctup(cbool(case["stype"] == "A"), copt(case["avail"], cz, "Z"), cz(case["min"]), clist(cs, "cand"),
                clist([clist([cn(i) for i in b], "N") for b in batches], "(list N)"))


CORPUS = [
    # file records made in the reverse order of the copy records: "record order" is the copies' order
    {"stype": "F", "min": 2048, "avail": 1024, "forder": [2, 1, 0], "copies": [
        {"has": "Y", "wants": "M", "csize": 2 ** 30, "fsize": None, "pending": False},
        {"has": "Y", "wants": "M", "csize": 2 ** 30, "fsize": None, "pending": False},
        {"has": "Y", "wants": "M", "csize": 2 ** 30, "fsize": None, "pending": False}]},
    # upstream test_update_delete_under_min shape: single pass crediting
    {"stype": "F", "min": 2048, "avail": 1024, "copies": [
        {"has": "Y", "wants": "M", "csize": 2 ** 30 // 2, "fsize": None, "pending": False},
        {"has": "Y", "wants": "N", "csize": None, "fsize": 2 ** 30, "pending": False},
        {"has": "Y", "wants": "M", "csize": 1, "fsize": None, "pending": False},
        {"has": "Y", "wants": "M", "csize": 1, "fsize": None, "pending": True}]},
    {"stype": "A", "min": 2048, "avail": 0, "copies": [{"has": "Y", "wants": "M", "csize": 5, "fsize": 5, "pending": False}]},
    {"stype": "F", "min": 2048, "avail": None, "copies": [{"has": "Y", "wants": "M", "csize": 5, "fsize": 5, "pending": False}, {"has": "M", "wants": "N", "csize": 5, "fsize": 5, "pending": False}]},
    {"stype": "F", "min": 1, "avail": 0, "copies": [{"has": "Y", "wants": "M", "csize": 0, "fsize": 0, "pending": False}] * 25},
]


def explore(ctx, n=None):
    n = n or (350 if ctx.quick() else 6000)
    cases, terms = [], []
    for k in range(n + len(CORPUS)):
        case = CORPUS[k] if k < len(CORPUS) else gen_case(ctx.rng)
        ids, batches, ioh = run_impl(case)
        monitor(ctx, case, ids, batches, ioh)
        ctx.count("select")
        if any(c["wants"] != "Y" for c in case["copies"]):
            ctx.distinct_add(case)
        cases.append((case, batches))
        terms.append(term(case, ids, batches))
        if k in (0, len(CORPUS)):
            ctx.sample({"case": case, "batches_handed_to_io_delete": batches})
    bad = core.run_cases(ctx, "select", "Corr.C15", "case", "check", terms, shard=250, extra_imports=("Model.Select",))
    for i in bad[:3]:
        ctx.broke("correspondence", f"update_delete: model and implementation differ: case={cases[i][0]} impl batches={cases[i][1]}")
    explore_passes(ctx, 40 if ctx.quick() else 1500)


def explore_passes(ctx, n):
    """consecutive passes of the real UpdateableNode.update() with a scripted amount of free space that grows by what was deleted:
    every pass must decide on the space as it is in that pass (none touched once the node is back above its minimum)"""
    from vf.harness import world as w
    from alpenhorn.daemon import update as U
    from alpenhorn.scheduler import FairMultiFIFOQueue

    rng = ctx.rng
    G = 2 ** 30
    base = ctx.tmp() / "passes"
    for k in range(n):
        root = base / f"r{k % 3}"
        root.mkdir(parents=True, exist_ok=True)
        w.fresh_db(host="h1")
        g = w.mkgroup("g")
        mn = rng.choice([1, 2, 5])
        row = w.mknode(None, "n", g, stype="F", host="h1", root=str(root), min_avail_gb=float(mn))
        acq = w.mkacq("acq")
        nfiles = rng.randint(2, 7)
        size = rng.choice([G // 2, G])
        for i in range(nfiles):
            f = w.mkfile(acq, f"f{i}", b"")
            w.ArchiveFile.update(size_b=size).where(w.ArchiveFile.id == f.id).execute()
            w.mkcopy(row, f, "Y", "M", size_b=size)
        free = [rng.choice([mn * G - G // 2, mn * G - 3 * G // 2, mn * G - 1, mn * G, mn * G + 5])]
        stored = rng.choice([free[0], free[0], mn * G + G, 0])  # what an earlier run left in the index may be stale
        w.StorageNode.update(avail_gb=stored / G).where(w.StorageNode.id == row.id).execute()
        queue = FairMultiFIFOQueue()
        un = U.UpdateableNode(queue, w.StorageNode.get(id=row.id))
        un.io.bytes_avail = lambda fast=False: free[0]
        deleted_per_pass = []

        def fake_delete(copies, _free=free):
            # the I/O layer would remove the files; here: record, mark removed, give the space back
            ids = [c.id for c in copies]
            deleted_per_pass[-1] += ids
            for c in copies:
                _free[0] += c.size_b or 0
                w.ArchiveFileCopy.update(has_file="N", wants_file="N").where(w.ArchiveFileCopy.id == c.id).execute()

        un.io.delete = fake_delete
        hist = []
        edits = []
        stype = "F"
        for p in range(3):
            if p and rng.random() < 0.6:
                # the operator edits the node record between two passes: the next pass decides on the record as it is now
                if rng.random() < 0.3:
                    stype = "A" if stype == "F" else "F"
                    w.StorageNode.update(storage_type=stype).where(w.StorageNode.id == row.id).execute()
                    edits.append((p, "storage_type", stype))
                else:
                    mn = rng.choice([0, 1, 2, 5, 8])
                    w.StorageNode.update(min_avail_gb=float(mn)).where(w.StorageNode.id == row.id).execute()
                    edits.append((p, "min_avail_gb", mn))
            # (the main loop hands every node its freshly read record once per iteration)
            un.reinit(w.StorageNode.get(id=row.id))
            before = free[0]
            deleted_per_pass.append([])
            un.update()
            hist.append((before, list(deleted_per_pass[-1])))
            ctx.count("passes")
            short = mn * G - before if stype == "F" else 0
            rp = {"family": "passes", "min_avail_gib": mn, "storage_type": stype, "record_edits": edits, "copy_size": size, "copies": nfiles, "stored_avail_bytes_before_first_pass": stored,
                  "passes": [[b, d] for b, d in hist]}
            got = deleted_per_pass[-1]
            need = 0 if short <= 0 else -(-short // size)
            if stype == "A" and got:
                ctx.fail("C15:archive-node-touched", f"pass {p}: the node is an archive node now (edits {edits}) and removable copies {got} were deleted", rp)
                break
            if short <= 0 and got:
                ctx.fail("C15:sufficient-space-touched", f"pass {p}: {before} bytes free, minimum {mn * G} (record edits {edits}): removable copies {got} were deleted although free space is sufficient (passes so far: {hist})", rp)
                break
            if short > 0 and len(got) != min(need, nfiles - sum(len(d) for _, d in hist[:-1])):
                ctx.fail("C15:selection", f"pass {p}: {before} bytes free, minimum {mn * G}, copies of {size} bytes: {len(got)} deleted, {need} needed (passes so far: {hist})", rp)
                break
        ctx.distinct_add(("passes", mn, size, nfiles, free[0], stored))


def search(ctx):
    explore(ctx, 4000)


def replay(ctx, rp):
    case = rp["replay"]["case"]
    ids, batches, ioh = run_impl(case)
    print("batches:", batches)
    monitor(ctx, case, ids, batches, ioh)
    for f in ctx.failing:
        print(f["what"])
    return 1 if ctx.failing else 0
