"""Seeded breaking changes (/verif/seeded/<id>/): confirm one, and run the registered checks against it.

  python3 -m vf.seeded confirm <id> <worktree>   # patch applies to a clean tree, baseline tests unchanged, demo fails with / passes without
  python3 -m vf.seeded run <id> [--tier quick] [--only C01,C02]   # git -C /repo apply; run the checks; git -C /repo checkout -- .
  python3 -m vf.seeded table                      # seeded/RESULTS.md from the stored results
"""
from __future__ import annotations

import concurrent.futures as cf
import json
import os
import pathlib
import shutil
import subprocess
import sys
import xml.etree.ElementTree as ET

VERIF = pathlib.Path("/verif")
SEEDED = VERIF / "seeded"
ALL = [f"C{k:02d}" for k in range(1, 21)]


def sh(cmd, **kw):
    return subprocess.run(cmd, capture_output=True, text=True, **kw)


def passed(xml):
    out = set()
    for tc in ET.parse(xml).getroot().iter("testcase"):
        if not any(c.tag in ("failure", "error", "skipped") for c in tc):
            out.add(f"{tc.get('classname')}::{tc.get('name')}")
    return out


def confirm(sid, wt):
    """the agent left the change applied in worktree `wt` with patch.diff and demo_<id>.py"""
    wt = pathlib.Path(wt)
    d = SEEDED / sid
    d.mkdir(parents=True, exist_ok=True)
    env = dict(os.environ, PYTHONPATH=str(wt), PYTHONHASHSEED="0")
    demo = next(wt.glob("demo_*.py"))
    res = {"id": sid, "property": sid[:3]}
    # the patch, regenerated from the worktree (code only)
    patch = sh(["git", "-C", str(wt), "diff", "--", "alpenhorn"]).stdout
    (d / "patch.diff").write_text(patch)
    shutil.copy(demo, d / demo.name)
    res["files_changed"] = sorted({l[6:] for l in patch.splitlines() if l.startswith("+++ b/")})
    res["lines_changed"] = sum(1 for l in patch.splitlines() if (l.startswith("+") or l.startswith("-")) and not l.startswith(("+++", "---")))
    # demo with the change
    r1 = sh(["/venv/bin/python", demo.name], cwd=wt, env=env, timeout=600)
    res["demo_with_change"] = {"exit": r1.returncode, "last": (r1.stdout.strip().splitlines() or [""])[-1][:400]}
    # baseline with the change
    sh(["/venv/bin/python", "-m", "pytest", "-q", "-p", "no:cacheprovider", "--timeout=900", "--continue-on-collection-errors", f"--junitxml={wt}/junit_confirm.xml"], cwd=wt, env=env, timeout=2400)
    base = set(json.load(open("/root/.vp/BASELINE.json"))["stable_pass"])
    now = passed(wt / "junit_confirm.xml")
    res["baseline"] = {"stable_pass": len(base), "still_passing": len(base & now), "lost": sorted(base - now)[:10]}
    # demo without the change
    # (no `git stash`: the stash is shared by all worktrees of one repository)
    sh(["git", "-C", str(wt), "checkout", "--", "alpenhorn"])
    try:
        r0 = sh(["/venv/bin/python", demo.name], cwd=wt, env=env, timeout=600)
        clean_apply = sh(["git", "-C", str(wt), "apply", "--check", str(d / "patch.diff")]).returncode == 0
    finally:
        sh(["git", "-C", str(wt), "apply", str(d / "patch.diff")])
    res["demo_without_change"] = {"exit": r0.returncode, "last": (r0.stdout.strip().splitlines() or [""])[-1][:400]}
    res["applies_to_clean_tree"] = clean_apply
    res["applies_to_repo"] = sh(["git", "-C", "/repo", "apply", "--check", str(d / "patch.diff")]).returncode == 0
    res["confirmed"] = bool(res["applies_to_repo"] and clean_apply and r1.returncode != 0 and r0.returncode == 0 and not res["baseline"]["lost"] and "VIOLATED" in r1.stdout and "HOLDS" in r0.stdout)
    meta = d / "meta.json"
    old = json.loads(meta.read_text()) if meta.exists() else {}
    old.update(res)
    meta.write_text(json.dumps(old, indent=1))
    print(json.dumps(res, indent=1))
    return res["confirmed"]


def one_check(pid, tier):
    r = sh([str(VERIF / "check"), pid, "--tier", tier], timeout=3600)
    lines = [l for l in r.stdout.splitlines() if l.startswith(("VIOLATION", "BROKEN", "OK", "KNOWN-FINDING"))]
    return pid, r.returncode, lines


def run(sid, tier="quick", only=None, jobs=8):
    d = SEEDED / sid
    patch = d / "patch.diff"
    assert sh(["git", "-C", "/repo", "status", "--porcelain"]).stdout.strip() == "", "/repo is not clean"
    a = sh(["git", "-C", "/repo", "apply", str(patch)])
    assert a.returncode == 0, a.stderr
    results = {}
    try:
        with cf.ThreadPoolExecutor(jobs) as ex:
            for pid, rc, lines in ex.map(lambda p: one_check(p, tier), only or ALL):
                replays = []
                for l in lines:
                    if l.startswith("VIOLATION"):
                        rp = l.split("replay=")[1].split()[0]
                        replays.append(rp)
                what = []
                for rp in replays[:2]:
                    try:
                        j = json.load(open(rp))
                        what.append({"signature": j.get("signature"), "what": (j.get("what") or "")[:300]})
                        (d / "replays").mkdir(exist_ok=True)
                        shutil.copy(rp, d / "replays" / (pid + "-" + pathlib.Path(rp).name))
                    except Exception:
                        pass
                results[pid] = {"exit": rc, "violation": any(l.startswith("VIOLATION") for l in lines), "concrete_input": any(l.startswith("VIOLATION") and "no-failing-input-found" not in l for l in lines),
                                "broken": [l[:200] for l in lines if l.startswith("BROKEN")][:4], "first": what}
                for rp in replays:
                    try:
                        os.unlink(rp)
                    except OSError:
                        pass
    finally:
        sh(["git", "-C", "/repo", "checkout", "--", "."])
    out = d / f"results_{tier}.json"
    if only and out.exists():
        merged = json.loads(out.read_text())
        merged.update(results)
        results = merged
    out.write_text(json.dumps(dict(sorted(results.items())), indent=1))
    caught = [p for p, r in results.items() if r["violation"]]
    print(sid, "caught by", caught)
    return results


def table():
    rows = ["# Seeded breaking changes: which registered check reports what", "",
            "Each change was produced by a fresh sub-agent from the property's text alone, confirmed (`meta.json`: patch applies to the unchanged tree, the 137-test baseline is unchanged, the",
            "demonstration fails with the change and passes without it), applied to /repo, checked with the quick tier of all 20 checks (`results_quick.json`), and undone.", "",
            "| seeded | target | change | caught by its own check | concrete failing input | other checks that also report it |", "|---|---|---|---|---|---|"]
    for d in sorted(SEEDED.iterdir()):
        if not (d / "meta.json").exists():
            continue
        m = json.loads((d / "meta.json").read_text())
        rp = d / "results_quick.json"
        if not rp.exists():
            continue
        r = json.loads(rp.read_text())
        tgt = m["property"]
        own = r.get(tgt, {})
        others = [p for p, x in r.items() if x["violation"] and p != tgt]
        rows.append(f"| {d.name} | {tgt} | {m.get('summary', '')[:160]} | {'yes' if own.get('violation') else 'NO'} | {'yes' if own.get('concrete_input') else ('no-failing-input-found' if own.get('violation') else '-')} | {', '.join(others) or '-'} |")
    (SEEDED / "RESULTS.md").write_text("\n".join(rows) + "\n")
    print("\n".join(rows))


if __name__ == "__main__":
    cmd = sys.argv[1]
    if cmd == "confirm":
        sys.exit(0 if confirm(sys.argv[2], sys.argv[3]) else 1)
    elif cmd == "run":
        tier = "quick"
        only = None
        for a in sys.argv[3:]:
            if a.startswith("--tier="):
                tier = a.split("=")[1]
            if a.startswith("--only="):
                only = a.split("=")[1].split(",")
        run(sys.argv[2], tier, only)
    elif cmd == "table":
        table()
