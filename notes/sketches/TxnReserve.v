(* Feasibility sketches: Base/Txn (C17 C10 C09) and the reservation arithmetic (C14). *)
From Coq Require Import List ZArith Bool Lia Arith.
Import ListNotations.

Section Txn.
  Variable index : Type.
  Inductive stmt := Read | Write (f : index -> index).

  (* statements 0..k-1 succeed, statement k raises (None = no fault) *)
  Fixpoint run (l : list stmt) (k : option nat) (i : index) : index * bool (* raised? *) :=
    match l with
    | [] => (i, false)
    | s :: l' =>
        match k with
        | Some O => (i, true)
        | _ => let i' := match s with Read => i | Write f => f i end in
               run l' (match k with Some (S m) => Some m | _ => None end) i'
        end
    end.
  (* with database_proxy.atomic(): roll back on exception *)
  Definition run_atomic (l : list stmt) (k : option nat) (i : index) : index :=
    let '(i', raised) := run l k i in if raised then i else i'.
  (* no transaction: what was written stays *)
  Definition run_plain (l : list stmt) (k : option nat) (i : index) : index := fst (run l k i).

  Lemma run_no_fault_past_end l : forall k i, length l <= k -> run l (Some k) i = run l None i.
  Proof.
    induction l as [|s l IH]; intros k i H; [reflexivity|]. cbn [run]. cbn in H.
    destruct k as [|k]; [lia|]. rewrite IH by lia. reflexivity.
  Qed.

  Theorem atomic_all_or_nothing l k i : run_atomic l k i = i \/ run_atomic l k i = run_atomic l None i.
  Proof.
    unfold run_atomic. destruct (run l k i) as [i' raised] eqn:E. destruct raised; [left; reflexivity|].
    right. assert (H : forall l k i i', run l k i = (i', false) -> run l None i = (i', false)).
    { clear. induction l as [|s l IH]; intros k i i' H; cbn in *; [exact H|].
      destruct k as [[|k]|]; [discriminate | apply (IH _ _ _ H) | exact H]. }
    rewrite (H _ _ _ _ E). reflexivity.
  Qed.

  Definition writes (l : list stmt) : nat := length (filter (fun s => match s with Write _ => true | Read => false end) l).
  Theorem plain_single_write l k i : writes l <= 1 -> run_plain l k i = i \/ run_plain l k i = run_plain l None i.
  Proof.
    unfold run_plain. revert k i. induction l as [|s l IH]; intros k i H; [left; reflexivity|].
    cbn [run]. destruct k as [[|k]|]; [left; reflexivity | | right; reflexivity].
    destruct s as [|f].
    - apply IH. exact H.
    - (* the only write has happened: everything after it is a read *)
      right. assert (W : writes l = 0) by (unfold writes in *; cbn in H; lia).
      assert (R : forall l k j, writes l = 0 -> fst (run l k j) = j).
      { clear. induction l as [|s l IH]; intros k j W; [reflexivity|]. cbn [run].
        destruct s; [|unfold writes in W; cbn in W; lia].
        destruct k as [[|k]|]; [reflexivity | apply IH; exact W | apply IH; exact W]. }
      rewrite !R by exact W. reflexivity.
  Qed.
End Txn.

(* ---- C14: reserve / release arithmetic of DefaultNodeIO ---- *)
Open Scope Z_scope.
Definition factor : Z := 2.                                      (* reserve_factor, tied by T1 *)
Definition reserve (size : Z) (bavail : option Z) (reserved : Z) : bool * Z :=
  match bavail with
  | Some b => if b - reserved <? size * factor then (false, reserved) else (true, reserved + size * factor)
  | None => (true, reserved + size * factor)
  end.
Definition release (size : Z) (reserved : Z) : option Z :=        (* None = ValueError *)
  if reserved <? size * factor then None else Some (reserved - size * factor).

(* the total always equals twice the sizes of the outstanding pulls; releasing an outstanding one never raises *)
Fixpoint outstanding (l : list Z) : Z := match l with [] => 0 | s :: l' => s * factor + outstanding l' end.
Theorem reserve_balance size bavail l :
  Forall (fun s => 0 <= s) l -> 0 <= size ->
  let '(ok, r) := reserve size bavail (outstanding l) in r = outstanding (if ok then size :: l else l) /\
  (ok = true -> forall b, bavail = Some b -> size * factor <= b - outstanding l).
Proof.
  intros Hl Hs. unfold reserve. destruct bavail as [b|].
  - destruct (b - outstanding l <? size * factor) eqn:E; cbn [outstanding]; split; try lia; try discriminate.
    intros _ b' [= <-]. lia.
  - cbn [outstanding]. split; [lia|]. intros _ b [=].
Qed.
Theorem release_balance size l :
  Forall (fun s => 0 <= s) l -> 0 <= size -> release size (outstanding (size :: l)) = Some (outstanding l).
Proof.
  intros Hl Hs. unfold release. cbn [outstanding].
  assert (0 <= outstanding l).
  { induction Hl; cbn [outstanding]; unfold factor in *; lia. }
  destruct (size * factor + outstanding l <? size * factor) eqn:E; [lia|]. f_equal. lia.
Qed.
Print Assumptions atomic_all_or_nothing.
Print Assumptions release_balance.
