From Coq Require Import List NArith ZArith Bool Lia Permutation.
From Alp Require Import Model.Task.
Import ListNotations.

Lemma register_perm acts : forall dq, Permutation (fold_left register acts dq) (dq ++ map reg_id acts).
Proof.
  induction acts as [|[c f] acts IH]; intros dq; cbn [fold_left map].
  - rewrite app_nil_r. reflexivity.
  - rewrite IH. destruct f; cbn [register reg_id].
    + change (c :: dq) with ([c] ++ dq). rewrite <- app_assoc. apply Permutation_trans with (l' := dq ++ [c] ++ map reg_id acts).
      * rewrite !app_assoc. apply Permutation_app_tail. apply Permutation_app_comm.
      * reflexivity.
    + rewrite <- app_assoc. reflexivity.
Qed.

(* a yielding invocation re-queues the task in the same FIFO with the same exclusivity, runs no clean-up,
   and reports "not finished"; the wait is the yielded value (none = 0 = immediately) *)
Lemma yield_requeues_same t acts v rest : t_body t = (acts, Yield v) :: rest ->
  snd (call t) = [Requeue (t_key t) (t_excl t) (match v with Some z => z | None => 0%Z end)] /\ snd (fst (call t)) = false.
Proof. intros H. unfold call. rewrite H. split; reflexivity. Qed.

Lemma requeue_always_same t e : In e (snd (call t)) -> forall k x w, e = Requeue k x w -> k = t_key t /\ x = t_excl t.
Proof.
  unfold call. destruct (t_body t) as [|[acts [v|]] rest]; cbn [snd].
  - intros H k x w ->. apply in_map_iff in H as (c & Hc & _). discriminate.
  - intros [<-|[]] k x w E. injection E as <- <- _. auto.
  - intros H k x w ->. apply in_map_iff in H as (c & Hc & _). discriminate.
Qed.

(* driving a well-formed body: one invocation per segment; the yielding ones run no clean-up; the last one runs
   every registered clean-up exactly once (a permutation of all registrations, in deque order) *)
Lemma drive_wf : forall ys acts key excl dq fuel,
  forallb is_yield ys = true -> length ys < fuel ->
  exists final,
    drive fuel {| t_key := key; t_excl := excl; t_body := ys ++ [(acts, Stop)]; t_cleanup := dq |} =
      map (fun s => [Requeue key excl (match snd s with Yield (Some z) => z | _ => 0%Z end)]) ys ++ [map RanCleanup final] /\
    Permutation final (dq ++ map reg_id (all_acts (ys ++ [(acts, Stop)]))).
Proof.
  induction ys as [|[a e] ys IH]; intros acts key excl dq fuel Hy Hf; destruct fuel as [|fuel]; try (cbn in Hf; lia).
  - cbn [drive call app t_body t_key t_excl t_cleanup]. eexists. split; [reflexivity|].
    unfold all_acts. cbn [flat_map fst app]. rewrite app_nil_r. apply register_perm.
  - cbn [forallb] in Hy. apply andb_true_iff in Hy as [He Hy]. unfold is_yield in He. cbn [snd] in He.
    destruct e as [v|]; [|discriminate].
    cbn [drive call app t_body t_key t_excl t_cleanup].
    destruct (IH acts key excl (fold_left register a dq) fuel Hy ltac:(cbn in Hf; lia)) as (final & E & P).
    exists final. split.
    + rewrite E. cbn [map snd]. destruct v; reflexivity.
    + rewrite P. unfold all_acts. cbn [flat_map fst]. rewrite map_app, app_assoc. apply Permutation_app_tail, register_perm.
Qed.

Definition ex_task : task :=
  {| t_key := 3; t_excl := true; t_cleanup := [];
     t_body := [([Reg 10 true], Yield None); ([Reg 11 true; Reg 12 false], Yield (Some 5%Z)); ([], Stop)] |}.
Lemma example_drive : drive 5 ex_task =
  [[Requeue 3 true 0]; [Requeue 3 true 5]; [RanCleanup 11; RanCleanup 10; RanCleanup 12]].
Proof. vm_compute. reflexivity. Qed.
