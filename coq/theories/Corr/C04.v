(* Correspondence for C04: facts of one imported path before the daemon's pass, and what was observed after *)
From Coq Require Import List NArith Bool Arith.
From Alp Require Import Base.Str Base.Types Model.Path Model.Import Model.Watch.
Import ListNotations.
Definition hw_eqb (a b : option (has * wants)) : bool :=
  match a, b with None, None => true | Some (h1, w1), Some (h2, w2) => has_eqb h1 h2 && wants_eqb w1 w2 | _, _ => false end.
Definition FX (sy rg dn tm ts lk : bool) (pth : str) (det : option str) (reg ak fk : bool) (cr : option (has * wants)) : facts :=
  {| is_symlink := sy; is_regular := rg; dot_name := dn; in_temp_dir := tm; through_symlink := ts; locked := lk; ipath := pth; detected := det;
     register := reg; acq_known := ak; file_known := fk; copy_row := cr |}.
(* observed: (request completed, acquisition record created, file record created, copy row afterwards) *)
Definition icase := (facts * (bool * bool * bool * option (has * wants)))%type.
Definition icheck (c : icase) : bool :=
  let '(f, (done, na, nf, cr)) := c in
  match import_decision f with
  | OImported a b r => done && Bool.eqb na a && Bool.eqb nf b && hw_eqb cr (Some r)
  | o => Bool.eqb done (completes_request o) && negb na && negb nf && hw_eqb cr (copy_row f)
  end.
(* request vetting: (absolute, marker, recurse, resolves, in tree, path, observed: 0 invalid / 1 duplicate / 2 scan queued / 3 import queued) *)
Definition vcase := (bool * bool * bool * bool * bool * str * N)%type.
Definition vcheck (c : vcase) : bool :=
  let '(ab, mk, rc, rs, it, p, o) := c in
  N.eqb o (match vet_request ab mk rc rs it p with VInvalid => 0 | VDuplicate => 1 | VScan => 2 | VImport => 3 end)%N.
(* concurrent importers: final copy row must be one the model can reach *)
Definition ccase := (option (has * wants) * option (has * wants))%type.   (* (before, after) *)
Definition ccheck (c : ccase) : bool :=
  let '(b, a) := c in
  match b with
  | None => hw_eqb a (Some (HY, WY)) || hw_eqb a (Some (HM, WY))
  | Some r => if tracked (Some r) then hw_eqb a (Some r) else hw_eqb a (Some (revive r)) || hw_eqb a (Some (revive (revive r)))
  end.

(* watchdog events: the path the real handler handed to import_file (None: nothing), and what locked() looked for beside a path *)
Definition ostr_eqb (a b : option str) : bool := match a, b with Some x, Some y => str_eqb x y | None, None => true | _, _ => false end.
Definition ecase := (event * option str)%type.
Definition echeck (c : ecase) : bool := ostr_eqb (handle (fst c)) (snd c).
Definition lcase := (str * str)%type.          (* (path, the lock path DefaultNodeIO.locked tested) *)
Definition lcheck (c : lcase) : bool := str_eqb (lock_of (fst c)) (snd c).
