From Coq Require Import List NArith Bool Arith Lia.
From Alp Require Import Base.Str Base.Types Model.Path Model.Import Proofs.PathProofs.
Import ListNotations.
Local Open Scope nat_scope.

Lemma imported_inv f a b c : import_decision f = OImported a b c ->
  is_symlink f = false /\ is_regular f = true /\ through_symlink f = false /\ dot_name f = false /\ in_temp_dir f = false /\ locked f = false /\
  exists acq, detected f = Some acq /\ invalid_import_path acq = false /\ is_none (file_name (ipath f) acq) = false.
Proof.
  unfold import_decision.
  destruct (is_symlink f) eqn:E1; cbn [orb]; [discriminate|]. destruct (is_regular f) eqn:E2; cbn [negb]; [|discriminate].
  destruct (through_symlink f) eqn:E3; [discriminate|]. destruct (dot_name f) eqn:E4; cbn [orb]; [discriminate|]. destruct (in_temp_dir f) eqn:E5; [discriminate|].
  destruct (locked f) eqn:E6; [discriminate|]. destruct (detected f) as [acq|] eqn:E7; [|discriminate].
  destruct (invalid_import_path acq) eqn:E8; [discriminate|]. destruct (is_none (file_name (ipath f) acq)) eqn:E9; [discriminate|].
  intros _. repeat split; auto. exists acq. auto.
Qed.

(* never imported: dot-files, symlinks, non-regular files, locked files (which stay pending), paths reached through a
   symlinked directory, transfer artefacts, names the detector rejects or that are not canonical *)
Lemma never_imported f : is_symlink f = true \/ is_regular f = false \/ dot_name f = true \/ in_temp_dir f = true \/ through_symlink f = true \/
  locked f = true \/ detected f = None \/ (exists a, detected f = Some a /\ invalid_import_path a = true) \/
  (exists a, detected f = Some a /\ file_name (ipath f) a = None) ->
  fires_rules (import_decision f) = false /\ creates_records (import_decision f) = false /\
  (forall a b c, import_decision f <> OImported a b c).
Proof.
  intros H. assert (G : forall a b c, import_decision f <> OImported a b c).
  { intros a b c E. destruct (imported_inv f a b c E) as (I1 & I2 & I3 & I4 & I5 & I6 & acq & I7 & I8 & I9).
    destruct H as [H|[H|[H|[H|[H|[H|[H|[(x & Hx & Hi)|(x & Hx & Hi)]]]]]]]]; try congruence.
    rewrite Hx in I7; injection I7 as <-. rewrite Hi in I9. discriminate. }
  split; [|split; [|exact G]]; destruct (import_decision f) eqn:E; cbn; try reflexivity; exfalso; eapply G; reflexivity.
Qed.

Lemma locked_stays_pending f : import_decision f = OLocked -> completes_request (import_decision f) = false.
Proof. intros ->. reflexivity. Qed.

(* registration disabled: no acquisition or file record is ever created, and only already-registered files gain a copy *)
Lemma no_registration f a b c : register f = false -> import_decision f = OImported a b c -> a = false /\ b = false /\ acq_known f = true /\ file_known f = true.
Proof.
  intros Hr. unfold import_decision.
  destruct (is_symlink f || negb (is_regular f)); [discriminate|]. destruct (through_symlink f); [discriminate|]. destruct (dot_name f || in_temp_dir f); [discriminate|].
  destruct (locked f); [discriminate|]. destruct (detected f) as [acq|]; [|discriminate]. destruct (invalid_import_path acq); [discriminate|]. destruct (is_none (file_name (ipath f) acq)); [discriminate|].
  destruct (tracked (copy_row f)); [discriminate|]. rewrite Hr. cbn [negb andb].
  destruct (acq_known f); cbn [negb andb]; [|discriminate]. destruct (file_known f); cbn [negb andb]; [|discriminate].
  intros H; injection H as <- <- _. auto.
Qed.

(* an import that goes through yields exactly one present-or-suspect copy and registers what was missing *)
Lemma imported_copy f a b c : import_decision f = OImported a b c ->
  a = negb (acq_known f) /\ b = negb (file_known f) /\ tracked (copy_row f) = false /\
  (copy_row f = None -> c = (HY, WY)) /\ (forall r, copy_row f = Some r -> c = revive r) /\ tracked (Some c) = true.
Proof.
  unfold import_decision.
  destruct (is_symlink f || negb (is_regular f)); [discriminate|]. destruct (through_symlink f); [discriminate|]. destruct (dot_name f || in_temp_dir f); [discriminate|].
  destruct (locked f); [discriminate|]. destruct (detected f) as [acq|]; [|discriminate]. destruct (invalid_import_path acq); [discriminate|]. destruct (is_none (file_name (ipath f) acq)); [discriminate|].
  destruct (tracked (copy_row f)) eqn:Et; [discriminate|].
  destruct (negb (acq_known f) && negb (register f)); [discriminate|]. destruct (negb (file_known f) && negb (register f)); [discriminate|].
  intros H; injection H as <- <- <-. repeat split; auto.
  - intros ->. reflexivity.
  - intros r ->. reflexivity.
  - destruct (copy_row f) as [[h w]|]; [|reflexivity]. unfold revive. cbn [snd]. destruct (wants_eqb w WY); reflexivity.
Qed.

(* ---- the file name (fix F-C06d) ---- *)
Lemma strip_prefix_app a b l : strip_prefix a b = Some l -> b = a ++ l.
Proof.
  revert b; induction a as [|x a IH]; intros b; cbn [strip_prefix].
  - intros H; injection H as <-; reflexivity.
  - destruct b as [|y b]; [discriminate|]. destruct (str_eqb x y) eqn:E; [|discriminate]. apply str_eqb_eq in E; subst y.
    intros H; apply IH in H; subst b; reflexivity.
Qed.
Lemma join_app a l : a <> [] -> l <> [] -> join (a ++ l) = join a ++ [47%N] ++ join l.
Proof.
  induction a as [|x a IH]; intros Ha Hl; [congruence|].
  destruct a as [|y a].
  - cbn [app]. rewrite join_cons by exact Hl. reflexivity.
  - change ((x :: y :: a) ++ l) with (x :: ((y :: a) ++ l)). rewrite join_cons by (cbn; discriminate). rewrite IH by (auto; discriminate).
    rewrite (join_cons x (y :: a)) by discriminate. rewrite <- !app_assoc. reflexivity.
Qed.
(* what is registered is the path split in two: acquisition + "/" + file name, the file name a canonical name of its own *)
Lemma file_name_sound p acq n : file_name p acq = Some n -> invalid_import_path n = false /\ p = acq ++ [47%N] ++ n.
Proof.
  unfold file_name, relative_to. destruct (strip_prefix (split acq) (split p)) as [l|] eqn:E; [|discriminate].
  apply strip_prefix_app in E. destruct l as [|c l].
  - cbn. discriminate.
  - destruct (invalid_import_path (join (c :: l))) eqn:Ei; [discriminate|]. intros H; injection H as <-. split; [exact Ei|].
    rewrite <- (join_split p), E, join_app, join_split; [reflexivity | apply split_aux_nonempty | discriminate].
Qed.
Lemma file_name_canonical p acq n : file_name p acq = Some n -> canonical n = true /\ p = acq ++ [47%N] ++ n.
Proof. intros H. destruct (file_name_sound p acq n H) as [Hv Hp]. split; [|exact Hp]. rewrite invalid_iff_not_canonical in Hv. destruct (canonical n); [reflexivity | discriminate]. Qed.
Lemma file_name_not_self p : file_name p p = None.
Proof.
  unfold file_name, relative_to. assert (H : strip_prefix (split p) (split p) = Some []).
  { induction (split p) as [|x l IH]; cbn [strip_prefix]; [reflexivity|]. rewrite str_eqb_refl. exact IH. }
  rewrite H. reflexivity.
Qed.
Lemma imported_names f a b c : import_decision f = OImported a b c ->
  exists acq n, detected f = Some acq /\ invalid_import_path acq = false /\ file_name (ipath f) acq = Some n /\
                invalid_import_path n = false /\ ipath f = acq ++ [47%N] ++ n.
Proof.
  intros E. destruct (imported_inv f a b c E) as (_ & _ & _ & _ & _ & _ & acq & I7 & I8 & I9).
  destruct (file_name (ipath f) acq) as [n|] eqn:En; [|discriminate]. exists acq, n. destruct (file_name_sound _ _ _ En). auto.
Qed.
Example file_name_examples :
  let s := map N.of_nat in
  file_name [50;48;50;52;47;114;47;97]%N [50;48;50;52]%N = Some [114;47;97]%N /\          (* "2024/r/a" under "2024" -> "r/a" *)
  file_name [50;48;50;52;47;114;47;97]%N [50;48;50;52;47;114;47;97]%N = None /\          (* the path itself: "." is no name *)
  file_name [50;48;50;52;47;114;47;97]%N [50;48;50]%N = None /\                          (* a string prefix is not a parent *)
  file_name [50;48;50;52;47;114;47;97]%N [111]%N = None.                                   (* a sibling *)
Proof. cbn. repeat split; reflexivity. Qed.

(* request vetting: absolute, non-canonical or out-of-tree paths never reach a task *)
Lemma vet_sound ab mk rc rs it p : vet_request ab mk rc rs it p = VImport -> ab = false /\ rc = false /\ invalid_import_path p = false.
Proof.
  unfold vet_request. destruct ab; [discriminate|]. destruct mk; [discriminate|]. destruct rc.
  - destruct (negb rs); [discriminate|]. destruct (negb it); discriminate.
  - destruct (invalid_import_path p); [discriminate|]. auto.
Qed.
Lemma vet_scan_sound ab mk rc rs it p : vet_request ab mk rc rs it p = VScan -> ab = false /\ rs = true /\ it = true.
Proof.
  unfold vet_request. destruct ab; [discriminate|]. destruct mk; [discriminate|]. destruct rc.
  - destruct rs; cbn; [|discriminate]. destruct it; cbn; [auto | discriminate].
  - destruct (invalid_import_path p); discriminate.
Qed.

(* ---- concurrency ---- *)
Definition copy_ok (r : option (has * wants)) : Prop := r = None \/ r = Some (HY, WY) \/ r = Some (HM, WY).
(* progress of a task towards PDone *)
Definition rank (p : pc) : nat := match p with P0 => 8 | P1 => 7 | P2 => 6 | P3 => 5 | P5 => 4 | P6 => 3 | P7 => 2 | P8 => 1 | PDone _ => 0 end.

(* what a task at pc p has established (a task that gave up as a duplicate has established nothing) *)
Definition obl (p : pc) : nat := match p with PDone true => 9 | _ => rank p end.
Definition fact (p : pc) (d : db) : Prop :=
  (obl p <= 5 -> d_acq d = true) /\ (obl p <= 3 -> d_file d = true) /\ (p = P8 \/ p = PDone false -> d_copy d <> None).
Definition CInv (s : cstate) : Prop := copy_ok (d_copy (c_db s)) /\ (forall p, In p (c_pcs s) -> fact p (c_db s)).

Lemma revive_ok r : Some r = Some (HY, WY) \/ Some r = Some (HM, WY) -> Some (revive r) = Some (HY, WY) \/ Some (revive r) = Some (HM, WY).
Proof. intros [H|H]; injection H as ->; cbn; auto. Qed.

Lemma in_set_nth {A} (l : list A) n x y : In y (set_nth n x l) -> y = x \/ In y l.
Proof. revert n; induction l as [|h t IH]; intros [|n]; cbn; intros H; try tauto; destruct H as [H|H]; auto. destruct (IH _ H); auto. Qed.

Ltac fin := cbn in *; repeat split; intros; repeat match goal with H : _ \/ _ |- _ => destruct H end; try discriminate; try lia; try congruence; auto.

Lemma step_inv d p : copy_ok (d_copy d) -> fact p d ->
  copy_ok (d_copy (fst (task_step d p))) /\ (d_acq d = true -> d_acq (fst (task_step d p)) = true) /\
  (d_file d = true -> d_file (fst (task_step d p)) = true) /\ (d_copy d <> None -> d_copy (fst (task_step d p)) <> None) /\
  fact (snd (task_step d p)) (fst (task_step d p)).
Proof.
  destruct d as [a f c]. unfold fact, copy_ok. cbn [d_acq d_file d_copy]. intros Hc (Ha & Hf & Hk).
  destruct p as [| | | | | | | |[|]]; cbn [task_step rank obl d_acq d_file d_copy] in *.
  all: try (destruct (tracked c)); try (destruct a); try (destruct f).
  all: try (fin; try (apply Ha; lia); try (apply Hf; lia); try (apply Hk; left; reflexivity); fail).
  all: destruct c as [r|]; cbn [fst snd d_acq d_file d_copy rank obl]; repeat split; intros; try discriminate; try lia; auto;
       try (apply Ha; lia); try (apply Hf; lia); try (apply Hk; left; reflexivity).
  all: try (right; destruct Hc as [H'|H']; [discriminate | apply revive_ok, H']).
  all: fin; try (apply Ha; lia); try (apply Hf; lia).
Qed.

Lemma cinv_step s t : CInv s -> CInv (cstep s t).
Proof.
  intros [Hc Hp]. unfold cstep. destruct (nth_error (c_pcs s) t) as [p|] eqn:En; [|split; assumption].
  pose proof (nth_error_In _ _ En) as Hin.
  destruct (step_inv (c_db s) p Hc (Hp p Hin)) as (S1 & S2 & S3 & S4 & S5).
  destruct (task_step (c_db s) p) as [d' p']. cbn [fst snd] in *. split; cbn [c_db c_pcs]; [exact S1|].
  intros q Hq. apply in_set_nth in Hq as [->|Hq]; [exact S5|].
  destruct (Hp q Hq) as (A & B & C). repeat split; auto.
Qed.

Lemma cinv_run n d0 sched : copy_ok (d_copy d0) -> CInv (crun n d0 sched).
Proof.
  intros H0. unfold crun.
  assert (G : forall s, CInv s -> CInv (fold_left cstep sched s)) by (induction sched as [|t sc IH]; intros s Hs; [exact Hs | apply IH, cinv_step, Hs]).
  apply G. split; [exact H0|]. cbn. intros p Hp. apply repeat_spec in Hp. subst p. unfold fact. cbn. repeat split; try lia; intros [?|?]; discriminate.
Qed.

(* every schedule of any number of import tasks for one path: the copy record (one row by the unique index) is absent,
   present+wanted or suspect+wanted — never anything else; a task that has reached the file step has an acquisition
   record behind it, and so on; once a task reports success a copy record exists *)
Lemma concurrent_once n d0 sched : copy_ok (d_copy d0) ->
  let s := crun n d0 sched in
  copy_ok (d_copy (c_db s)) /\
  ((exists p, In p (c_pcs s) /\ p = PDone false) -> d_acq (c_db s) = true /\ d_file (c_db s) = true /\ d_copy (c_db s) <> None).
Proof.
  intros H0 s. destruct (cinv_run n d0 sched H0) as [Hc Hp]. fold s in Hc, Hp. split; [exact Hc|].
  intros (p & Hin & ->). destruct (Hp _ Hin) as (A & B & C). repeat split; [apply A | apply B | apply C]; cbn; try lia. right; reflexivity.
Qed.

(* each step is a total function of the state (no unhandled IntegrityError), and a scheduled unfinished task always advances *)
Lemma task_progress d p : finished p = false -> rank (snd (task_step d p)) < rank p.
Proof. destruct p; cbn; try discriminate; intros _; repeat match goal with |- context [if ?c then _ else _] => destruct c | |- context [match ?o with Some _ => _ | None => _ end] => destruct o end; cbn; lia. Qed.

Definition ex_sched : list nat := [0;1;0;1;0;1;0;1;0;1;0;1;0;1;0;1;0;1].
Lemma example_two_importers :
  let s := crun 2 {| d_acq := false; d_file := false; d_copy := None |} ex_sched in
  c_pcs s = [PDone false; PDone true] /\ d_copy (c_db s) = Some (HY, WY).
Proof. vm_compute. split; reflexivity. Qed.
