From Coq Require Import List NArith ZArith Bool Arith Lia Sorting.Permutation.
From Alp Require Import Base.Str Base.Types Model.Transport.
Import ListNotations.

Lemma insert_perm n l : Permutation (n :: l) (insert n l).
Proof.
  induction l as [|m l IH]; cbn [insert]; [apply Permutation_refl|].
  destruct (key n <? key m)%Z; [apply Permutation_refl|].
  eapply Permutation_trans; [apply perm_swap|]. apply perm_skip, IH.
Qed.
Lemma sort_perm l : Permutation l (sort l).
Proof.
  unfold sort. eapply Permutation_trans; [apply Permutation_rev|]. generalize (rev l). clear l.
  induction l as [|n l IH]; cbn [fold_right]; [apply Permutation_refl|].
  eapply Permutation_trans; [apply perm_skip, IH | apply insert_perm].
Qed.
Inductive sorted : list tnode -> Prop :=
| sorted_nil : sorted []
| sorted_cons n l : (forall m, In m l -> (key n <= key m)%Z) -> sorted l -> sorted (n :: l).
Lemma insert_sorted n l : sorted l -> sorted (insert n l).
Proof.
  induction 1 as [|m l Hm Hs IH]; cbn [insert]; [constructor; [intros ? []|constructor]|].
  destruct (key n <? key m)%Z eqn:E.
  - apply Z.ltb_lt in E. constructor; [|constructor; assumption]. intros x [<-|Hx]; [lia | specialize (Hm x Hx); lia].
  - apply Z.ltb_ge in E. constructor; [|exact IH]. intros x Hx.
    apply (Permutation_in _ (Permutation_sym (insert_perm n l))) in Hx. destruct Hx as [<-|Hx]; [exact E | apply Hm, Hx].
Qed.
Lemma sort_sorted l : sorted (sort l).
Proof. unfold sort. generalize (rev l). clear l. induction l as [|n l IH]; cbn [fold_right]; [constructor | apply insert_sorted, IH]. Qed.

Lemma find_sorted_least l n : sorted l -> find eligible l = Some n -> forall m, In m l -> eligible m = true -> (key n <= key m)%Z.
Proof.
  induction 1 as [|x l Hx Hs IH]; cbn [find]; [discriminate|].
  destruct (eligible x) eqn:E.
  - intros H; injection H as <-. intros m [<-|Hm] _; [lia | apply Hx, Hm].
  - intros H m [<-|Hm] Em; [congruence | apply IH; assumption].
Qed.

(* a node is chosen iff the source is local and some node is eligible; the chosen one is eligible, belongs to the group and no
   eligible node has less free space: the fullest node that can take the file *)
Lemma choose_some local nodes i : choose local nodes = Some i ->
  local = true /\ exists n, In n nodes /\ t_id n = i /\ eligible n = true /\ forall m, In m nodes -> eligible m = true -> (key n <= key m)%Z.
Proof.
  unfold choose. destruct local; [|discriminate]. destruct (find eligible (sort nodes)) as [n|] eqn:E; [|discriminate].
  intros H; injection H as <-. split; [reflexivity|]. exists n. destruct (find_some _ _ E) as [Hin He].
  split; [apply (Permutation_in _ (Permutation_sym (sort_perm nodes))), Hin|]. split; [reflexivity|]. split; [exact He|].
  intros m Hm Em. apply (find_sorted_least (sort nodes)); auto; [apply sort_sorted | apply (Permutation_in _ (sort_perm nodes)), Hm].
Qed.
Lemma choose_none local nodes : choose local nodes = None <-> local = false \/ forall n, In n nodes -> eligible n = false.
Proof.
  unfold choose. destruct local; [|split; auto]. destruct (find eligible (sort nodes)) as [n|] eqn:E.
  - split; [discriminate|]. intros [H|H]; [discriminate|]. destruct (find_some _ _ E) as [Hin He].
    apply (Permutation_in _ (Permutation_sym (sort_perm nodes))) in Hin. rewrite (H n Hin) in He. discriminate.
  - split; [|reflexivity]. intros _. right. intros n Hn. apply (Permutation_in _ (sort_perm nodes)) in Hn.
    exact (find_none _ _ E n Hn).
Qed.
Definition ex_tnodes : list tnode :=
  [ {| t_id := 1; t_avail := Some 10%Z; t_under_min := true; t_over_max := false; t_fits := true |};
    {| t_id := 2; t_avail := Some 50%Z; t_under_min := false; t_over_max := false; t_fits := true |};
    {| t_id := 3; t_avail := Some 20%Z; t_under_min := false; t_over_max := false; t_fits := true |} ].
Lemma example_transport : choose true ex_tnodes = Some 3%N /\ choose false ex_tnodes = None.
Proof. vm_compute. split; reflexivity. Qed.
