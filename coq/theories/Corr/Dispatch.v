(* Correspondence for the group pass (C01 / C05): the requests of one pass in the order the implementation read them, the ids it
   handed to update_pull and the ids update_pull dispatched *)
From Coq Require Import List NArith Bool.
From Alp Require Import Model.Dispatch.
Import ListNotations.
Fixpoint nl_eqb (a b : list N) : bool :=
  match a, b with [] , [] => true | x :: a', y :: b' => N.eqb x y && nl_eqb a' b' | _, _ => false end.
Definition PR (i f : N) (ok : bool) : preq := {| r_id := i; r_file := f; r_ok := ok |}.
Definition dcase := (list preq * (list N * list N))%type.
Definition dcheck (c : dcase) : bool :=
  let '(reqs, (cs, disp)) := c in nl_eqb cs (considered reqs) && nl_eqb disp (dispatched reqs).
