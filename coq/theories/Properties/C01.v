(* C01 — Deletion safety: never remove a copy without two other archive copies. *)
From Coq Require Import List NArith Bool Arith.
From Alp Require Import Base.Str Base.Types Model.Delete Proofs.DeleteProofs Model.Select Proofs.SelectProofs Model.Dispatch Proofs.DispatchProofs.
Import ListNotations.
Local Open Scope nat_scope.

(* The count test passing means: at least two healthy copies of the file on archive nodes OTHER than the node being
   cleaned are on record (for archive, field and transport nodes, whatever the state of the copy itself), given the
   unique (file, node) index. *)
Theorem C01_kernel : forall is_archive cs c, uniq cs ->
  too_few (archive_count is_archive cs (d_file c)) (copies_required (is_archive (d_node c))) = false -> 2 <= others is_archive cs c.
Proof. exact kernel_safe. Qed.
Print Assumptions C01_kernel.

(* The delete task, for every batch of copies of one node, every index, every pattern of failing unlinks: each unlink
   it issues happens at a moment when the index (as updated by the task's own earlier deletions) records at least two
   other healthy archive copies; the (file, node) uniqueness is preserved. *)
Theorem C01_task_safe : forall is_archive oserr batch cs node, uniq cs -> (forall c, In c batch -> d_node c = node) ->
  Forall (fun e => 2 <= others is_archive (e_idx e) (e_copy e)) (snd (delete_async is_archive oserr batch cs)) /\
  uniq (fst (delete_async is_archive oserr batch cs)).
Proof. exact task_safe. Qed.
Print Assumptions C01_task_safe.
(* only copies handed to the task are unlinked, at most once each; every other row of the index is untouched *)
Theorem C01_only_the_batch : forall is_archive oserr required batch cs,
  exists sub, map e_copy (snd (delete_loop is_archive oserr required batch cs)) = sub /\
    (forall c, In c sub -> In c batch) /\ length sub <= length batch.
Proof. exact effects_from_batch. Qed.
Print Assumptions C01_only_the_batch.
Theorem C01_index_frame : forall is_archive oserr required batch cs c,
  ~ In (d_id c) (map d_id batch) -> In c cs -> In c (fst (delete_loop is_archive oserr required batch cs)).
Proof. exact index_frame. Qed.
Print Assumptions C01_index_frame.

(* What is handed to the task (update_delete's selection, C15 model): only unwanted, tracked copies that are not
   the source of a pending request; merely removable ones only under space pressure on non-archive nodes. *)
Theorem C01_selected_unwanted : forall archive avail min cs c,
  In c (selection archive avail min cs) -> k_wants c <> WY /\ k_has c <> HN /\ k_pending c = false.
Proof. exact selection_only_eligible. Qed.
Print Assumptions C01_selected_unwanted.
Theorem C01_removable_only_under_pressure : forall archive (avail : option BinNums.Z) (min : BinNums.Z) cs,
  archive = true \/ avail = None \/ (exists a, avail = Some a /\ BinInt.Z.le min a) ->
  Forall (fun c => k_wants c = WN) (selection archive avail min cs).
Proof. exact selection_no_pressure_cases. Qed.
Print Assumptions C01_removable_only_under_pressure.

(* The statement for tasks that overlap is false (known finding KF-C01-1): two delete tasks on two archive nodes, the
   second running between the first one's count and unlink: that unlink happens with ONE other healthy archive copy on
   record, and one archive copy survives. *)
Theorem C01_interleaved_refuted :
  uniq kf_copies /\ exists e, In e (m_effs kf_final) /\ others kf_arch (e_idx e) (e_copy e) = 1 /\ archive_count kf_arch (m_cs kf_final) 9 = 1.
Proof. exact interleaved_refuted. Qed.
Print Assumptions C01_interleaved_refuted.

Example C01_example : map (fun e => d_id (e_copy e)) (snd (delete_async kf_arch (fun _ => false) ex_batch ex_index)) = [1%N]
  /\ map d_has (fst (delete_async kf_arch (fun _ => false) ex_batch ex_index)) = [HN; HY; HY; HY; HY].
Proof. exact example_delete. Qed.

(* "No other daemon action deletes or overwrites a copy that the index records as healthy": two pulls of one file into one group
   would write to one path, and the one that fails unlinks what the other has delivered.  One pass of a group's update hands out at
   most one pull per file, whatever the requests and whatever update_pull answers; and only requests that were pending in that pass,
   that update_pull accepted, and whose file had no pull yet. *)
Theorem C01_one_pull_per_file_per_pass : forall seen reqs, NoDup (map r_file (snd (pass seen reqs))).
Proof. exact pass_one_per_file. Qed.
Print Assumptions C01_one_pull_per_file_per_pass.
Theorem C01_dispatched_were_dispatchable : forall seen reqs r, In r (snd (pass seen reqs)) -> In r reqs /\ r_ok r = true /\ ~ In (r_file r) seen.
Proof. exact pass_dispatched. Qed.
Print Assumptions C01_dispatched_were_dispatchable.
Example C01_example_pass : considered ex_reqs = [1; 2; 4]%N /\ dispatched ex_reqs = [2; 4]%N.
Proof. exact example_pass. Qed.
