(* C06 proofs: invalid_import_path rejects exactly the non-canonical strings; valid names are their
   own normal form and resolve strictly below any root. *)
From Coq Require Import List Arith NArith Bool Lia Btauto.
From Alp Require Import Base.Str Model.Path.
Import ListNotations.
Open Scope N_scope.
Local Arguments N.eqb : simpl never.

Lemma eqb47 c : N.eqb 47 c = match classify c with CSlash => true | _ => false end.
Proof. unfold classify. rewrite (N.eqb_sym 47 c). destruct (N.eqb c 47); [reflexivity|]. destruct (N.eqb c 46); reflexivity. Qed.
Lemma eqbc47 c : N.eqb c 47 = match classify c with CSlash => true | _ => false end.
Proof. rewrite N.eqb_sym. apply eqb47. Qed.
Lemma eqb46 c : N.eqb 46 c = match classify c with CDot => true | _ => false end.
Proof.
  unfold classify. rewrite (N.eqb_sym 46 c). destruct (N.eqb_spec c 47) as [->|]; [reflexivity|].
  destruct (N.eqb c 46); reflexivity.
Qed.
Lemma eqbc46 c : N.eqb c 46 = match classify c with CDot => true | _ => false end.
Proof. rewrite N.eqb_sym. apply eqb46. Qed.

Inductive st := SC | D1 | D2 | IN.
Fixpoint scan (q : st) (s : str) : bool :=
  match s with
  | [] => match q with IN => false | _ => true end
  | c :: s' =>
      match classify c with
      | CSlash => match q with IN => scan SC s' | _ => true end
      | CDot => match q with SC => scan D1 s' | D1 => scan D2 s' | D2 => scan IN s' | IN => scan IN s' end
      | COther => scan IN s'
      end
  end.

Definition start_bad (s : str) : bool :=
  str_eqb s [] || (str_eqb s [46] || str_eqb s [46;46]) || (prefixb [47] s || prefixb [46;47] s || prefixb [46;46;47] s).
Definition tail_bad (s : str) : bool :=
  (suffixb [47] s || suffixb [47;46] s || suffixb [47;46;46] s) || infixb [47;47] s || infixb [47;46;47] s || infixb [47;46;46;47] s.
Definition d1_bad (s : str) := str_eqb s [] || prefixb [47] s || str_eqb s [46] || prefixb [46;47] s.
Definition d2_bad (s : str) := str_eqb s [] || prefixb [47] s.

Ltac norm := cbn [str_eqb prefixb infixb suffixb]; rewrite ?eqb47, ?eqb46, ?eqbc47, ?eqbc46.
Ltac cases_on s :=
  let c := fresh "c" in destruct s as [|c s]; norm; [| destruct (classify c) eqn:?; cbn [andb orb]].
Ltac fin := cbn [andb orb]; rewrite ?orb_true_r, ?orb_false_r, ?andb_false_r, ?andb_true_r; try reflexivity; try btauto.

Lemma tail_bad_cons c s :
  tail_bad (c :: s) = (match classify c with CSlash => start_bad s | _ => false end) || tail_bad s.
Proof. unfold tail_bad, start_bad. norm. destruct (classify c) eqn:Hc; fin. Qed.

Lemma scan_spec s :
  scan IN s = tail_bad s /\
  scan SC s = start_bad s || tail_bad s /\
  scan D1 s = d1_bad s || tail_bad s /\
  scan D2 s = d2_bad s || tail_bad s.
Proof.
  induction s as [|c s (HIN & HSC & HD1 & HD2)].
  - cbn. repeat split; reflexivity.
  - rewrite tail_bad_cons. cbn [scan]. unfold start_bad, d1_bad, d2_bad in *. norm.
    destruct (classify c) eqn:Hc; cbn [andb orb];
      rewrite ?HIN, ?HSC, ?HD1, ?HD2; repeat split; fin.
    all: do 3 (try (cases_on s; fin)).
Qed.

Lemma invalid_is_scan s : invalid_import_path s = scan SC s.
Proof. destruct (scan_spec s) as (_ & -> & _). unfold invalid_import_path, start_bad, tail_bad. fin. Qed.

Definition st_of (cur : str) : st :=
  match cur with
  | [] => SC
  | [a] => match classify a with CDot => D1 | _ => IN end
  | [a; b] => match classify a, classify b with CDot, CDot => D2 | _, _ => IN end
  | _ => IN
  end.

Lemma bad_comp_rev cur : bad_comp (rev cur) = match st_of cur with IN => false | _ => true end.
Proof.
  unfold bad_comp.
  destruct cur as [|a [|b [|c cur]]]; cbn [rev app st_of]; norm.
  - reflexivity.
  - destruct (classify a); reflexivity.
  - destruct (classify b) eqn:Hb, (classify a) eqn:Ha; reflexivity.
  - assert (H : forall t : str, (length t <= 2)%nat -> str_eqb (((rev cur ++ [c]) ++ [b]) ++ [a]) t = false).
    { intros t Ht. destruct (str_eqb _ t) eqn:E; [|reflexivity].
      apply str_eqb_eq in E. subst t. rewrite !app_length in Ht. cbn in Ht. lia. }
    rewrite !H by (cbn; lia). reflexivity.
Qed.

Lemma split_scan cur s :
  (forall x, In x cur -> classify x <> CSlash) ->
  existsb bad_comp (split_aux cur s) = scan (st_of cur) s.
Proof.
  revert cur; induction s as [|c s IH]; intros cur Hcur.
  - cbn [split_aux existsb scan]. rewrite bad_comp_rev, orb_false_r. destruct (st_of cur); reflexivity.
  - cbn [split_aux scan]. destruct (classify c) eqn:Hc.
    + cbn [existsb]. rewrite bad_comp_rev, (IH []) by (intros ? []).
      cbn [st_of]. destruct (st_of cur); reflexivity.
    + rewrite IH by (intros x [<-|Hx]; [congruence | auto]).
      destruct cur as [|a [|b [|d cur]]]; cbn [st_of]; rewrite ?Hc; try reflexivity.
      all: try (destruct (classify a); reflexivity).
      all: try (destruct (classify a), (classify b); reflexivity).
    + rewrite IH by (intros x [<-|Hx]; [congruence | auto]).
      destruct cur as [|a [|b [|d cur]]]; cbn [st_of]; rewrite ?Hc; try reflexivity.
      all: try (destruct (classify a); reflexivity).
      all: try (destruct (classify a), (classify b); reflexivity).
Qed.

Lemma invalid_iff_not_canonical s : invalid_import_path s = negb (canonical s).
Proof.
  unfold canonical, split. rewrite negb_involutive, invalid_is_scan, split_scan by (intros ? []). reflexivity.
Qed.

(* ---- join / split ---- *)
Lemma classify_slash c : classify c = CSlash -> c = 47.
Proof. unfold classify. destruct (N.eqb_spec c 47); [auto|]. destruct (N.eqb c 46); discriminate. Qed.

Lemma split_aux_nonempty cur s : split_aux cur s <> [].
Proof. revert cur; induction s as [|c s IH]; intros cur; cbn; [discriminate|]. destruct (classify c); [discriminate | apply IH | apply IH]. Qed.

Lemma join_cons c l : l <> [] -> join (c :: l) = c ++ [47] ++ join l.
Proof. destruct l; [congruence | reflexivity]. Qed.

Lemma join_split_aux cur s : join (split_aux cur s) = rev cur ++ s.
Proof.
  revert cur; induction s as [|c s IH]; intros cur.
  - cbn. rewrite app_nil_r; reflexivity.
  - cbn [split_aux]. destruct (classify c) eqn:Hc.
    + rewrite join_cons by apply split_aux_nonempty. rewrite IH. cbn. apply classify_slash in Hc; subst; reflexivity.
    + rewrite IH. cbn [rev]. rewrite <- app_assoc; reflexivity.
    + rewrite IH. cbn [rev]. rewrite <- app_assoc; reflexivity.
Qed.
Lemma join_split s : join (split s) = s.
Proof. apply join_split_aux. Qed.

(* ---- normalisation ---- *)
Definition good_comps (l : list str) : Prop := existsb bad_comp l = false.

Lemma norm_aux_good stack l : good_comps l -> norm_aux stack l = rev stack ++ l.
Proof.
  revert stack; induction l as [|c l IH]; intros stack H.
  - cbn. rewrite app_nil_r; reflexivity.
  - unfold good_comps in H. cbn [existsb] in H. apply orb_false_iff in H as [Hc Hl].
    unfold bad_comp in Hc. apply orb_false_iff in Hc as [Hc H2]. apply orb_false_iff in Hc as [H0 H1].
    cbn [norm_aux]. rewrite H0, H1, H2. cbn [orb]. rewrite IH by exact Hl. cbn [rev]. rewrite <- app_assoc; reflexivity.
Qed.

Lemma norm_aux_app stack a b : norm_aux stack (a ++ b) = norm_aux (rev (norm_aux stack a)) b.
Proof.
  revert stack; induction a as [|c a IH]; intros stack.
  - cbn. rewrite rev_involutive; reflexivity.
  - cbn [app norm_aux]. destruct (str_eqb c [] || str_eqb c [46]); [apply IH|].
    destruct (str_eqb c [46;46]); apply IH.
Qed.

Lemma canonical_good s : canonical s = true -> good_comps (split s).
Proof. unfold canonical, good_comps. intros H. apply negb_true_iff in H; exact H. Qed.

Lemma valid_normpath_id s : invalid_import_path s = false -> normpath_rel s = s.
Proof.
  intros H. rewrite invalid_iff_not_canonical in H. apply negb_false_iff in H.
  unfold normpath_rel, norm_comps. rewrite norm_aux_good by (apply canonical_good; exact H).
  cbn. apply join_split.
Qed.

Lemma is_prefix_app a b : is_prefix a (a ++ b) = true.
Proof. induction a as [|x a IH]; cbn; [reflexivity|]. rewrite str_eqb_refl, IH; reflexivity. Qed.

Lemma strictly_under_app a b : b <> [] -> strictly_under a (a ++ b) = true.
Proof.
  intros Hb. unfold strictly_under. rewrite is_prefix_app. cbn. apply negb_true_iff, Nat.eqb_neq.
  rewrite app_length. destruct b; [congruence|]. cbn; lia.
Qed.

Lemma valid_under_root rootc s :
  invalid_import_path s = false ->
  norm_comps (rootc ++ split s) = norm_comps rootc ++ split s /\
  strictly_under (norm_comps rootc) (norm_comps (rootc ++ split s)) = true.
Proof.
  intros H. rewrite invalid_iff_not_canonical in H. apply negb_false_iff in H.
  assert (E : norm_comps (rootc ++ split s) = norm_comps rootc ++ split s).
  { unfold norm_comps. rewrite norm_aux_app, norm_aux_good by (apply canonical_good; exact H).
    rewrite rev_involutive; reflexivity. }
  split; [exact E|]. rewrite E. apply strictly_under_app. apply split_aux_nonempty.
Qed.

(* ---- remove_filedir (repaired stop test: compare paths) ---- *)
Lemma rmdir_targets_under rootc relrev t :
  In t (rmdir_targets rootc relrev) -> strictly_under rootc t = true.
Proof.
  induction relrev as [|c up IH]; cbn [rmdir_targets]; [intros []|].
  intros [<-|Hin]; [|exact (IH Hin)].
  apply strictly_under_app. cbn [rev]. destruct (rev up); discriminate.
Qed.

Lemma rmdir_targets_never_root rootc relrev : ~ In rootc (rmdir_targets rootc relrev).
Proof.
  intros H. apply rmdir_targets_under in H. unfold strictly_under in H.
  rewrite Nat.eqb_refl in H. rewrite andb_false_r in H. discriminate.
Qed.
