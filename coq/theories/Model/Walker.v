(* C19: daemon/querywalker.py QueryWalker.get over the ascending list of live (matching) ids. *)
From Coq Require Import List NArith ZArith Bool Arith.
Import ListNotations.
Open Scope N_scope.

Definition ge (cur : N) (l : list N) : list N := filter (fun i => cur <=? i) l.
Definition lt (cur : N) (l : list N) : list N := filter (fun i => i <? cur) l.
(* one full turn of the cycle starting at the cursor *)
Definition turn (cur : N) (l : list N) : list N := ge cur l ++ lt cur l.

(* the while-loop: each pass appends the first [need] rows from the beginning; fuel = initial need
   suffices because a pass over a non-empty table yields at least one row *)
Fixpoint wrap (fuel need : nat) (l : list N) : list N :=
  match fuel with
  | O => []
  | S f => match need with
           | O => []
           | _ => let more := firstn need l in more ++ wrap f (need - length more) l
           end
  end.

(* None = peewee.DoesNotExist.  The first query alone may be empty; the loop raises iff the table is. *)
Definition get (l : list N) (cur : N) (n : nat) : option (list N * N) :=
  let first := firstn n (ge cur l) in
  match l with
  | [] => None
  | _ => let items := first ++ wrap (n - length first) (n - length first) l in
         Some (items, 1 + last items 0)
  end.

(* how many rows the walk passes before it reaches x *)
Fixpoint index_of (x : N) (l : list N) : nat :=
  match l with [] => O | y :: l' => if N.eqb x y then O else S (index_of x l') end.
Definition pos (cur x : N) (l : list N) : nat := index_of x (turn cur l).

Fixpoint mem (x : N) (l : list N) : bool := match l with [] => false | y :: l' => N.eqb x y || mem x l' end.

(* a run: one table per call (the table may change between calls) *)
Fixpoint selected_within (k : nat) (x cur : N) (tables : list (list N)) : bool :=
  match tables with
  | [] => false
  | l :: rest => match get l cur k with
                 | None => false
                 | Some (items, cur') => if mem x items then true else selected_within k x cur' rest
                 end
  end.
(* rows that entered the stretch between the cursor and x while the run was going on *)
Fixpoint ins_total (k : nat) (x cur : N) (tables : list (list N)) : nat :=
  match tables with
  | l :: ((l' :: _) as rest) =>
      match get l cur k with
      | Some (_, cur') => (pos cur' x l' - pos cur' x l) + ins_total k x cur' rest
      | None => O
      end
  | _ => O
  end.

(* age filter of run_auto_verify: re-queue iff age_days > min_days, ages in seconds (repaired: UTC) *)
Definition too_new (now_s upd_s : Z) (min_days : Z) : bool := (now_s - upd_s <=? min_days * 86400)%Z.
