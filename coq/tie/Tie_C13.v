(* T1 for C13: guards of _UpDownLock.acquire/release translated from /repo today *)
From Coq Require Import List NArith ZArith Bool Lia ZifyBool.
From Alp Require Import Base.Str Base.Types Model.UpDown.
From Run Require Gen_updown.
Open Scope Z_scope.
Lemma tie_ok_down c : Gen_updown.g_ok_down c = ok_down c. Proof. reflexivity. Qed.
Lemma tie_ok_up c : Gen_updown.g_ok_up c = ok_up c. Proof. reflexivity. Qed.
Lemma tie_holds_other o : Gen_updown.g_holds_other o = holds_other o. Proof. reflexivity. Qed.
Lemma tie_out_of_time r : Gen_updown.g_out_of_time r = out_of_time r. Proof. reflexivity. Qed.
Lemma tie_remaining e m : Gen_updown.g_remaining e m = e - m. Proof. reflexivity. Qed.
Lemma tie_held_down c : Gen_updown.g_held_down c = held_down c. Proof. reflexivity. Qed.
Lemma tie_held_up c : Gen_updown.g_held_up c = held_up c. Proof. reflexivity. Qed.
Lemma tie_not_owner o : Gen_updown.g_not_owner o = not_owner o. Proof. reflexivity. Qed.
Lemma tie_now_free c : Gen_updown.g_now_free c = now_free c. Proof. reflexivity. Qed.
Lemma tie_not_blocking b : Gen_updown.g_not_blocking b = negb b. Proof. reflexivity. Qed.
Lemma tie_forever t : Gen_updown.g_forever t = (t <? 0). Proof. reflexivity. Qed.
