(* C12 — Exclusive tasks, fair FIFO choice, deferral timing and the Task contract. *)
From Coq Require Import List NArith ZArith Bool Arith Permutation.
From Alp Require Import Model.Queue Proofs.QueueProofs Model.Task Proofs.TaskProofs.
Import ListNotations.

(* while an exclusive item of FIFO k runs, it is k's only running item and k is locked ... *)
Theorem C12_exclusive_alone : forall ops k it, let '(s, g) := gexec ops in
  In (k, it) (g_running g) -> q_excl it = true -> sel k (g_running g) = [it] /\ mem k (locks s) = true.
Proof. exact exclusive_alone. Qed.
Print Assumptions C12_exclusive_alone.
(* ... nothing is handed out from a locked FIFO, and an exclusive item is handed out only when nothing of k runs *)
Theorem C12_locked_fifo_not_served : forall s k s' it, get_commit k s = Some (s', it) -> mem k (locks s) = false.
Proof. exact locked_fifo_not_served. Qed.
Print Assumptions C12_locked_fifo_not_served.
Theorem C12_exclusive_starts_alone : forall s k s' it, get_commit k s = Some (s', it) -> q_excl it = true -> cnt (kget k s) = 0.
Proof. exact exclusive_starts_alone. Qed.
Print Assumptions C12_exclusive_starts_alone.

(* among eligible FIFOs the next task comes from one with the fewest running tasks *)
Theorem C12_fair : forall s k s' it, get_commit k s = Some (s', it) ->
  forall k' v', lookup k' (ks s) = Some v' -> eligible s (k', v') = true -> cnt (kget k s) <= cnt v'.
Proof. exact fair_choice. Qed.
Print Assumptions C12_fair.

(* a deferred item enters its FIFO only once its expiry (put time + delay) has passed, and stays deferred until then;
   that it is then started exactly once is C11_conservation / C11_exactly_once *)
Theorem C12_deferral_expiry : forall now w it k s, joining s = false ->
  put_deferred now w it k s = ({| ks := ks s; locks := locks s; total_q := total_q s; total_ip := total_ip s;
                                   dfr := ((now + w)%Z, it, k) :: dfr s; joining := joining s |}, true).
Proof. exact deferred_expiry. Qed.
Print Assumptions C12_deferral_expiry.
Theorem C12_not_before_expiry : forall now s e it k, In (e, it, k) (due now s) -> (e <= now)%Z /\ In (e, it, k) (dfr s).
Proof. exact promoted_only_after_expiry. Qed.
Print Assumptions C12_not_before_expiry.
Theorem C12_stays_deferred : forall now s e it k, In (e, it, k) (dfr s) -> (now < e)%Z -> In (e, it, k) (dfr (promote now s)).
Proof. exact not_yet_expired_stays. Qed.
Print Assumptions C12_stays_deferred.

(* a task that yields is re-queued in the same FIFO with the same exclusivity *)
Theorem C12_requeue_same : forall t e, In e (snd (call t)) -> forall k x w, e = Requeue k x w -> k = t_key t /\ x = t_excl t.
Proof. exact requeue_always_same. Qed.
Print Assumptions C12_requeue_same.
(* a task's clean-up actions run exactly once, after its final step: driving any well-formed body gives one
   re-queue per yield (no clean-up there) and a last invocation running a permutation of all registrations *)
Theorem C12_cleanup_once_after_final : forall ys acts key excl dq fuel,
  forallb is_yield ys = true -> length ys < fuel ->
  exists final,
    drive fuel {| t_key := key; t_excl := excl; t_body := ys ++ [(acts, Stop)]; t_cleanup := dq |} =
      map (fun s => [Requeue key excl (match snd s with Yield (Some z) => z | _ => 0%Z end)]) ys ++ [map RanCleanup final] /\
    Permutation final (dq ++ map reg_id (all_acts (ys ++ [(acts, Stop)]))).
Proof. exact drive_wf. Qed.
Print Assumptions C12_cleanup_once_after_final.

Example C12_example : drive 5 ex_task =
  [[Requeue 3 true 0]; [Requeue 3 true 5]; [RanCleanup 11; RanCleanup 10; RanCleanup 12]].
Proof. exact example_drive. Qed.
