(* C19 — Auto-verification walks the node's copies in a cycle, without starvation. *)
From Coq Require Import List NArith ZArith Bool Arith Sorted.
From Alp Require Import Model.Walker Proofs.WalkerProofs.
Import ListNotations.
Open Scope N_scope.

(* Each call yields exactly the requested number of rows; DoesNotExist iff the table is empty. *)
Theorem C19_get_count : forall l cur n items cur', get l cur n = Some (items, cur') -> length items = n.
Proof. exact get_length. Qed.
Print Assumptions C19_get_count.
Theorem C19_get_none_iff_empty : forall l cur n, get l cur n = None <-> l = [].
Proof. exact get_none. Qed.
Print Assumptions C19_get_none_iff_empty.

(* ... continuing where the previous one stopped and wrapping around: for n up to the table size the rows
   are the first n of the cyclic order starting at the cursor (ids >= cursor ascending, then the others
   ascending); for larger n the whole cycle comes first; the new cursor is just after the last row. *)
Theorem C19_get_cyclic : forall l cur n items cur', sorted l -> (n <= length l)%nat ->
  get l cur n = Some (items, cur') -> items = firstn n (turn cur l).
Proof. exact get_small. Qed.
Print Assumptions C19_get_cyclic.
Theorem C19_get_cyclic_big : forall l cur n items cur', sorted l -> (length l < n)%nat ->
  get l cur n = Some (items, cur') -> exists more, items = turn cur l ++ more.
Proof. exact get_big. Qed.
Print Assumptions C19_get_cyclic_big.
Theorem C19_cursor_advances : forall l cur n items cur', get l cur n = Some (items, cur') -> cur' = 1 + last items 0.
Proof. exact get_cursor. Qed.
Print Assumptions C19_cursor_advances.

(* Coverage, any table sizes, batch sizes (also k > N), start points, and ANY change of the table
   between calls that keeps x: if m rows lie between the cursor and x at the start and a rows enter that
   stretch during the run, x is returned within floor((m + a)/k) + 1 calls. *)
Theorem C19_coverage : forall k x tables cur,
  (1 <= k)%nat -> tables <> [] -> Forall (table_ok x) tables ->
  (pos cur x (hd [] tables) + ins_total k x cur tables < length tables * k)%nat ->
  selected_within k x cur tables = true.
Proof. exact coverage_bound. Qed.
Print Assumptions C19_coverage.

(* Corollary: while other rows are only removed (or nothing changes), ceil(N/k) calls suffice
   (N = table size at the start) — within the property's ceil(N/k)+1. *)
Theorem C19_coverage_under_removals : forall k x tables cur l0,
  (1 <= k)%nat -> hd [] tables = l0 -> removal_chain x tables -> Forall (table_ok x) tables ->
  (length l0 <= length tables * k)%nat ->
  selected_within k x cur tables = true.
Proof. exact coverage_removals. Qed.
Print Assumptions C19_coverage_under_removals.

(* The unrestricted reading ("even as other records are added") is false of the walker: k rows entering
   ahead of the cursor per call starve x with the table size constant (known finding KF-C19).
   N = 6, k = 2, bound ceil(N/k)+1 = 4; x = 1 is not returned in 6 calls. *)
Theorem C19_starvation_refuted :
  exists k x cur tables, Forall (table_ok x) tables /\ Forall (fun l => length l = 6%nat) tables /\
    length tables = 6%nat /\ selected_within k x cur tables = false.
Proof. exact starvation_witness. Qed.
Print Assumptions C19_starvation_refuted.

(* Age filter: a copy is re-queued iff it is strictly older than the minimum age (seconds, UTC). *)
Theorem C19_age_filter : forall now upd d, too_new now upd d = false <-> (d * 86400 < now - upd)%Z.
Proof. exact too_new_spec. Qed.
Print Assumptions C19_age_filter.

(* non-vacuity of the coverage hypotheses: a 3-call run over a changing table *)
Example C19_example : selected_within 2 5 4 [[1;4;5;9]; [1;5;9]; [1;5;9;12]] = true
  /\ Forall (table_ok 5) [[1;4;5;9]; [1;5;9]; [1;5;9;12]].
Proof. exact coverage_example. Qed.

(* ---- which passes of the main loop are "idle iterations" (Model/Gate.v) ---- *)
From Alp Require Model.Gate Proofs.GateProofs.
(* auto-verification runs in a pass exactly when the node's FIFO was empty as the pass started, the I/O class did not cancel the update,
   the node is idle after the update, and auto-verify is switched on *)
Theorem C19_gate : forall p, Gate.verifies p = true <->
  Gate.p_idle_at_start p = true /\ Gate.p_do_update p = true /\ Gate.p_idle_after p = true /\ (0 < Gate.p_auto_verify p)%Z.
Proof. intros p; split; [apply GateProofs.gate_sound | intros [A [B [C D]]]; apply GateProofs.gate_complete; assumption]. Qed.
Print Assumptions C19_gate.
(* passes that do not verify select nothing and leave the cursor alone: over any sequence of passes the batches and the final cursor are
   those of the walk over the verifying passes alone --- "successive idle iterations continue where the previous one stopped" *)
Theorem C19_skipped_passes_are_invisible : forall cur ps,
  snd (Gate.passes cur ps) = snd (Gate.passes cur (filter Gate.verifies ps)) /\
  filter (fun b => match b with Some _ => true | None => false end) (fst (Gate.passes cur ps)) = fst (Gate.passes cur (filter Gate.verifies ps)).
Proof. exact GateProofs.passes_filter. Qed.
Print Assumptions C19_skipped_passes_are_invisible.
