import os, sys, pathlib, tempfile, hashlib, logging
os.environ["PYTHONHASHSEED"]="0"
sys.path.insert(0, "/repo")
import peewee as pw
from alpenhorn.common import config, extensions
from alpenhorn import db
from alpenhorn.db import *
import alpenhorn.common.logger as alog
logging.basicConfig(level=logging.WARNING)

tmp = pathlib.Path(tempfile.mkdtemp(prefix="alp_", dir="/root/probe"))
config.config = config._default_config.copy()
config.config = config.merge_dict_tree(config.config, {"base": {"hostname": "h1"}, "daemon": {"num_workers": 0}})
print(config.config)
sdb = pw.SqliteDatabase(":memory:")
extensions._db_ext = {"name": "verif", "database": {"connect": lambda config: sdb, "reentrant": False}}
def detect(path, node):
    if len(path.parts) < 2: return None, None
    return path.parts[0], None
extensions._id_ext = [detect]
db.connect()
db.database_proxy.create_tables(db.gamut)
DataIndexVersion.create(component="alpenhorn", version=db.current_version)
g1 = StorageGroup.create(name="g1"); g2 = StorageGroup.create(name="g2")
(tmp/"n1").mkdir(); (tmp/"n2").mkdir()
n1 = StorageNode.create(name="n1", group=g1, root=str(tmp/"n1"), host="h1", active=True, storage_type="F")
n2 = StorageNode.create(name="n2", group=g2, root=str(tmp/"n2"), host="h1", active=True, storage_type="A")
for n in ("n1","n2"):
    (tmp/n/"ALPENHORN_NODE").write_text(n+"\n")
(tmp/"n1"/"acq").mkdir(); (tmp/"n1"/"acq"/"f1").write_bytes(b"hello")
ArchiveFileImportRequest.create(node=n1, path="acq/f1", register=True)
StorageTransferAction.create(node_from=n1, group_to=g2, autosync=True)
from alpenhorn.daemon import update
from alpenhorn.scheduler import FairMultiFIFOQueue, pool
q = FairMultiFIFOQueue()
for i in range(4):
    update.update_loop(q, pool.EmptyPool(), True)
    print("iter", i, [(c.file.name, c.node.name, c.has_file, c.wants_file) for c in ArchiveFileCopy.select()],
          [(r.file.name, r.completed, r.cancelled) for r in ArchiveFileCopyRequest.select()])
print(sorted(str(p.relative_to(tmp)) for p in tmp.rglob("*")))
import shutil; shutil.rmtree(tmp)
