from common import *
import shutil, pathlib
from alpenhorn.io import ioutil
from alpenhorn.io.updownlock import UpDownLock
tmp, sdb = setup("h1")
g = StorageGroup.create(name="g")
for spelling in ("{r}", "{r}/", "{p}//node", "{p}/./node"):
    (tmp/"outer"/"node"/"acq"/"sub").mkdir(parents=True)
    root = spelling.format(r=str(tmp/"outer"/"node"), p=str(tmp/"outer"))
    n = StorageNode(name="n", group=g, root=root)
    try:
        ioutil.remove_filedir(n, pathlib.Path(root, "acq", "sub"), UpDownLock())
        print(f"root spelled {spelling!r:14}: node root exists={(tmp/'outer'/'node').exists()} parent exists={(tmp/'outer').exists()}")
    except Exception as e:
        print(f"root spelled {spelling!r:14}: raised {type(e).__name__}: {e}")
    shutil.rmtree(tmp/"outer", ignore_errors=True)
shutil.rmtree(tmp)
