(* C04: the watchdog event handler RegisterFile (alpenhorn/daemon/auto_import.py) and the lock-file naming it shares with
   DefaultNodeIO.locked.  Paths are strings; pathlib's .name / .with_name are modelled for paths without a trailing slash
   (what watchdog delivers).  No proofs here (the model stays runnable). *)
From Coq Require Import List NArith Bool.
From Alp Require Import Base.Str.
Import ListNotations.
Open Scope N_scope.

Definition has_slash (s : str) : bool := existsb (fun c => N.eqb c 47) s.
(* PurePath(p).name: the text after the last '/' *)
Fixpoint basename (s : str) : str :=
  match s with
  | [] => []
  | c :: r => if has_slash r then basename r else if N.eqb c 47 then r else c :: r
  end.
(* the text up to and including the last '/' ([] when there is none) *)
Fixpoint dirpart (s : str) : str :=
  match s with
  | [] => []
  | c :: r => if has_slash r then c :: dirpart r else if N.eqb c 47 then [c] else []
  end.
(* PurePath(p).with_name(n), for p with a non-empty name *)
Definition with_name (p n : str) : str := dirpart p ++ n.

Definition first1 (s : str) : str := firstn 1 s.                                   (* s[0], for non-empty s *)
Definition lastn (n : nat) (s : str) : str := skipn (length s - n) s.             (* s[-n:] *)
Definition drop_ends (a b : nat) (s : str) : str := firstn (length s - a - b) (skipn a s).   (* s[a:-b], b > 0 *)

Definition dotlock : str := [46; 108; 111; 99; 107].                               (* ".lock" *)
(* RegisterFile._is_dotfile / _is_lock_file *)
Definition is_dotfile (p : str) : bool := str_eqb (first1 (basename p)) [46].
Definition is_lock_file (p : str) : bool := str_eqb (lastn 5 p) dotlock && is_dotfile p.
(* DefaultNodeIO.locked looks for this file beside p *)
Definition lock_of (p : str) : str := with_name p ([46] ++ basename p ++ dotlock).
(* on_deleted: path.with_name(path.name[1:-5]) *)
Definition unlock_target (p : str) : str := with_name p (drop_ends 1 5 (basename p)).

Inductive event :=
| Created (is_dir : bool) (src : str)
| Moved (is_dir : bool) (src dst : str)
| Deleted (is_dir : bool) (src : str).
(* the path handed to import_file(node, queue, path, register=True, req=None), if any *)
Definition handle (e : event) : option str :=
  match e with
  | Created d p => if negb d && negb (is_dotfile p) then Some p else None
  | Moved d _ q => if negb d && negb (is_dotfile q) then Some q else None
  | Deleted d p => if negb d && is_lock_file p then Some (unlock_target p) else None
  end.
