(* Correspondence for C15: (archive, avail GiB*1024 or None, min GiB*1024, copy table, batches handed to io.delete) *)
From Coq Require Import List NArith ZArith Bool.
From Alp Require Import Base.Str Base.Types Model.Select.
Import ListNotations.
Definition case := (bool * option Z * Z * list cand * list (list N))%type.
Definition check (c : case) : bool :=
  let '(archive, avail, min, cs, out) := c in
  list_eqb (list_eqb N.eqb) (update_delete archive avail min cs) out.
Definition mk (i : N) (h : has) (w : wants) (cs fs : option Z) (p : bool) : cand :=
  {| k_id := i; k_has := h; k_wants := w; k_csize := cs; k_fsize := fs; k_pending := p |}.
