(* Correspondence for C02: the facts of one pending request before the destination daemon's pass, and what was observed after *)
From Coq Require Import List NArith Bool.
From Alp Require Import Base.Str Base.Types Model.Pull.
Import ListNotations.
(* observed: (request completed, cancelled, destination copy state after (None = no row), destination file present, source copy state after) *)
Definition obs := (bool * bool * option has * bool * has)%type.
Definition opthas_eqb (a b : option has) : bool := match a, b with None, None => true | Some x, Some y => has_eqb x y | _, _ => false end.
(* facts: group state, source active, source state, file on disk before, node copy state before (None = no row),
   route inputs (local, route known, same archiveness, bbcp, rsync), outcome the scripted transport will give *)
(* [dchk]/[schk]: what the check task of the same pass makes of a copy that was suspect (M) before the pass, when its
   node is local to the iterating daemon (None = no check runs) *)
Definition case := (has * bool * has * bool * option has * (bool * bool * bool * bool * bool) * toutcome * (option has * option has) * obs)%type.
Definition node_state (o : option has) : has := match o with Some h => h | None => HN end.
Definition checked (pre : option has) (chk : option has) (x : option has) : option has :=
  match pre, chk, x with Some HM, Some v, Some HM => Some v | _, _, _ => x end.
Definition check (c : case) : bool :=
  let '(gs, sa, ss, fod, nrow, (l, rk, same, hb, hr), out, (dchk, schk), (done, canc, dcopy, dfile, scopy)) := c in
  let t := route l rk same true hb hr in
  let d x := checked nrow dchk x in
  let sx x := match checked (Some ss) schk (Some x) with Some v => v | None => x end in
  match chain gs sa ss true fod true (node_state nrow) t out with
  | CCancelled => negb done && canc && opthas_eqb dcopy (d nrow) && Bool.eqb dfile fod && has_eqb scopy (sx ss)
  | CSkipped => negb done && negb canc && opthas_eqb dcopy (d nrow) && Bool.eqb dfile fod && has_eqb scopy (sx ss)
  | CRefusedByGate => negb done && negb canc && opthas_eqb dcopy (d nrow) && Bool.eqb dfile fod && has_eqb scopy (sx ss)
  | CMarkedSuspect => negb done && negb canc && opthas_eqb dcopy (Some HM) && dfile && has_eqb scopy (sx ss)
  | CRan p =>
      Bool.eqb done (p_req_completed p) && Bool.eqb canc (p_req_cancelled p)
      && opthas_eqb dcopy (match p_dst_copy p with Some h => Some h | None => d nrow end)
      && Bool.eqb dfile (if p_req_completed p then true else if p_dst_file_removed p then false else fod)
      && has_eqb scopy (if p_src_flagged p then HM else sx ss)
  end.
