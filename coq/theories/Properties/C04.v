(* C04 — Import registers exactly what is on disk, once. *)
From Coq Require Import List NArith Bool Arith.
From Alp Require Import Base.Str Base.Types Model.Path Model.Import Proofs.ImportProofs Model.Watch Proofs.WatchProofs.
Import ListNotations.
Local Open Scope nat_scope.

(* never imported (no record created, no rule fired): symlinks, non-regular files, dot-files, transfer artefacts,
   paths through a symlinked directory, locked files, paths the detector rejects, non-canonical acquisition names,
   acquisition names that leave no valid file name *)
Theorem C04_never_imported : forall f,
  is_symlink f = true \/ is_regular f = false \/ dot_name f = true \/ in_temp_dir f = true \/ through_symlink f = true \/
  locked f = true \/ detected f = None \/ (exists a, detected f = Some a /\ invalid_import_path a = true) \/
  (exists a, detected f = Some a /\ file_name (ipath f) a = None) ->
  fires_rules (import_decision f) = false /\ creates_records (import_decision f) = false /\ (forall a b c, import_decision f <> OImported a b c).
Proof. exact never_imported. Qed.
Print Assumptions C04_never_imported.
Theorem C04_locked_stays_pending : forall f, import_decision f = OLocked -> completes_request (import_decision f) = false.
Proof. exact locked_stays_pending. Qed.
Print Assumptions C04_locked_stays_pending.

(* an import that goes through: creates exactly the missing acquisition / file records and leaves one tracked copy:
   present and wanted when there was no record (or a released one), suspect when a wanted copy had gone missing *)
Theorem C04_imported : forall f a b c, import_decision f = OImported a b c ->
  a = negb (acq_known f) /\ b = negb (file_known f) /\ tracked (copy_row f) = false /\
  (copy_row f = None -> c = (HY, WY)) /\ (forall r, copy_row f = Some r -> c = revive r) /\ tracked (Some c) = true.
Proof. exact imported_copy. Qed.
Print Assumptions C04_imported.
(* the names it registers: the acquisition the detector named and the file name relative to it — the imported path split in two,
   each part a canonical name; an answer that is not a proper parent of the path (the path itself, a sibling) leaves no name: refused *)
Theorem C04_imported_names : forall f a b c, import_decision f = OImported a b c ->
  exists acq n, detected f = Some acq /\ invalid_import_path acq = false /\ file_name (ipath f) acq = Some n /\
                invalid_import_path n = false /\ ipath f = acq ++ [47%N] ++ n.
Proof. exact imported_names. Qed.
Print Assumptions C04_imported_names.
Theorem C04_path_is_no_acquisition : forall p, file_name p p = None.
Proof. exact file_name_not_self. Qed.
Print Assumptions C04_path_is_no_acquisition.
(* with registration disabled no acquisition or file record is created and only already-registered files gain a copy *)
Theorem C04_no_registration : forall f a b c, register f = false -> import_decision f = OImported a b c ->
  a = false /\ b = false /\ acq_known f = true /\ file_known f = true.
Proof. exact no_registration. Qed.
Print Assumptions C04_no_registration.

(* request vetting: only relative, canonical paths (single imports) and resolvable in-tree directories (scans) get a task *)
Theorem C04_vet_import : forall ab mk rc rs it p, vet_request ab mk rc rs it p = VImport -> ab = false /\ rc = false /\ invalid_import_path p = false.
Proof. exact vet_sound. Qed.
Print Assumptions C04_vet_import.
Theorem C04_vet_scan : forall ab mk rc rs it p, vet_request ab mk rc rs it p = VScan -> ab = false /\ rs = true /\ it = true.
Proof. exact vet_scan_sound. Qed.
Print Assumptions C04_vet_scan.

(* Concurrency: for ANY number of import tasks of one path and ANY interleaving of their statements (each statement
   atomic, the unique indexes making an INSERT of an existing row fail): the copy record is absent, present+wanted or
   suspect+wanted at every moment — never anything else, never two; and as soon as one task reports success the
   acquisition, file and copy records all exist.  Every statement's failure mode is handled (the step function is
   total: no task aborts), and each scheduled, unfinished task strictly advances. *)
Theorem C04_concurrent_once : forall n d0 sched, copy_ok (d_copy d0) ->
  let s := crun n d0 sched in
  copy_ok (d_copy (c_db s)) /\
  ((exists p, In p (c_pcs s) /\ p = PDone false) -> d_acq (c_db s) = true /\ d_file (c_db s) = true /\ d_copy (c_db s) <> None).
Proof. exact concurrent_once. Qed.
Print Assumptions C04_concurrent_once.
Theorem C04_task_progress : forall d p, finished p = false -> rank (snd (task_step d p)) < rank p.
Proof. exact task_progress. Qed.
Print Assumptions C04_task_progress.

Example C04_example :
  let s := crun 2 {| d_acq := false; d_file := false; d_copy := None |} ex_sched in
  c_pcs s = [PDone false; PDone true] /\ d_copy (c_db s) = Some (HY, WY).
Proof. exact example_two_importers. Qed.

(* Watchdog events (RegisterFile).  What the handler hands to the importer: a created file, or the destination of a rename, whose
   own name is not a dot-file --- whatever the file was called before (a transfer tool's temporary dot-name included); the file a
   deleted lock file guarded; never a directory, never a dot-file destination. *)
Theorem C04_watchdog_hands_over : forall e p, handle e = Some p ->
  match e with
  | Created d s => d = false /\ p = s /\ is_dotfile p = false
  | Moved d _ q => d = false /\ p = q /\ is_dotfile p = false
  | Deleted d s => d = false /\ is_lock_file s = true /\ p = unlock_target s
  end.
Proof. exact handle_spec. Qed.
Print Assumptions C04_watchdog_hands_over.
Theorem C04_watchdog_renamed_into_place : forall s q, is_dotfile q = false -> handle (Moved false s q) = Some q.
Proof. exact handle_moved_any_source. Qed.
Print Assumptions C04_watchdog_renamed_into_place.
Theorem C04_watchdog_dot_destination : forall s q, is_dotfile q = true -> handle (Moved false s q) = None /\ handle (Created false q) = None.
Proof. exact handle_dot_dest. Qed.
Print Assumptions C04_watchdog_dot_destination.
(* The lock file DefaultNodeIO.locked looks for beside d/b is d/.b.lock; the handler recognises it as a lock file (and as a dot-file,
   so it is never imported itself), and when it is deleted the path handed to the importer is d/b again: for every directory prefix d
   (empty or ending in '/') and every non-empty name b without '/'. *)
Theorem C04_lock_round_trip : forall d b, dir_ok d -> b <> [] -> has_slash b = false ->
  unlock_target (lock_of (d ++ b)) = d ++ b /\ is_lock_file (lock_of (d ++ b)) = true /\ is_dotfile (lock_of (d ++ b)) = true.
Proof. exact unlock_lock. Qed.
Print Assumptions C04_lock_round_trip.
Theorem C04_lock_gone_imports_the_file : forall d b, dir_ok d -> b <> [] -> has_slash b = false -> handle (Deleted false (lock_of (d ++ b))) = Some (d ++ b).
Proof. exact handle_lock_gone. Qed.
Print Assumptions C04_lock_gone_imports_the_file.
Example C04_lock_example : lock_of [97; 99; 113; 47; 102]%N = [97; 99; 113; 47; 46; 102; 46; 108; 111; 99; 107]%N /\ dir_ok [97; 99; 113; 47]%N.
Proof. split; [reflexivity | right; exists [97; 99; 113]%N; reflexivity]. Qed.
