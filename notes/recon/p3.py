import sys; sys.path.insert(0,"/repo"); sys.path.insert(0,"/root/probe")
import itertools, sched
import alpenhorn.io.updownlock as udl
def run(schedule):
    it = iter(schedule)
    def choose(r):
        try:
            w = next(it)
        except StopIteration:
            w = 0
        return r[w % len(r)]
    S = sched.Sched(choose)
    udl.threading = sched.fake_threading(S)
    L = udl.UpDownLock()
    def A():
        L.up.acquire(); L.up.release(); return "A done"
    def B():
        L.down.acquire(); L.down.release(); return "B done"
    S.spawn("A", A); S.spawn("B", B)
    res, stuck = S.run()
    return res, stuck, S.trace
found = 0; total = 0
for schedule in itertools.product([0,1], repeat=12):
    res, stuck, trace = run(schedule)
    total += 1
    if stuck:
        found += 1
        if found == 1: print("STUCK", stuck, "schedule", schedule, "trace", trace, res)
print("total", total, "stuck schedules", found)
