(* Feasibility sketch: C20 — LustreHSMNodeIO._restore_wait bookkeeping (_restoring set, _restore_start dict). *)
From Coq Require Import List NArith ZArith Bool Lia.
Import ListNotations.

Inductive hsm := Missing | Unarchived | Restored | Restoring | Released.
Inductive rr := RFalse | RNone | RTrue.                          (* result of lfs.hsm_restore *)
Inductive ret := WaitMore | Ready | Failed | KeyErr.              (* True / False / None / a KeyError escaping *)

Record bk := { restoring : list N; start : list (N * Z) }.       (* set and dict, as association lists *)
Definition mem (x : N) (l : list N) : bool := existsb (N.eqb x) l.
Definition has_key (x : N) (d : list (N * Z)) : bool := existsb (fun p => N.eqb x (fst p)) d.
Definition discard (x : N) (l : list N) : list N := filter (fun y => negb (N.eqb x y)) l.
Definition del (x : N) (d : list (N * Z)) : list (N * Z) := filter (fun p => negb (N.eqb x (fst p))) d.
Definition add (x : N) (now : Z) (b : bk) : bk :=
  if mem x (restoring b) then b else {| restoring := x :: restoring b; start := (x, now) :: del x (start b) |}.
Definition pop_both (x : N) (b : bk) : bk := {| restoring := discard x (restoring b); start := del x (start b) |}.
(* `del self._restore_start[id]` raises KeyError when the key is absent *)
Definition del_strict (x : N) (b : bk) : option bk :=
  if has_key x (start b) then Some {| restoring := discard x (restoring b); start := del x (start b) |} else None.

Definition restore_wait (id : N) (now : Z) (st : option hsm) (res : rr) (b : bk) : bk * ret :=
  match st with
  | None | Some Missing => (pop_both id b, Failed)
  | Some Restoring => (add id now b, WaitMore)
  | Some Released =>
      let b1 := add id now b in
      match res with
      | RFalse => match del_strict id b1 with Some b2 => (b2, Failed) | None => (b1, KeyErr) end
      | RNone | RTrue => (b1, WaitMore)
      end
  | Some _ =>   (* restored or unarchived *)
      if mem id (restoring b)
      then match del_strict id b with Some b2 => (b2, Ready) | None => (b, KeyErr) end
      else (b, Ready)
  end.

Definition Inv (b : bk) : Prop := forall x, mem x (restoring b) = has_key x (start b).

Lemma mem_discard x y l : mem x (discard y l) = mem x l && negb (N.eqb y x).
Proof.
  unfold mem, discard. induction l as [|a l IH]; cbn; [reflexivity|].
  destruct (N.eqb_spec y a) as [->|]; cbn.
  - rewrite IH. destruct (N.eqb_spec x a) as [->|]; cbn; [rewrite N.eqb_refl, andb_false_r; reflexivity | reflexivity].
  - rewrite IH. destruct (N.eqb_spec x a) as [->|]; cbn; [|reflexivity].
    destruct (N.eqb_spec y a); [congruence|reflexivity].
Qed.
Lemma key_del x y d : has_key x (del y d) = has_key x d && negb (N.eqb y x).
Proof.
  unfold has_key, del. induction d as [|[a v] d IH]; cbn; [reflexivity|].
  destruct (N.eqb_spec y a) as [->|]; cbn.
  - rewrite IH. destruct (N.eqb_spec x a) as [->|]; cbn; [rewrite N.eqb_refl, andb_false_r; reflexivity | reflexivity].
  - rewrite IH. destruct (N.eqb_spec x a) as [->|]; cbn; [|reflexivity].
    destruct (N.eqb_spec y a); [congruence|reflexivity].
Qed.

Lemma inv_pop x b : Inv b -> Inv (pop_both x b).
Proof. intros H y. unfold pop_both. cbn [restoring start]. rewrite mem_discard, key_del, H. reflexivity. Qed.
Lemma inv_add x now b : Inv b -> Inv (add x now b).
Proof.
  intros H y. unfold add. destruct (mem x (restoring b)) eqn:E; [apply H|].
  cbn [restoring start]. unfold mem, has_key. cbn [existsb fst]. fold (mem y (restoring b)). fold (has_key y (del x (start b))).
  rewrite key_del, <- H. destruct (N.eqb_spec y x) as [->|Hne]; cbn [orb]; [reflexivity|].
  destruct (N.eqb_spec x y); [congruence|]. cbn [negb]. rewrite andb_true_r. reflexivity.
Qed.
Lemma mem_add x now b : mem x (restoring (add x now b)) = true.
Proof. unfold add. destruct (mem x (restoring b)) eqn:E; [exact E|]. cbn [restoring]. unfold mem. cbn [existsb]. rewrite N.eqb_refl. reflexivity. Qed.

(* every call keeps the bookkeeping consistent, never raises KeyError, and a terminal answer clears the entry *)
Theorem restore_wait_ok id now st res b :
  Inv b ->
  let '(b', r) := restore_wait id now st res b in
  Inv b' /\ r <> KeyErr /\ (r <> WaitMore -> mem id (restoring b') = false).
Proof.
  intros H. unfold restore_wait.
  destruct st as [[| | | |]|].
  - (* missing *) repeat split; [apply inv_pop, H | discriminate | intros _; unfold pop_both; cbn [restoring]; rewrite mem_discard, N.eqb_refl, andb_false_r; reflexivity].
  - (* unarchived *) destruct (mem id (restoring b)) eqn:E.
    + unfold del_strict. rewrite <- H, E. repeat split; [apply (inv_pop id b H) | discriminate |].
      intros _. cbn [restoring]. rewrite mem_discard, N.eqb_refl, andb_false_r. reflexivity.
    + repeat split; [exact H | discriminate | intros _; exact E].
  - (* restored *) destruct (mem id (restoring b)) eqn:E.
    + unfold del_strict. rewrite <- H, E. repeat split; [apply (inv_pop id b H) | discriminate |].
      intros _. cbn [restoring]. rewrite mem_discard, N.eqb_refl, andb_false_r. reflexivity.
    + repeat split; [exact H | discriminate | intros _; exact E].
  - (* restoring *) repeat split; [apply inv_add, H | discriminate | intros C; exfalso; apply C; reflexivity].
  - (* released *) pose proof (inv_add id now b H) as H1. pose proof (mem_add id now b) as M.
    destruct res.
    + unfold del_strict. rewrite <- H1, M. repeat split; [apply (inv_pop id _ H1) | discriminate |].
      intros _. cbn [restoring]. rewrite mem_discard, N.eqb_refl, andb_false_r. reflexivity.
    + repeat split; [exact H1 | discriminate | intros C; exfalso; apply C; reflexivity].
    + repeat split; [exact H1 | discriminate | intros C; exfalso; apply C; reflexivity].
  - (* state check failed *) repeat split; [apply inv_pop, H | discriminate | intros _; unfold pop_both; cbn [restoring]; rewrite mem_discard, N.eqb_refl, andb_false_r; reflexivity].
Qed.
Print Assumptions restore_wait_ok.
