From Coq Require Import List Bool Arith Lia.
From Alp Require Import Model.Rmdirs.
Import ListNotations.

(* the walk only ever removes directories, and only ones that hold nothing else *)
Lemma walk_removes_only_empty inner l : Forall2 (fun a b => b = a \/ (b = dir_gone /\ present a = true /\ others a = false)) l (walk inner l).
Proof.
  revert inner; induction l as [|d up IH]; intros inner; cbn [walk]; [constructor|].
  destruct (present d) eqn:Ep; cbn [negb].
  - destruct (others d) eqn:Eo; cbn [orb].
    + constructor; [left; reflexivity|]. clear. induction up; constructor; auto.
    + destruct inner.
      * constructor; [left; reflexivity|]. clear. induction up; constructor; auto.
      * constructor; [right; auto | apply IH].
  - constructor; [left; reflexivity | apply IH].
Qed.

(* a second run changes nothing (the walk is idempotent when nothing is left inside) *)
Lemma walk_idem l : walk false (walk false l) = walk false l.
Proof.
  induction l as [|d up IH]; [reflexivity|]. cbn [walk].
  destruct (present d) eqn:Ep; cbn [negb].
  - destruct (others d) eqn:Eo; cbn [orb].
    + cbn [walk]. rewrite Ep, Eo. reflexivity.
    + cbn [walk dir_gone present negb]. rewrite IH. reflexivity.
  - cbn [walk]. rewrite Ep. cbn [negb]. rewrite IH. reflexivity.
Qed.

(* killed after any number of rmdirs, the retry ends exactly where the uninterrupted run ends *)
Lemma retry_converges k l : walk false (walk_k k false l) = walk false l.
Proof.
  revert k; induction l as [|d up IH]; intros k; [reflexivity|]. cbn [walk walk_k].
  destruct (present d) eqn:Ep; cbn [negb].
  - destruct (others d) eqn:Eo; cbn [orb].
    + cbn [walk]. rewrite Ep, Eo. reflexivity.
    + destruct k as [|k].
      * cbn [walk]. rewrite Ep, Eo. reflexivity.
      * cbn [walk dir_gone present negb]. rewrite IH. reflexivity.
  - cbn [walk]. rewrite Ep. cbn [negb]. rewrite IH. reflexivity.
Qed.

(* what the uninterrupted walk leaves: nothing of the chain up to the first directory that holds something else; that one and
   everything outside it untouched *)
Fixpoint expected (l : list lvl) : list lvl :=
  match l with
  | [] => []
  | d :: up => if present d && others d then d :: up else dir_gone :: expected up
  end.
Lemma walk_expected l : wf l = true -> Forall2 (fun a b => present a = present b /\ (present a = true -> others a = others b)) (walk false l) (expected l).
Proof.
  induction l as [|d up IH]; intros Hw; [constructor|]. cbn [wf] in Hw. apply andb_prop in Hw as [Hd Hup]. cbn [walk expected].
  destruct (present d) eqn:Ep; cbn [negb andb].
  - destruct (others d) eqn:Eo; cbn [orb].
    + constructor; [auto|]. clear. induction up; constructor; auto.
    + constructor; [cbn; split; [reflexivity | discriminate] | apply IH; exact Hup].
  - constructor; [cbn; rewrite Ep; split; [reflexivity | discriminate] | apply IH; exact Hup].
Qed.

(* the variant that stops at the first missing directory does NOT converge: killed after one rmdir of a two-level chain, its retry
   leaves the outer directory behind for ever *)
Definition ex_chain := [ {| present := true; others := false |}; {| present := true; others := false |} ].
Lemma stop_variant_refuted : walk_stop false (walk_k 1 false ex_chain) <> walk_stop false ex_chain.
Proof. cbn. discriminate. Qed.
Lemma example_retry : walk false (walk_k 1 false ex_chain) = [dir_gone; dir_gone] /\ walk false ex_chain = [dir_gone; dir_gone] /\ wf ex_chain = true.
Proof. repeat split; reflexivity. Qed.
