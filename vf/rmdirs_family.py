"""C09: the real ioutil.remove_filedir on real directory chains, killed after k rmdirs and retried (T2 for Model/Rmdirs.v), and the pin
of its error handling (T1)."""
import ast
import os
import pathlib
import shutil

from vf import core
from vf.core import cbool, clist, ctup
from vf.translate import core as T


def pin():
    iou = T.parse(core.REPO / "alpenhorn/io/ioutil.py")
    f = T.find_func(iou, "remove_filedir")
    loops = [n for n in ast.walk(f) if isinstance(n, ast.While)]
    if len(loops) != 1 or ast.unparse(loops[0].test) != "dirname != pathlib.Path(node.root)":
        raise T.Untranslatable(f"UNTRANSLATABLE: remove_filedir's climb is no longer `while dirname != pathlib.Path(node.root)`: {[ast.unparse(l.test) for l in loops]}")
    body = loops[0].body
    if len(body) != 2 or not isinstance(body[0], ast.Try) or ast.unparse(body[1]) != "dirname = dirname.parent":
        raise T.Untranslatable(f"UNTRANSLATABLE: remove_filedir's loop body is no longer try-rmdir followed by `dirname = dirname.parent`: {[ast.unparse(x)[:60] for x in body]}")
    tr = body[0]
    if ast.unparse(tr.body[0]) != "dirname.rmdir()" or len(tr.handlers) != 1 or ast.unparse(tr.handlers[0].type) != "OSError":
        raise T.Untranslatable("UNTRANSLATABLE: remove_filedir no longer tries dirname.rmdir() under a single OSError handler")
    h = tr.handlers[0].body
    ok = (len(h) == 2 and isinstance(h[0], ast.If) and ast.unparse(h[0].test) == "e.errno == errno.ENOTEMPTY" and len(h[0].body) == 1 and isinstance(h[0].body[0], ast.Break) and not h[0].orelse
          and isinstance(h[1], ast.If) and ast.unparse(h[1].test) == "e.errno == errno.ENOENT" and len(h[1].body) == 1 and isinstance(h[1].body[0], ast.Pass)
          and not any(isinstance(n, (ast.Break, ast.Return, ast.Raise, ast.Continue)) for x in h[1].orelse for n in ast.walk(x)))
    if not ok:
        raise T.Untranslatable(f"UNTRANSLATABLE: remove_filedir's error handling is no longer ENOTEMPTY -> break, ENOENT -> go on, anything else -> warn and go on: {[ast.unparse(x)[:80] for x in h]}")


class Kill(BaseException):
    pass


def explore(ctx, base, n):
    from alpenhorn.io import ioutil
    from alpenhorn.io.updownlock import UpDownLock
    from vf.harness import world as w

    rng = ctx.rng
    terms, keep = [], []
    w.fresh_db(host="h1")
    g = w.mkgroup("g")
    shutil.rmtree(base, ignore_errors=True)
    node = w.mknode(base, "n", g, stype="F")
    root = pathlib.Path(node.root)
    for k_case in range(n):
        depth = rng.randint(1, 4)
        missing = rng.choice([0, 0, 0, 1, 2])  # the innermost `missing` levels are gone already (an earlier, interrupted run)
        missing = min(missing, depth)
        levels = []  # innermost first: (present, others)
        for j in range(depth):
            present = j >= missing
            levels.append((present, present and rng.random() < 0.25))
        kill_after = rng.choice([0, 1, 2, 3, 99])

        def build():
            shutil.rmtree(root / "top0", ignore_errors=True)
            names = [f"top{i}" for i in range(depth)]  # outermost ... innermost
            for j in range(depth):  # j = 0 is the innermost level
                d = root.joinpath(*names[: depth - j])
                if levels[j][0]:
                    d.mkdir(parents=True, exist_ok=True)
                    if levels[j][1]:
                        (d / "other.dat").write_bytes(b"x")
            return root.joinpath(*names)

        def presence():
            names = [f"top{i}" for i in range(depth)]
            return [root.joinpath(*names[: depth - j]).is_dir() for j in range(depth)]

        def run(limit):
            inner = build()
            done = {"n": 0}
            orig = os.rmdir

            def rmdir(p, *a, **kw):
                if done["n"] >= limit:
                    raise Kill()
                r = orig(p, *a, **kw)
                done["n"] += 1
                return r

            os.rmdir = rmdir
            try:
                try:
                    ioutil.remove_filedir(w.StorageNode.get(id=node.id), inner, UpDownLock())
                except Kill:
                    pass
            finally:
                os.rmdir = orig
            after_kill = presence()
            ioutil.remove_filedir(w.StorageNode.get(id=node.id), inner, UpDownLock())
            return after_kill, presence()

        a, b = run(kill_after)
        _, clean = run(10 ** 6)
        ctx.count("rmdir-walk")
        ctx.distinct_add(("rmdirs", tuple(levels), kill_after))
        rp = {"family": "rmdir-walk", "levels_innermost_first_present_others": levels, "killed_after_rmdirs": kill_after, "present_after_kill": a, "present_after_retry": b, "present_after_uninterrupted_run": clean}
        if b != clean:
            ctx.fail("C09:deletion-not-completed", f"directory chain {levels} (innermost first: present, holds something else): killed after {kill_after} rmdir(s) and retried, the directories left are {b}; "
                     f"an uninterrupted run leaves {clean}", rp)
        if not root.is_dir() or not (root / "ALPENHORN_NODE").exists():
            ctx.fail("C06:root-removed", "remove_filedir removed the node root or its marker", rp)
        terms.append(ctup(clist([f"(LV {cbool(p)} {cbool(o)})" for p, o in levels], "lvl"), f"{kill_after}%nat", ctup(clist([cbool(x) for x in a], "bool"), clist([cbool(x) for x in b], "bool"))))
        keep.append(rp)
        if k_case == 0:
            ctx.sample(rp)
    shutil.rmtree(base, ignore_errors=True)
    bad = core.run_cases(ctx, "rmdirs", "Corr.Rmdirs", "rcase", "rcheck", terms, shard=500, extra_imports=("Model.Rmdirs",))
    for i in bad[:3]:
        ctx.broke("correspondence", f"remove_filedir: model and implementation differ on {keep[i]}")
