(* Correspondence for C19: (live ids ascending, cursor, n, implementation's answer) *)
From Coq Require Import List NArith ZArith Bool.
From Alp Require Import Base.Str Base.Types Model.Walker Model.Gate.
Import ListNotations.
Definition case := (list N * N * nat * option (list N * N))%type.
Definition res_eqb (a b : option (list N * N)) : bool :=
  match a, b with
  | None, None => true
  | Some (i1, c1), Some (i2, c2) => list_eqb N.eqb i1 i2 && N.eqb c1 c2
  | _, _ => false
  end.
Definition check (c : case) : bool :=
  let '(l, cur, n, r) := c in res_eqb (get l cur n) r.
(* age filter: (now, last_update, min_days, skipped?) all in seconds/days as integers *)
Definition acase := (Z * Z * Z * bool)%type.
Definition acheck (c : acase) : bool := let '(now, upd, d, skipped) := c in Bool.eqb (too_new now upd d) skipped.

(* the gate: (idle at the start of the pass, update not cancelled, idle after the update, auto_verify, did a batch happen?) *)
Definition gcase := (bool * bool * bool * Z * bool)%type.
Definition gcheck (c : gcase) : bool :=
  let '(i0, du, i1, av, ran) := c in
  Bool.eqb ran (verifies {| p_idle_at_start := i0; p_do_update := du; p_idle_after := i1; p_auto_verify := av; p_table := [] |}).
