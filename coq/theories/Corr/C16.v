(* Correspondence for C16: (node groups, rules, node, file, copies before, requests before | copies after, requests after) *)
From Coq Require Import List NArith ZArith Bool.
From Alp Require Import Base.Str Base.Types Model.PostAdd.
Import ListNotations.
Definition copy_eqb (a b : copy) : bool :=
  N.eqb (c_id a) (c_id b) && N.eqb (c_file a) (c_file b) && N.eqb (c_node a) (c_node b) && has_eqb (c_has a) (c_has b) && wants_eqb (c_wants a) (c_wants b).
Definition req_eqb (a b : req) : bool := N.eqb (r_file a) (r_file b) && N.eqb (r_from a) (r_from b) && N.eqb (r_to a) (r_to b).
Definition C (i f n : N) (h : has) (w : wants) : copy := {| c_id := i; c_file := f; c_node := n; c_has := h; c_wants := w |}.
Definition R (f a b : N) : req := {| r_file := f; r_from := a; r_to := b |}.
Definition U (a b : N) (s c : bool) : rule := {| u_from := a; u_to := b; u_sync := s; u_clean := c |}.
Definition case := (list (N * N) * list rule * N * N * list copy * list req * list copy * list req)%type.
Definition check (c : case) : bool :=
  let '(groups, rules, n, f, cs, rs, cs', rs') := c in
  let '(mc, mr) := post_add groups rules n f cs rs in
  list_eqb copy_eqb mc cs' && list_eqb req_eqb mr rs'.
(* state_on_node: (groups, copies, group, file, reported state) *)
Definition scase := (list (N * N) * list copy * N * N * has)%type.
Definition scheck (c : scase) : bool := let '(groups, cs, g, f, st) := c in has_eqb (state_on_group groups cs g f) st.
