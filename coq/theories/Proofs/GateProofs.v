From Coq Require Import List NArith ZArith Bool Lia.
From Alp Require Import Model.Walker Model.Gate.
Import ListNotations.

Lemma gate_sound p : verifies p = true ->
  p_idle_at_start p = true /\ p_do_update p = true /\ p_idle_after p = true /\ (0 < p_auto_verify p)%Z.
Proof.
  unfold verifies, auto_verify_runs, idle_work_runs, after_update. intros H.
  apply andb_true_iff in H as [H Hav]. apply andb_true_iff in H as [H Hi]. apply andb_true_iff in H as [H0 Hd].
  apply Z.ltb_lt in Hav. auto.
Qed.
Lemma gate_complete p : p_idle_at_start p = true -> p_do_update p = true -> p_idle_after p = true -> (0 < p_auto_verify p)%Z -> verifies p = true.
Proof. intros H0 Hd Hi Hav. unfold verifies, auto_verify_runs, idle_work_runs, after_update. rewrite H0, Hd, Hi. apply Z.ltb_lt in Hav. rewrite Hav. reflexivity. Qed.
(* a pass whose update was skipped (busy at its start, or cancelled) or that is not idle afterwards selects nothing and leaves the cursor where it was *)
Lemma skipped_pass_keeps_cursor p ps cur : verifies p = false -> passes cur (p :: ps) = (None :: fst (passes cur ps), snd (passes cur ps)).
Proof. intros H. cbn [passes]. rewrite H. destruct (passes cur ps). reflexivity. Qed.
(* the batches and the final cursor are those of the walker run over the passes that verify, in order: skipped passes are invisible to the walk *)
Lemma passes_filter cur ps : snd (passes cur ps) = snd (passes cur (filter verifies ps))
  /\ filter (fun b => match b with Some _ => true | None => false end) (fst (passes cur ps)) = fst (passes cur (filter verifies ps)).
Proof.
  revert cur. induction ps as [|p ps IH]; intros cur; [split; reflexivity|].
  cbn [filter]. destruct (verifies p) eqn:E.
  - cbn [passes]. rewrite E. destruct (get (p_table p) cur (Z.to_nat (p_auto_verify p))) as [[items cur']|].
    + destruct (IH cur') as [I1 I2]. destruct (passes cur' ps) as [bs c], (passes cur' (filter verifies ps)) as [bs' c']. cbn [fst snd filter] in *. split; [exact I1 | f_equal; exact I2].
    + destruct (IH cur) as [I1 I2]. destruct (passes cur ps) as [bs c], (passes cur (filter verifies ps)) as [bs' c']. cbn [fst snd filter] in *. split; [exact I1 | f_equal; exact I2].
  - cbn [passes]. rewrite E. destruct (IH cur) as [I1 I2]. destruct (passes cur ps) as [bs c]. cbn [fst snd filter] in *. split; assumption.
Qed.
