"""./check Cxx --tier quick|thorough  — decide one property on /repo's current working tree."""
import argparse
import logging
import importlib
import json
import re
import os
import sys
import traceback

from vf import core


def main():
    ap = argparse.ArgumentParser()
    ap.add_argument("pid")
    ap.add_argument("--tier", default=os.environ.get("VERIF_TIER", "quick"), choices=["quick", "thorough"])
    ap.add_argument("--replay")
    a = ap.parse_args()
    logging.disable(logging.CRITICAL)
    seed = int(os.environ.get("VERIF_SEED", "20260930"))
    (core.VERIF / "build").mkdir(exist_ok=True)
    mod = importlib.import_module(f"vf.props.{a.pid.lower()}")
    ctx = core.Ctx(a.pid, a.tier, seed)
    if a.replay:
        rp = json.load(open(a.replay))
        rc = mod.replay(ctx, rp)
        ctx.cleanup()
        sys.exit(rc)
    try:
        # 1. proofs: hand-written development, regenerated model, tie lemmas, property statements
        core.ensure_theories(ctx)
        try:
            mod.proofs(ctx)
        except core.Broken as b:
            ctx.broke(b.kind, b.name, b.detail)
        # 2. correspondence + monitors (corpus first)
        try:
            mod.explore(ctx)
        except core.Broken as b:
            ctx.broke(b.kind, b.name, b.detail)
        # 3. something broke and nothing concrete yet: search for a failing input
        own = [f for f in ctx.failing if not (re.match(r"C\d\d:", f["signature"]) and not f["signature"].startswith(ctx.pid + ":"))]
        if ctx.broken and not own and hasattr(mod, "search"):
            try:
                mod.search(ctx)
            except core.Broken as b:
                ctx.broke(b.kind, b.name, b.detail)
    except Exception:
        ctx.broke("harness", "internal error", traceback.format_exc())
        traceback.print_exc()
    rc = core.finish(ctx, mod.TRUSTED, mod.RULE, f"/verif/check {a.pid} --tier {a.tier}  (coqc on theories/Properties/{a.pid}.v and its cone, tie/*.v against the regenerated model, case shards by vm_compute)")
    sys.exit(rc)


if __name__ == "__main__":
    main()
