(* Theorems about the item model.  The state space of one item is finite (22 464 states x 192 environments x 7 transport
   behaviours x every crash point), so each statement is decided by evaluating a boolean checker over the complete enumerations
   (vm_compute) and lifted to a universally quantified statement through forallb_forall and the completeness lemmas below. *)
From Coq Require Import List NArith Bool Arith Lia.
From Alp Require Import Base.Str Base.Types Model.Pull Model.Item.
Import ListNotations.
Local Open Scope nat_scope.

(* ---- completeness of the enumerations ---- *)
Lemma in_all_has h : In h all_has. Proof. destruct h; cbn; tauto. Qed.
Lemma in_all_wants w : In w all_wants. Proof. destruct w; cbn; tauto. Qed.
Lemma in_all_obytes o : In o all_obytes. Proof. destruct o as [[|]|]; cbn; tauto. Qed.
Lemma in_all_bool b : In b all_bool. Proof. destruct b; cbn; tauto. Qed.
Lemma in_all_rstate r : In r all_rstate. Proof. destruct r; cbn; tauto. Qed.
Lemma in_all_rows r : In r all_rows.
Proof. destruct r as [[h w]|]; [right; apply in_map, in_prod; [apply in_all_has | apply in_all_wants] | left; reflexivity]. Qed.
Lemma in_all_items i : In i all_items.
Proof.
  destruct i as [a b c d p t g r u]. unfold all_items.
  apply in_flat_map. exists a. split; [apply in_all_has|].
  apply in_flat_map. exists b. split; [apply in_all_obytes|].
  apply in_flat_map. exists c. split; [apply in_all_rows|].
  apply in_flat_map. exists d. split; [apply in_all_obytes|].
  apply in_flat_map. exists p. split; [apply in_all_bool|].
  apply in_flat_map. exists t. split; [apply in_all_bool|].
  apply in_flat_map. exists g. split; [apply in_all_bool|].
  apply in_flat_map. exists r. split; [apply in_all_rstate|].
  apply in_map_iff. exists u. split; [reflexivity | apply in_all_bool].
Qed.
Lemma in_all_leftover l : In l all_leftover. Proof. destruct l; cbn; tauto. Qed.
Lemma in_all_beh b : In b all_beh.
Proof.
  destruct b as [|cs l]; [left; reflexivity|]. right. apply in_flat_map. exists cs. split; [apply in_all_bool|].
  apply in_map, in_all_leftover.
Qed.
Lemma in_all_tenv t : In t all_tenv.
Proof.
  destruct t as [a b]. unfold all_tenv. apply in_flat_map. exists a. split; [apply in_all_bool|].
  apply in_map_iff. exists b. split; [reflexivity | apply in_all_bool].
Qed.
Lemma in_all_route r : In r all_route. Proof. destruct r; cbn; tauto. Qed.
Lemma in_all_env e : In e all_env.
Proof.
  destruct e as [a b c r t d]. unfold all_env.
  apply in_flat_map. exists a. split; [apply in_all_bool|].
  apply in_flat_map. exists b. split; [apply in_all_bool|].
  apply in_flat_map. exists c. split; [apply in_all_bool|].
  apply in_flat_map. exists r. split; [apply in_all_route|].
  apply in_flat_map. exists t. split; [apply in_all_tenv|].
  apply in_map_iff. exists d. split; [reflexivity | apply in_all_bool].
Qed.
Lemma fa {A} (f : A -> bool) l x : forallb f l = true -> In x l -> f x = true.
Proof. intros H Hin. exact (proj1 (forallb_forall f l) H x Hin). Qed.

(* ---- predicates ---- *)
Definition wants_ok (i : item) := negb (wants_eqb (wants_of i) WN).
(* a copy recorded healthy and not released is backed by good bytes (a released copy is in the window of its own deletion) *)
Definition safe (i : item) : bool :=
  (negb (is_y (src_has i)) || obytes_eqb (src_disk i) (Some Good))
  && (negb (is_y (dst_state i) && wants_ok i) || obytes_eqb (dst_disk i) (Some Good)).
Definition healthy_wanted (i : item) := is_y (dst_state i) && wants_ok i && obytes_eqb (dst_disk i) (Some Good).
(* state j, left by a kill during a task started in state i, is acceptable *)
Definition good_after (i j : item) : bool :=
   safe j && obytes_eqb (src_disk j) (src_disk i) && (if healthy_wanted i then healthy_wanted j else true)
   && (if rstate_eqb (req i) Pending && rstate_eqb (req j) Completed then is_y (dst_state j) && obytes_eqb (dst_disk j) (Some Good) else true).

(* ---- crash points beyond the end of a script ---- *)
Lemma crash_beyond l i k : length l <= k -> crash k l i = crash (length l) l i.
Proof. intros H. unfold crash. rewrite (firstn_all2 l H), firstn_all. reflexivity. Qed.
Lemma crash_points (P : item -> bool) l i n : length l < n -> forallb (fun k => P (crash k l i)) (seq 0 n) = true -> forall k, P (crash k l i) = true.
Proof.
  intros Hl H k. destruct (le_lt_dec n k) as [Hk|Hk].
  - rewrite crash_beyond by lia. apply (fa _ _ _ H). apply in_seq. lia.
  - apply (fa _ _ _ H). apply in_seq. lia.
Qed.

(* ---- C09: every crash point of every task ---- *)
Definition f_pull (i : item) : bool := if safe i && is_y (src_has i) then forallb (fun r => forallb (fun e => forallb (fun b =>
   Nat.ltb (length (pull_script r e b i)) 10 && forallb (fun k => good_after i (crash k (pull_script r e b i) i)) (seq 0 10)) all_beh) all_tenv) all_route else true.
Lemma chk_pull_true : forallb f_pull all_items = true. Proof. vm_cast_no_check (eq_refl true). Qed.
Lemma pull_crash_good i r e b k : safe i = true -> src_has i = HY -> good_after i (crash k (pull_script r e b i) i) = true.
Proof.
  intros Hs Hy. pose proof (fa f_pull all_items i chk_pull_true (in_all_items i)) as H. unfold f_pull in H. rewrite Hs, Hy in H. cbn [is_y has_eqb andb] in H.
  pose proof (fa _ _ r H (in_all_route r)) as H1. pose proof (fa _ _ e H1 (in_all_tenv e)) as H2. pose proof (fa _ _ b H2 (in_all_beh b)) as H3.
  cbn beta in H3. apply andb_true_iff in H3 as [Hl Hk]. apply Nat.ltb_lt in Hl.
  exact (crash_points (good_after i) _ i 10 Hl Hk k).
Qed.

Definition simple_ok (l : list mop) (i : item) : bool := forallb (fun k => good_after i (crash k l i)) (seq 0 3).
Definition f_simple (i : item) : bool := if safe i then
   simple_ok (check_src_script i) i && simple_ok (check_dst_script i) i && simple_ok [ReqSet Cancelled] i && simple_ok [] i
   && (if already_in_group (dst_state i) then true else simple_ok mark_suspect_script i)
   && (if wants_eqb (wants_of i) WN then simple_ok (delete_script i) i else true) && simple_ok [PhRemove] i else true.
Lemma chk_simple_true : forallb f_simple all_items = true. Proof. vm_cast_no_check (eq_refl true). Qed.

(* the dispatch conditions under which a task is queued *)
Definition task_pre (t : task) (i : item) : bool :=
  match t with TSearchPull | TPullForce => is_y (src_has i) | TDelete => wants_eqb (wants_of i) WN | _ => true end.

Lemma task_crash_good e b i t k : safe i = true -> task_pre t i = true -> good_after i (crash k (task_script e b i t) i) = true.
Proof.
  intros Hs Hp. pose proof (fa f_simple all_items i chk_simple_true (in_all_items i)) as H. unfold f_simple in H. rewrite Hs in H.
  apply andb_true_iff in H as [H Htidy].
  apply andb_true_iff in H as [H Hdel]. apply andb_true_iff in H as [H Hmark]. apply andb_true_iff in H as [H Hnil].
  apply andb_true_iff in H as [H Hcancel]. apply andb_true_iff in H as [Hcs Hcd].
  assert (S : forall l, length l < 3 -> simple_ok l i = true -> good_after i (crash k l i) = true)
    by (intros l Hl Hok; exact (crash_points (good_after i) l i 3 Hl Hok k)).
  assert (Hy : match t with TSearchPull | TPullForce => src_has i = HY | _ => True end).
  { destruct t; cbn in Hp |- *; auto; destruct (src_has i); try discriminate; reflexivity. }
  destruct t; cbn [task_script].
  - apply S; [cbn; lia | exact Hcs].
  - apply S; [cbn; lia | exact Hcd].
  - destruct (del_ok e); [|apply S; [cbn; lia | exact Hnil]].
    cbn [task_pre] in Hp. rewrite Hp in Hdel. apply S; [cbn; lia | exact Hdel].
  - unfold group_search. destruct (already_in_group (dst_state i)) eqn:Ea.
    + apply S; [cbn; lia | exact Hcancel].
    + destruct (dst_disk i) as [c|].
      * apply S; [cbn; lia | exact Hmark].
      * unfold pull_gate. destruct (gate_ok e); [apply pull_crash_good; assumption | apply S; [cbn; lia | exact Hnil]].
  - unfold pull_gate. destruct (gate_ok e); [apply pull_crash_good; assumption | apply S; [cbn; lia | exact Hnil]].
  - destruct (ph i); apply S; [cbn; lia | exact Htidy | cbn; lia | exact Hnil].
Qed.

(* ---- C09: recovery ---- *)
Definition good_env (e : env) := src_active e && dst_usable e && gate_ok e && match rt e with Tool => true | _ => false end.
Definition healed (x : item) := is_y (dst_state x) && wants_ok x && obytes_eqb (dst_disk x) (Some Good) && negb (rstate_eqb (req x) Pending)
                                && is_y (src_has x) && obytes_eqb (src_disk x) (Some Good).
Definition pre_transfer (i : item) := safe i && is_y (src_has i) && obytes_eqb (src_disk i) (Some Good) && rstate_eqb (req i) Pending
                                      && match dst_row i with Some (h, WN) => is_n h | _ => true end.      (* not a copy whose deletion is still owed; a removed and released row is the normal state after a deletion *)
Definition all_crash_states e b i := dst_trace e b i ++ [dst_round e b i].
Definition f_recover (i : item) : bool := if pre_transfer i then forallb (fun e => if good_env e then forallb (fun b =>
   forallb (fun j => healed (rounds 3 e j)) (all_crash_states e b i)) all_beh else true) all_env else true.
Lemma chk_recover_true : forallb f_recover all_items = true. Proof. vm_cast_no_check (eq_refl true). Qed.
Lemma transfer_recovers i e b j : pre_transfer i = true -> good_env e = true -> In j (all_crash_states e b i) -> healed (rounds 3 e j) = true.
Proof.
  intros Hp He Hj. pose proof (fa f_recover all_items i chk_recover_true (in_all_items i)) as H. unfold f_recover in H. rewrite Hp in H.
  pose proof (fa _ _ e H (in_all_env e)) as H1. cbn beta in H1. rewrite He in H1.
  pose proof (fa _ _ b H1 (in_all_beh b)) as H2. exact (fa _ _ j H2 Hj).
Qed.

(* ... and the restarted daemon's first idle update has removed the placeholder the killed transfer left behind *)
Definition f_tidy (i : item) : bool := if pre_transfer i then forallb (fun e => if good_env e then forallb (fun b =>
   forallb (fun j => negb (ph (rounds 3 e (killed j)))) (all_crash_states e b i)) all_beh else true) all_env else true.
Lemma chk_tidy_true : forallb f_tidy all_items = true. Proof. vm_cast_no_check (eq_refl true). Qed.
Lemma no_stale_placeholder i e b j : pre_transfer i = true -> good_env e = true -> In j (all_crash_states e b i) -> ph (rounds 3 e (killed j)) = false.
Proof.
  intros Hp He Hj. pose proof (fa f_tidy all_items i chk_tidy_true (in_all_items i)) as H. unfold f_tidy in H. rewrite Hp in H.
  pose proof (fa _ _ e H (in_all_env e)) as H1. cbn beta in H1. rewrite He in H1.
  pose proof (fa _ _ b H1 (in_all_beh b)) as H2. apply negb_true_iff. exact (fa _ _ j H2 Hj).
Qed.
Definition pre_release (i : item) := safe i && negb (rstate_eqb (req i) Pending) && match dst_row i with Some (h, WN) => negb (is_n h) | _ => false end.
Definition gone (x : item) := row_eqb (dst_row x) (Some (HN, WN)) && obytes_eqb (dst_disk x) None.
Definition f_release (i : item) : bool := if pre_release i then forallb (fun e => if dst_usable e && del_ok e then forallb (fun b =>
   forallb (fun j => gone (rounds 1 e j)) (all_crash_states e b i)) all_beh else true) all_env else true.
Lemma chk_release_true : forallb f_release all_items = true. Proof. vm_cast_no_check (eq_refl true). Qed.
Lemma release_recovers i e b j : pre_release i = true -> dst_usable e = true -> del_ok e = true -> In j (all_crash_states e b i) -> gone (rounds 1 e j) = true.
Proof.
  intros Hp Hu Hd Hj. pose proof (fa f_release all_items i chk_release_true (in_all_items i)) as H. unfold f_release in H. rewrite Hp in H.
  pose proof (fa _ _ e H (in_all_env e)) as H1. cbn beta in H1. rewrite Hu, Hd in H1.
  pose proof (fa _ _ b H1 (in_all_beh b)) as H2. exact (fa _ _ j H2 Hj).
Qed.

Definition pre_check (i : item) := safe i && is_m (dst_state i) && wants_ok i.
Definition f_check (i : item) : bool := if pre_check i then forallb (fun e => if dst_usable e then forallb (fun b =>
   forallb (fun j => negb (is_m (dst_state (rounds 1 e j)))) (all_crash_states e b i)) all_beh else true) all_env else true.
Lemma chk_check_true : forallb f_check all_items = true. Proof. vm_cast_no_check (eq_refl true). Qed.
Lemma check_recovers i e b j : pre_check i = true -> dst_usable e = true -> In j (all_crash_states e b i) -> is_m (dst_state (rounds 1 e j)) = false.
Proof.
  intros Hp Hu Hj. pose proof (fa f_check all_items i chk_check_true (in_all_items i)) as H. unfold f_check in H. rewrite Hp in H.
  pose proof (fa _ _ e H (in_all_env e)) as H1. cbn beta in H1. rewrite Hu in H1.
  pose proof (fa _ _ b H1 (in_all_beh b)) as H2. apply negb_true_iff. exact (fa _ _ j H2 Hj).
Qed.

(* ---- C05: fixed point within four rounds, and what is left is blocked for a documented reason ---- *)
Definition fixed (e : env) (i : item) := item_eqb (round e BWorks i) i.
Definition classified (e : env) (x : item) : bool :=
  (if src_active e then negb (is_m (src_has x)) else true)
  && (if dst_usable e then (negb (is_m (dst_state x)) || negb (wants_ok x)) else true)
  && (if dst_usable e then match dst_row x with Some (h, WN) => is_n h || negb (del_ok e) | _ => true end else true)
  && (match req x with Pending => match blocked e x with Some _ => true | None => false end | _ => true end).
Definition conv_ok (i : item) (e : env) : bool := fixed e (rounds 4 e i) && classified e (rounds 4 e i).
Lemma chk_converge_true : forallb (fun i => forallb (conv_ok i) all_env) all_items = true. Proof. vm_cast_no_check (eq_refl true). Qed.
Lemma converges e i : fixed e (rounds 4 e i) = true /\ classified e (rounds 4 e i) = true.
Proof.
  apply andb_true_iff. exact (fa (conv_ok i) all_env e (fa (fun i => forallb (conv_ok i) all_env) all_items i chk_converge_true (in_all_items i)) (in_all_env e)).
Qed.
Lemma item_eqb_eq a b : item_eqb a b = true -> a = b.
Proof.
  destruct a as [a1 a2 a3 a4 a5 a6 a7 a8 a9], b as [b1 b2 b3 b4 b5 b6 b7 b8 b9]. unfold item_eqb. cbn [src_has src_disk dst_row dst_disk ph tmp stg req due].
  intros H. repeat (apply andb_true_iff in H as [H ?]).
  assert (a1 = b1) by (destruct a1, b1; try discriminate; reflexivity).
  assert (a2 = b2) by (destruct a2 as [[|]|], b2 as [[|]|]; try discriminate; reflexivity).
  assert (a3 = b3).
  { destruct a3 as [[h w]|], b3 as [[h' w']|]; try discriminate; [|reflexivity].
    match goal with Hr : row_eqb _ _ = true |- _ => cbn in Hr; apply andb_true_iff in Hr as [Hh Hw] end.
    destruct h, h'; try discriminate; destruct w, w'; try discriminate; reflexivity. }
  assert (a4 = b4) by (destruct a4 as [[|]|], b4 as [[|]|]; try discriminate; reflexivity).
  assert (a5 = b5) by (destruct a5, b5; try discriminate; reflexivity).
  assert (a6 = b6) by (destruct a6, b6; try discriminate; reflexivity).
  assert (a7 = b7) by (destruct a7, b7; try discriminate; reflexivity).
  assert (a8 = b8) by (destruct a8, b8; try discriminate; reflexivity).
  assert (a9 = b9) by (destruct a9, b9; try discriminate; reflexivity).
  subst. reflexivity.
Qed.
Lemma rounds_plus n m e i : rounds (n + m) e i = rounds m e (rounds n e i).
Proof. revert i; induction n as [|n IH]; intros i; cbn [Nat.add rounds]; [reflexivity | apply IH]. Qed.
Lemma stays_fixed e x : fixed e x = true -> forall n, rounds n e x = x.
Proof. intros H n. apply item_eqb_eq in H. induction n as [|n IH]; cbn [rounds]; [reflexivity | rewrite H; exact IH]. Qed.
(* ... and every later round changes nothing *)
Lemma quiescent_forever e i n : rounds (4 + n) e i = rounds 4 e i.
Proof. rewrite rounds_plus. apply stays_fixed. apply converges. Qed.

Definition ex_item : item := {| src_has := HY; src_disk := Some Good; dst_row := None; dst_disk := None; ph := false; tmp := false; stg := false; req := Pending; due := true |}.
Definition ex_env : env := {| src_active := true; dst_usable := true; gate_ok := true; rt := Tool; te := {| trusted := true; inproc := false |}; del_ok := false |}.
Lemma example_item : pre_transfer ex_item = true /\ good_env ex_env = true /\ length (all_crash_states ex_env (BFail true LPartial) ex_item) = 8
  /\ dst_row (rounds 1 ex_env ex_item) = Some (HY, WY) /\ req (rounds 1 ex_env ex_item) = Completed.
Proof. vm_compute. repeat split; reflexivity. Qed.

Lemma fixed_point_within_four e i : round e BWorks (rounds 4 e i) = rounds 4 e i.
Proof. apply item_eqb_eq. apply converges. Qed.
Lemma residual_work_is_blocked e i : let x := rounds 4 e i in
  (src_active e = true -> src_has x <> HM) /\
  (dst_usable e = true -> dst_state x = HM -> wants_of x = WN) /\
  (dst_usable e = true -> forall h, dst_row x = Some (h, WN) -> h = HN \/ del_ok e = false) /\
  (req x = Pending -> exists r, blocked e x = Some r).
Proof.
  intros x. pose proof (proj2 (converges e i)) as H. fold x in H. unfold classified in H.
  apply andb_true_iff in H as [H H4]. apply andb_true_iff in H as [H H3]. apply andb_true_iff in H as [H1 H2].
  split; [|split; [|split]].
  - intros Ha. rewrite Ha in H1. intros Hm. rewrite Hm in H1. discriminate.
  - intros Hu Hm. rewrite Hu in H2. rewrite Hm in H2. unfold wants_ok in H2. destruct (wants_of x); cbn in H2; try discriminate; reflexivity.
  - intros Hu h Hr. rewrite Hu, Hr in H3. apply orb_true_iff in H3 as [Hn|Hd]; [left; destruct h; try discriminate; reflexivity | right; destruct (del_ok e); [discriminate | reflexivity]].
  - intros Hp. rewrite Hp in H4. destruct (blocked e x) as [r|]; [exists r; reflexivity | discriminate].
Qed.
Lemma reasons_are_genuine e i r : blocked e i = Some r ->
  match r with
  | NoUsableNode => dst_usable e = false
  | DestinationAwaitingCheck => dst_state i = HM
  | SourceInactive => src_active e = false
  | SourceSuspect => src_has i = HM
  | DestinationFull => gate_ok e = false
  | NoTransportRoute => rt e <> Tool
  end.
Proof.
  unfold blocked.
  destruct (dst_usable e) eqn:E1; cbn [negb]; [|intros H; injection H as <-; reflexivity].
  destruct (is_m (dst_state i)) eqn:E2; [intros H; injection H as <-; destruct (dst_state i); try discriminate; reflexivity|].
  destruct (src_active e) eqn:E3; cbn [negb]; [|intros H; injection H as <-; reflexivity].
  destruct (is_m (src_has i)) eqn:E4; [intros H; injection H as <-; destruct (src_has i); try discriminate; reflexivity|].
  destruct (gate_ok e) eqn:E5; cbn [negb]; [|intros H; injection H as <-; reflexivity].
  destruct (rt e) eqn:E6; intros H; try discriminate; injection H as <-; discriminate.
Qed.
Lemma example_converge : rounds 1 ex_env ex_item = rounds 4 ex_env ex_item /\ req (rounds 1 ex_env ex_item) = Completed.
Proof. vm_compute. split; reflexivity. Qed.

(* ---- C08: the index keeps agreeing with storage across every complete task ---- *)
Lemma task_script_ind (P : list mop -> Prop) e b i t :
  task_pre t i = true ->
  P (check_src_script i) -> P (check_dst_script i) -> P [ReqSet Cancelled] -> P [] ->
  (already_in_group (dst_state i) = false -> P mark_suspect_script) ->
  (wants_eqb (wants_of i) WN = true -> P (delete_script i)) ->
  (src_has i = HY -> P (pull_script (rt e) (te e) b i)) ->
  P [PhRemove] ->
  P (task_script e b i t).
Proof.
  intros Hp P1 P2 P3 P4 P5 P6 P7 P8.
  assert (Hy : match t with TSearchPull | TPullForce => src_has i = HY | _ => True end).
  { destruct t; cbn in Hp |- *; auto; destruct (src_has i); try discriminate; reflexivity. }
  destruct t; cbn [task_script].
  - exact P1.
  - exact P2.
  - destruct (del_ok e); [apply P6; exact Hp | exact P4].
  - unfold group_search. destruct (already_in_group (dst_state i)) eqn:Ea; [exact P3|].
    destruct (dst_disk i); [apply P5; reflexivity|]. unfold pull_gate. destruct (gate_ok e); [apply P7, Hy | exact P4].
  - unfold pull_gate. destruct (gate_ok e); [apply P7, Hy | exact P4].
  - destruct (ph i); [exact P8 | exact P4].
Qed.
Definition f_run_pull (i : item) : bool := if safe i && is_y (src_has i) then forallb (fun r => forallb (fun e => forallb (fun b =>
   safe (run (pull_script r e b i) i)) all_beh) all_tenv) all_route else true.
Lemma chk_run_pull_true : forallb f_run_pull all_items = true. Proof. vm_cast_no_check (eq_refl true). Qed.
Definition f_run_simple (i : item) : bool := if safe i then
   safe (run (check_src_script i) i) && safe (run (check_dst_script i) i) && safe (run [ReqSet Cancelled] i) && safe (run [] i)
   && (if already_in_group (dst_state i) then true else safe (run mark_suspect_script i))
   && (if wants_eqb (wants_of i) WN then safe (run (delete_script i) i) && gone (run (delete_script i) i) else true) && safe (run [PhRemove] i) else true.
Lemma chk_run_simple_true : forallb f_run_simple all_items = true. Proof. vm_cast_no_check (eq_refl true). Qed.
Lemma task_run_safe e b i t : safe i = true -> task_pre t i = true -> safe (run_task e b i t) = true.
Proof.
  intros Hs Hp. unfold run_task.
  pose proof (fa f_run_simple all_items i chk_run_simple_true (in_all_items i)) as H. unfold f_run_simple in H. rewrite Hs in H.
  apply andb_true_iff in H as [H Htidy].
  apply andb_true_iff in H as [H Hdel]. apply andb_true_iff in H as [H Hmark]. apply andb_true_iff in H as [H Hnil].
  apply andb_true_iff in H as [H Hcancel]. apply andb_true_iff in H as [Hcs Hcd].
  apply (task_script_ind (fun l => safe (run l i) = true) e b i t Hp); auto.
  - intros Ea. rewrite Ea in Hmark. exact Hmark.
  - intros Ew. rewrite Ew in Hdel. apply andb_true_iff in Hdel. apply Hdel.
  - intros Hy. pose proof (fa f_run_pull all_items i chk_run_pull_true (in_all_items i)) as G. unfold f_run_pull in G. rewrite Hs, Hy in G. cbn [is_y has_eqb andb] in G.
    exact (fa _ _ b (fa _ _ (te e) (fa _ _ (rt e) G (in_all_route _)) (in_all_tenv _)) (in_all_beh _)).
Qed.
(* a copy the daemon records as removed is gone from disk *)
Lemma delete_leaves_nothing i : safe i = true -> wants_of i = WN -> gone (run (delete_script i) i) = true.
Proof.
  intros Hs Hw. pose proof (fa f_run_simple all_items i chk_run_simple_true (in_all_items i)) as H. unfold f_run_simple in H. rewrite Hs, Hw in H.
  cbn [wants_eqb] in H. apply andb_true_iff in H as [H _]. apply andb_true_iff in H as [_ H]. apply andb_true_iff in H. apply H.
Qed.
