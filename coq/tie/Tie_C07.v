From Coq Require Import List NArith Bool.
From Alp Require Import Base.Str Base.Types Model.Locality.
From Run Require Gen_locality.
Lemma tie_check_init n l : n_marker n = MLine l -> check_init n = Gen_locality.g_marker_ok (n_name n) l.
Proof. intros H. unfold check_init. rewrite H. reflexivity. Qed.
