(* Feasibility sketch: C10/C12 — Task.__call__ / do_cleanup / Worker.run error path.
   A task body is a list of actions; a fault oracle says which DB statements raise OperationalError. *)
From Coq Require Import List Arith Bool Lia.
Import ListNotations.

Definition stmt := nat.                                   (* statement identity, for the fault oracle *)
Inductive act :=
| Stmt (s : stmt)                                         (* a DB statement *)
| Reg (first : bool) (id : nat) (body : list stmt).       (* task.on_cleanup(f, first=...) ; f runs [body] *)
Record cleanup := { cl_id : nat; cl_body : list stmt }.

Section W.
  Variable fault : stmt -> bool.

  (* run statements until one faults *)
  Fixpoint run_stmts (l : list stmt) : bool (* true = raised OperationalError *) :=
    match l with [] => false | s :: l' => if fault s then true else run_stmts l' end.

  (* Task body (non-generator): returns (raised?, cleanup deque) *)
  Fixpoint run_body (acts : list act) (dq : list cleanup) : bool * list cleanup :=
    match acts with
    | [] => (false, dq)
    | Stmt s :: t => if fault s then (true, dq) else run_body t dq
    | Reg first id b :: t =>
        let c := {| cl_id := id; cl_body := b |} in
        run_body t (if first then c :: dq else dq ++ [c])
    end.

  (* Task.do_cleanup: while deque: pop left, call.  Returns (raised?, remaining deque, ids started in order) *)
  Fixpoint do_cleanup (dq : list cleanup) : bool * list cleanup * list nat :=
    match dq with
    | [] => (false, [], [])
    | c :: dq' =>
        if run_stmts (cl_body c) then (true, dq', [cl_id c])
        else let '(r, rest, started) := do_cleanup dq' in (r, rest, cl_id c :: started)
    end.

  (* Worker.run error path: while True: try do_cleanup; break except OperationalError: pass *)
  Fixpoint cleanup_loop (fuel : nat) (dq : list cleanup) : list nat :=
    match fuel with
    | O => []
    | S f => let '(r, rest, started) := do_cleanup dq in
             if r then started ++ cleanup_loop f rest else started
    end.

  Record result := { started : list nat; task_done_calls : nat; worker_exits : bool; global_abort : bool }.

  (* one iteration of Worker.run for a plain (non-yielding) task *)
  Definition worker_iteration (acts : list act) : result :=
    let '(raised, dq) := run_body acts [] in
    if raised then
      {| started := cleanup_loop (S (length dq)) dq; task_done_calls := 1; worker_exits := true; global_abort := false |}
    else
      let '(r, rest, st) := do_cleanup dq in
      if r then {| started := st ++ cleanup_loop (S (length rest)) rest; task_done_calls := 1; worker_exits := true; global_abort := false |}
      else {| started := st; task_done_calls := 1; worker_exits := false; global_abort := false |}.

  (* do_cleanup starts a prefix of the deque; the rest is exactly what it leaves behind *)
  Lemma do_cleanup_split dq :
    let '(r, rest, st) := do_cleanup dq in
    map cl_id dq = st ++ map cl_id rest /\ (r = false -> rest = []) /\ (r = true -> length rest < length dq).
  Proof.
    induction dq as [|c dq IH]; cbn [do_cleanup]; [repeat split; auto; discriminate|].
    destruct (run_stmts (cl_body c)).
    - cbn. repeat split; auto; discriminate.
    - destruct (do_cleanup dq) as [[r rest] st]. destruct IH as (A & B & C). cbn [map app].
      repeat split; [f_equal; exact A | exact B | intros E; specialize (C E); cbn; lia].
  Qed.

  Lemma cleanup_loop_all fuel : forall dq, length dq < fuel -> cleanup_loop fuel dq = map cl_id dq.
  Proof.
    induction fuel as [|f IH]; intros dq H; [lia|]. cbn [cleanup_loop].
    pose proof (do_cleanup_split dq) as S. destruct (do_cleanup dq) as [[r rest] st].
    destruct S as (A & B & C). destruct r.
    - rewrite IH by (specialize (C eq_refl); lia). symmetry; exact A.
    - rewrite (B eq_refl) in A. cbn in A. rewrite app_nil_r in A. symmetry; exact A.
  Qed.

  (* Every clean-up registered before the fault is started exactly once, in deque order, whatever faults:
     [started] is exactly the id list of the deque the body left. *)
  Theorem cleanup_exactly_once acts :
    started (worker_iteration acts) = map cl_id (snd (run_body acts [])) /\
    task_done_calls (worker_iteration acts) = 1 /\ global_abort (worker_iteration acts) = false.
  Proof.
    unfold worker_iteration. destruct (run_body acts []) as [raised dq]. cbn [snd].
    destruct raised.
    - cbn [started task_done_calls global_abort]. split; [apply cleanup_loop_all; lia | split; reflexivity].
    - pose proof (do_cleanup_split dq) as S. destruct (do_cleanup dq) as [[r rest] st].
      destruct S as (A & B & C). destruct r; cbn [started task_done_calls global_abort].
      + split; [|split; reflexivity]. rewrite cleanup_loop_all by lia. symmetry; exact A.
      + split; [|split; reflexivity]. rewrite (B eq_refl) in A. cbn in A. rewrite app_nil_r in A. symmetry; exact A.
  Qed.
End W.
Print Assumptions cleanup_exactly_once.
