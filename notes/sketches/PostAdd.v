(* Feasibility sketch: C16 — ioutil.post_add (repaired: self-loops ignored in both halves). *)
From Coq Require Import List NArith ZArith Bool Lia.
Import ListNotations.

Inductive has := HY | HM | HX | HN.
Inductive wants := WY | WM | WN.
Definition has_eqb (a b : has) : bool := match a, b with HY,HY | HM,HM | HX,HX | HN,HN => true | _,_ => false end.
Definition wants_eqb (a b : wants) : bool := match a, b with WY,WY | WM,WM | WN,WN => true | _,_ => false end.

Record copy := { c_file : N; c_node : N; c_has : has; c_wants : wants; c_upd : Z }.
Record req := { r_file : N; r_from : N; r_to : N }.
Record rule := { u_from : N; u_to : N; u_sync : bool; u_clean : bool }.

Section PostAdd.
  Variable group_of : N -> N.                       (* node -> its group *)

  (* StorageGroup.state_on_node: Y wins, then M, then X, else N *)
  Definition in_group (g : N) (f : N) (c : copy) : bool := N.eqb (c_file c) f && N.eqb (group_of (c_node c)) g.
  Definition state_on_group (cs : list copy) (g f : N) : has :=
    let l := filter (in_group g f) cs in
    if existsb (fun c => has_eqb (c_has c) HY) l then HY
    else if existsb (fun c => has_eqb (c_has c) HM) l then HM
    else if existsb (fun c => has_eqb (c_has c) HX) l then HX else HN.

  (* autosync half: one request per edge node -> g (g <> group node) whose group lacks a healthy copy *)
  Definition sync_edge (cs : list copy) (n f : N) (u : rule) : bool :=
    N.eqb (u_from u) n && negb (N.eqb (u_to u) (group_of n)) && u_sync u
    && negb (has_eqb (state_on_group cs (u_to u) f) HY).
  Definition new_reqs (cs : list copy) (rules : list rule) (n f : N) : list req :=
    map (fun u => {| r_file := f; r_from := n; r_to := u_to u |}) (filter (sync_edge cs n f) rules).

  (* autoclean half: release (f, m) in state Y/Y when m -> group n is an autoclean edge, m <> n, and m is not in group n *)
  Definition clean_edge (n : N) (u : rule) : bool :=
    N.eqb (u_to u) (group_of n) && negb (N.eqb (u_from u) n) && u_clean u
    && negb (N.eqb (group_of (u_from u)) (u_to u)).                    (* self-loop test: the repair *)
  Definition released (rules : list rule) (n f : N) (c : copy) : bool :=
    N.eqb (c_file c) f && has_eqb (c_has c) HY && wants_eqb (c_wants c) WY
    && existsb (fun u => clean_edge n u && N.eqb (u_from u) (c_node c)) rules.
  Definition release (now : Z) (c : copy) : copy :=
    {| c_file := c_file c; c_node := c_node c; c_has := c_has c; c_wants := WN; c_upd := now |}.

  Definition post_add (now : Z) (rules : list rule) (n f : N) (cs : list copy) (rs : list req) : list copy * list req :=
    (map (fun c => if released rules n f c then release now c else c) cs, rs ++ new_reqs cs rules n f).

  (* ---- exactness: what changes, and that nothing else does ---- *)
  Theorem requests_only_appended now rules n f cs rs :
    exists extra, snd (post_add now rules n f cs rs) = rs ++ extra /\
      length extra = length (filter (sync_edge cs n f) rules) /\
      Forall (fun r => r_file r = f /\ r_from r = n /\ r_to r <> group_of n) extra.
  Proof.
    exists (new_reqs cs rules n f). cbn [post_add snd]. split; [reflexivity|]. split.
    - unfold new_reqs. apply map_length.
    - unfold new_reqs. rewrite Forall_map, Forall_forall. intros u Hu. apply filter_In in Hu as [_ Hu].
      cbn. repeat split. unfold sync_edge in Hu.
      apply andb_prop in Hu as [Hu _]. apply andb_prop in Hu as [Hu _]. apply andb_prop in Hu as [_ Hu].
      intros E. rewrite E, N.eqb_refl in Hu. discriminate.
  Qed.

  Theorem copies_frame now rules n f cs rs :
    Forall2 (fun c c' => c_file c' = c_file c /\ c_node c' = c_node c /\ c_has c' = c_has c /\
                         (released rules n f c = false -> c' = c) /\
                         (released rules n f c = true -> c_wants c' = WN))
            cs (fst (post_add now rules n f cs rs)).
  Proof.
    cbn [post_add fst]. induction cs as [|c cs IH]; cbn [map]; constructor; [|exact IH].
    destruct (released rules n f c); cbn; repeat split; try congruence.
  Qed.

  (* self-loops never release anything: a rule whose source node belongs to the receiving group is ignored *)
  Theorem self_loop_ignored n u : group_of (u_from u) = u_to u -> clean_edge n u = false.
  Proof. intros E. unfold clean_edge. rewrite E, N.eqb_refl. cbn. rewrite andb_false_r. reflexivity. Qed.

  (* only healthy wanted copies of this file on the source of an autoclean edge are touched *)
  Theorem released_only_if rules n f c :
    released rules n f c = true ->
    c_file c = f /\ c_has c = HY /\ c_wants c = WY /\
    exists u, In u rules /\ u_clean u = true /\ u_to u = group_of n /\ u_from u = c_node c /\ c_node c <> n /\
              group_of (c_node c) <> group_of n.
  Proof.
    unfold released. intros H.
    apply andb_prop in H as [H He]. apply andb_prop in H as [H Hw]. apply andb_prop in H as [Hf Hh].
    apply N.eqb_eq in Hf. destruct (c_has c); try discriminate. destruct (c_wants c); try discriminate.
    repeat split; auto. apply existsb_exists in He as (u & Hin & Hu).
    apply andb_prop in Hu as [Hc Hn]. apply N.eqb_eq in Hn. unfold clean_edge in Hc.
    apply andb_prop in Hc as [Hc Hl]. apply andb_prop in Hc as [Hc Hcl]. apply andb_prop in Hc as [Hto Hne].
    apply N.eqb_eq in Hto. exists u. repeat split; auto.
    - intros E. rewrite Hn, E, N.eqb_refl in Hne. discriminate.
    - intros E. rewrite Hn, E, Hto, N.eqb_refl in Hl. discriminate.
  Qed.
End PostAdd.
Print Assumptions released_only_if.
