"""C07 — locality: a daemon only modifies local, active, initialised nodes."""
import ast
import os
import pathlib

from vf import core
from vf.core import cbool, clist, cstr, ctup
from vf.translate import core as T
from vf.harness import histories
from vf.harness import world as w

TRUSTED = [
    "Coq 8.16.1 kernel + VM; no native_compute",
    "translator vf/translate for the marker comparison of DefaultNodeIO.check_init (incl. str.rstrip, modelled per code point and compared with Python on random strings); the node query of "
    "update_loop, the tests of UpdateableNode.check_init, the pending-request look-up and the exclusive-create mode of DefaultNodeIO.init are pinned textually",
    "the daemon simulation (several hosts on one index, every mutating os-level call attributed to the iterating host); modelled, not verified: tasks queued for a node keep running on it "
    "if it is deactivated later in the same iteration (the theorems speak about the state when the iteration began); HSM nodes have no marker (check_init is constantly true there)",
]
RULE = ("random node tables (host assignment x active flag x marker absent / unreadable / empty / naming another node / own name with every kind of trailing white space) x init requests: one "
        "iteration of the real update_loop per host, managed set (probe: a suspect copy gets its verdict), markers and request completion compared with the model in Coq; random histories "
        "(activation flips, group changes, init requests, transfers, cleaning) with every mutating file-system call attributed to the iterating host and every index row of nodes the host "
        "does not manage compared before/after; non-trivial = at least one node is not managed by the iterating host; distinct by full input")

SPACES = [" ", "\t", "\n", "\r", "\x0b", "\x0c", "\x1c", "\x1f", "\x85", "\xa0", " ", " ", " ", " ", " ", "　"]
NONSPACES = ["a", "n", "1", "_", "​", "\x00", "\u0084", "\x1b", "᠎"]


def cs(s):
    return "(@nil N)" if not s else "[" + "; ".join(str(ord(c)) for c in s) + "]%N"


# ---- T1 -------------------------------------------------------------------------------------------------------------------
def gen(ctx):
    d = T.parse(core.REPO / "alpenhorn/io/default.py")
    u = T.parse(core.REPO / "alpenhorn/daemon/update.py")
    out = [T.nth_test(d, "DefaultNodeIO.check_init", 0, {"first_line": "str"}, "g_marker_ok", ["name", "first_line"], atoms={"self.node.name": ("name", "str")}, expect_count=1)]
    ci = ast.unparse(T.find_func(d, "DefaultNodeIO.check_init"))
    for frag in ("with self.open('ALPENHORN_NODE', binary=False) as f:", "first_line = f.readline()", "except OSError:", "return False"):
        if frag not in ci:
            raise T.Untranslatable(f"UNTRANSLATABLE: DefaultNodeIO.check_init no longer contains `{frag}`")
    init = ast.unparse(T.find_func(d, "DefaultNodeIO.init"))
    if [ast.unparse(x.test) for x in T.if_tests(T.find_func(d, "DefaultNodeIO.init"))] != ["self.check_init()"] or "mode='x'" not in init or "joinpath('ALPENHORN_NODE')" not in init:
        raise T.Untranslatable("UNTRANSLATABLE: DefaultNodeIO.init no longer checks first and creates the marker exclusively")
    tests = [ast.unparse(x.test) for x in T.if_tests(T.find_func(u, "UpdateableNode.check_init"))]
    if tests != ["node.io.check_init()", "node.io.init() and node.io.check_init()", "not self.db.active", "self.io.check_init()"]:
        raise T.Untranslatable(f"UNTRANSLATABLE: the tests of UpdateableNode.check_init changed: {tests}")
    uc = ast.unparse(T.find_func(u, "UpdateableNode.check_init"))
    if "ArchiveFileImportRequest.get(node=self.db, path='ALPENHORN_NODE', completed=0)" not in uc:
        raise T.Untranslatable("UNTRANSLATABLE: the look-up of the pending init request changed")
    loop = ast.unparse(T.find_func(u, "update_loop"))
    for frag in ("StorageNode.select().where(StorageNode.host == host, StorageNode.active == True)", "host = util.get_hostname()", "if not node.check_init():\n                del nodes[name]"):
        if frag not in loop:
            raise T.Untranslatable(f"UNTRANSLATABLE: update_loop no longer contains `{frag}`")
    gh = T.strip_doc(T.find_func(T.parse(core.REPO / "alpenhorn/common/util.py"), "get_hostname").body)
    if [ast.unparse(x) for x in gh] != ["if config.config is not None and 'hostname' in config.config.get('base', {}):\n    return config.config['base']['hostname']", "return socket.gethostname().split('.')[0]"]:
        raise T.Untranslatable(f"UNTRANSLATABLE: util.get_hostname no longer returns the configured name unchanged (else the machine's first label): {[ast.unparse(x) for x in gh]}")
    loc = ast.unparse(T.find_func(T.parse(core.REPO / "alpenhorn/db/storage.py"), "StorageNode.local"))
    if "return self.host == util.get_hostname()" not in loc:
        raise T.Untranslatable("UNTRANSLATABLE: StorageNode.local changed")
    header = T.HEADER.replace("From Alp Require Import Base.Str Base.Types.", "From Alp Require Import Base.Str Base.Types Model.Locality.")
    return {"Gen_locality": header + "\n".join(out) + "\n"}


def proofs(ctx):
    try:
        files = gen(ctx)
    except T.Untranslatable as e:
        ctx.broke("translator", "check_init / init / update_loop node query", str(e))
        files = None
    if files:
        core.check_tie(ctx, files, ["Tie_C07"])
    core.check_property_file(ctx, "C07.v")


# ---- direct: one iteration on a random node table -----------------------------------------------------------------------------
MARKERS = ["own", "own", "own", "absent", "dir", "empty", "other", "own+space", "own+junk", "prefix"]


def gen_table(rng):
    nodes = []
    for k in range(rng.randint(2, 5)):
        name = f"n{k}"
        mk = rng.choice(MARKERS)
        if mk == "own":
            content = name + "\n"
        elif mk == "own+space":
            content = name + "".join(rng.choice(SPACES) for _ in range(rng.randint(1, 3))) + rng.choice(["", "\n"])
        elif mk == "own+junk":
            content = name + rng.choice(NONSPACES) + "\n"
        elif mk == "prefix":
            content = rng.choice([" " + name + "\n", name + "\nmore\n", "\n" + name + "\n"])
        elif mk == "other":
            content = rng.choice(["someone-else\n", "n9\n", name.upper() + "\n"])
        elif mk == "empty":
            content = ""
        else:
            content = None
        nodes.append({"name": name, "host": rng.choice(["h1", "h1", "h2", "H1", "h1.example.org"]), "active": rng.random() < 0.8, "marker": mk, "content": content,
                      "init_req": rng.random() < 0.5, "init_done": rng.random() < 0.35})
    # the daemon's own (configured) host name is compared as a whole: a dotted name is not its first label
    return {"host": rng.choice(["h1", "h1", "h1.example.org", "H1"]), "nodes": nodes}


def read_marker(root):
    p = pathlib.Path(root, "ALPENHORN_NODE")
    if not p.exists() and not p.is_symlink():
        return ("absent", None)
    if p.is_dir():
        return ("dir", None)
    with open(p, "r", encoding="utf-8", newline=None) as f:
        return ("line", f.readline())


def cmarker(m):
    return {"absent": "MAbsent", "dir": "MUnreadable"}.get(m[0]) or f"(MLine {cs(m[1])})"


def run_table(ctx, base, table):
    from vf.harness import daemon

    spec = {"groups": [{"name": f"g{k}"} for k in range(len(table["nodes"]))], "nodes": [], "acqs": ["acq"], "files": [{"acq": "acq", "name": "probe", "size": 7}], "copies": [], "ireqs": []}
    for k, n in enumerate(table["nodes"]):
        spec["nodes"].append({"name": n["name"], "group": f"g{k}", "stype": "A", "host": n["host"], "active": n["active"], "marker": None})
        spec["copies"].append({"file": 0, "node": n["name"], "has": "M", "wants": "Y", "disk": "ok"})
        if n["init_req"]:
            spec["ireqs"].append({"node": n["name"], "path": "ALPENHORN_NODE", "recurse": False, "register": False})
    sim = daemon.Sim(base / "loc", spec)
    try:
        for n in table["nodes"]:
            root = pathlib.Path(sim.nodes[n["name"]].root)
            if n["marker"] == "dir":
                (root / "ALPENHORN_NODE").mkdir()
            elif n["content"] is not None:
                daemon._real["builtins.open"](root / "ALPENHORN_NODE", "w", encoding="utf-8", newline="").write(n["content"])
        for n in table["nodes"]:
            if n["init_req"] and n.get("init_done"):
                # the request was served long ago (say, before the storage behind the node was swapped): nothing is pending
                w.ArchiveFileImportRequest.update(completed=True).where(w.ArchiveFileImportRequest.node == sim.nodes[n["name"]], w.ArchiveFileImportRequest.path == "ALPENHORN_NODE").execute()
        before = {n["name"]: read_marker(sim.nodes[n["name"]].root) for n in table["nodes"]}
        trees0 = sim.trees()
        res = sim.iterate(table["host"])
        if res["error"]:
            ctx.fail("C07:daemon-died", f"the daemon died: {res['error'][:300]}", {"family": "table", "table": table})
        managed, after, done = [], [], []
        for n in table["nodes"]:
            c = w.ArchiveFileCopy.get(node=sim.nodes[n["name"]], file=sim.files[0][0])
            managed.append(c.has_file != "M")
            after.append(read_marker(sim.nodes[n["name"]].root))
            r = w.ArchiveFileImportRequest.get_or_none(node=sim.nodes[n["name"]], path="ALPENHORN_NODE")
            done.append(bool(r.completed) and not n.get("init_done") if r is not None else False)  # completed by this iteration
        # the statement, directly
        trees1 = sim.trees()
        for n, m, b, a in zip(table["nodes"], managed, before.values(), after):
            local = n["host"] == table["host"] and n["active"]
            ok_marker = b[0] == "line" and b[1].rstrip() == n["name"]
            if m and not (local and ok_marker):
                ctx.fail("C07:foreign-node", f"node {n['name']} (host {n['host']}, active={n['active']}, marker {b}) was verified by the daemon of {table['host']}", {"family": "table", "table": table})
            if a != b and not (local and n["init_req"] and not n.get("init_done") and b[0] == "absent"):
                ctx.fail("C07:marker-overwritten", f"marker of node {n['name']} changed from {b} to {a} (local={local}, init requested={n['init_req']})", {"family": "table", "table": table})
            if not (local and ok_marker) and not (local and n["init_req"] and not n.get("init_done") and b[0] == "absent") and trees0[n["name"]] != trees1[n["name"]]:
                ctx.fail("C07:foreign-node", f"the tree of node {n['name']} (not managed by {table['host']}) changed", {"family": "table", "table": table})
        term = ("(CIter " + cs(table["host"]) + " " + clist([ctup(f"(ND {cs(n['name'])} {cs(n['host'])} {cbool(n['active'])} {cmarker(before[n['name']])})", cbool(n["init_req"] and not n.get("init_done"))) for n in table["nodes"]], "(node * bool)")
                + " " + clist([cbool(x) for x in managed], "bool") + " " + clist([cmarker(a) for a in after], "marker") + " " + clist([cbool(x) for x in done], "bool") + ")")
        return term, managed
    finally:
        sim.shutdown()


# ---- histories -----------------------------------------------------------------------------------------------------------------
def copy_rows():
    return {c.id: (c.node.name, c.file_id, c.has_file, c.wants_file) for c in w.ArchiveFileCopy.select()}


def run_history(ctx, base, spec, ops):
    from vf.harness import daemon, monitors

    sim = daemon.Sim(base / "hist", spec)
    sim.set_tools("both")
    rp = {"family": "history", "spec": spec, "ops": [list(o) for o in ops]}
    mon = monitors.Monitors(sim, ctx, rp)
    foreign = 0
    try:
        def node_ident():
            return {n.name: (n.host, bool(n.active), n.group_id, n.root, n.storage_type) for n in w.StorageNode.select()}

        for op in ops:
            if op[0] in ("iter", "late"):
                host = op[1]
                ready = set(sim.local_ready_nodes(host))
                before = copy_rows()
                trees0 = sim.trees()
                ident = {"v": node_ident()}
                if op[0] == "late":
                    # the operator changes node records after the daemon has read them (main loop done, queued tasks still to run)
                    def late(sub=op[2]):
                        for o in sub:
                            histories.apply_op(sim, mon, tuple(o))
                        ident["v"] = node_ident()
                    sim.before_tasks = late
                    res = sim.iterate(host)
                    sim.before_tasks = None
                else:
                    res = histories.apply_op(sim, mon, op)
                now = node_ident()
                for name, v in ident["v"].items():
                    if now.get(name) != v:
                        mon.fail("C07:node-record-overwritten", f"an iteration of the daemon on {host} changed the record of node {name} from (host, active, group, root, type) = {v} to {now.get(name)}"
                                 + (" — undoing what the operator had just set" if op[0] == "late" else ""))
                if res["error"]:
                    mon.fail("daemon-died", f"daemon on {host} died: {res['error'][:300]}")
                after = copy_rows()
                trees1 = sim.trees()
                for cid, (node, fid, h1, w1) in after.items():
                    if node in ready:
                        continue
                    foreign += 1
                    h0, w0 = before.get(cid, (node, fid, None, None))[2:]
                    if cid not in before:
                        mon.fail("C07:foreign-index-write", f"daemon on {host} created a copy record on node {node}, which it does not manage")
                    elif (h0, w0) != (h1, w1) and not ((h0, h1) == ("Y", "M") and w0 == w1) and not ((w0, w1) == ("Y", "N") and h0 == h1):
                        mon.fail("C07:foreign-index-write", f"daemon on {host} changed the copy of file {fid} on node {node} (not managed by it) from {(h0, w0)} to {(h1, w1)}")
                for name in trees0:
                    row = w.StorageNode.get_or_none(name=name)  # (the row as it is now: the operator may have activated or re-hosted the node)
                    if row is None:
                        continue
                    if name not in ready and trees0[name] != trees1[name] and not (row.host == host and row.active and sim.init_requested(row)):
                        mon.fail("C07:foreign-node", f"the tree of node {name} changed during an iteration of the daemon on {host}, which does not manage it")
            else:
                histories.apply_op(sim, mon, op)
        return foreign
    finally:
        sim.shutdown()


def gen_ops(rng, spec):
    ops = histories.gen_ops(rng, spec, rng.randint(5, 12))
    nodes = [n["name"] for n in spec["nodes"]]
    extra = []
    for _ in range(rng.randint(1, 4)):
        n = rng.choice(nodes)
        extra.append(rng.choice([("cli", "node deactivate", [n]), ("cli", "node activate", [n]), ("cli", "node init", [n]), ("fault", "remove", n, "ALPENHORN_NODE"),
                                 ("cli", "node modify", [n, f"--host={rng.choice(histories.HOSTS + ['elsewhere'])}"])]))
    for e in extra:
        ops.insert(rng.randrange(len(ops) + 1), e)
    # some operator actions on node records land after the daemon's main loop has read the nodes and before its queued tasks run
    for j in range(len(ops) - 1):
        if ops[j][0] == "iter" and ops[j + 1][0] == "cli" and ops[j + 1][1] in ("node deactivate", "node activate", "node modify") and rng.random() < 0.6:
            ops[j] = ("late", ops[j][1], [list(ops[j + 1])])
            ops[j + 1] = ("iter", ops[j][1])
    return ops


def explore_observers(ctx):
    """auto-import watchers: a node that stops being local or active (deactivated, re-hosted) loses its watcher in the daemon's next pass,
    so events under its root no longer lead to imports; the observer is a thread-less stand-in (events are delivered by the harness)"""
    import pathlib
    import shutil

    from alpenhorn.daemon import auto_import as AI
    from alpenhorn.daemon import update as U
    from alpenhorn.io.default import DefaultNodeIO
    from alpenhorn.scheduler import pool as P
    from watchdog.events import FileCreatedEvent

    class Watch:
        def __init__(self, handler, path):
            self.handler, self.path = handler, path

    class StandInObserver:
        def __init__(self, timeout=None):
            self.watches = []

        def start(self):
            pass

        def schedule(self, handler, path, recursive=True):
            wt = Watch(handler, path)
            self.watches.append(wt)
            return wt

        def unschedule(self, wt):
            self.watches.remove(wt)

        def stop(self):
            pass

        def join(self, *a):
            pass

    from vf.harness import daemon

    base = ctx.tmp() / "observers"
    saved = DefaultNodeIO.observer
    for change in ("deactivate", "rehost", "auto_import_off", "none"):
        shutil.rmtree(base, ignore_errors=True)
        AI._observers.clear()
        AI._watchers.clear()
        DefaultNodeIO.observer = StandInObserver
        spec = {"groups": [{"name": "g"}], "nodes": [{"name": "n1", "group": "g", "stype": "F", "host": "h1", "active": True, "auto_import": True}],
                "acqs": [], "files": [], "copies": [], "reqs": [], "rules": [], "unregistered": [], "ireqs": []}
        sim = daemon.Sim(base, spec)
        try:
            node = sim.nodes["n1"]
            root = pathlib.Path(node.root)
            (root / "acq1").mkdir(exist_ok=True)

            def deliver(rel):
                told = 0
                for ob in AI._observers.values():
                    for wt in list(ob.watches):
                        wt.handler.on_created(FileCreatedEvent(str(root / rel)))
                        told += 1
                return told

            sim.iterate("h1")
            (root / "acq1" / "before.dat").write_bytes(b"1")
            deliver("acq1/before.dat")
            sim.iterate("h1")
            if change == "deactivate":
                w.StorageNode.update(active=False).where(w.StorageNode.id == node.id).execute()
            elif change == "rehost":
                w.StorageNode.update(host="h2").where(w.StorageNode.id == node.id).execute()
            elif change == "auto_import_off":
                w.StorageNode.update(auto_import=False).where(w.StorageNode.id == node.id).execute()
            sim.iterate("h1")
            sim.iterate("h1")
            (root / "acq1" / "after.dat").write_bytes(b"22")
            told = deliver("acq1/after.dat")
            sim.iterate("h1")
            sim.iterate("h1")
            names = sorted(f.name for f in w.ArchiveFile.select())
            ctx.count("observer-scenario")
            ctx.distinct_add(("observers", change))
            rp = {"family": "observers", "change": change, "registered": names, "watchers_left": told}
            if "before.dat" not in names:
                ctx.broke("harness", "observer scenario", f"the file that appeared while the node was watched was not imported: {names}")
            if change == "none":
                if "after.dat" not in names:
                    ctx.broke("harness", "observer scenario", f"control: a watched node did not import the later file: {names}")
            elif "after.dat" in names or told:
                ctx.fail("C07:watcher-survives", f"node n1 was changed ({change}) and two passes of the daemon on h1 followed; {told} watcher(s) still received the event for acq1/after.dat, registered files: {names}", rp)
        finally:
            sim.shutdown()
            DefaultNodeIO.observer = saved
            AI._observers.clear()
            AI._watchers.clear()
    shutil.rmtree(base, ignore_errors=True)


def late_corpus():
    out = []
    for change in (("cli", "node deactivate", ["n2"]), ("cli", "node modify", ["n2", "--host=elsewhere"]), ("cli", "node deactivate", ["n1"])):
        spec = {"groups": [{"name": "g1"}, {"name": "g2"}],
                "nodes": [{"name": "n1", "group": "g1", "stype": "A", "host": "h1", "active": True, "username": "u", "address": "addr"},
                          {"name": "n2", "group": "g2", "stype": "A", "host": "h1", "active": True, "username": "u", "address": "addr"}],
                "acqs": ["acq1"], "files": [{"acq": "acq1", "name": "f.dat", "size": 150}], "copies": [{"file": 0, "node": "n1", "has": "Y", "wants": "Y"}],
                "reqs": [{"file": 0, "from": "n1", "to": "g2", "state": "pending"}], "rules": [], "unregistered": [], "ireqs": []}
        out.append((spec, [("late", "h1", [list(change)]), ("iter", "h1"), ("iter", "h1")]))
    # a group loses its only local node (deactivated / re-hosted) while a transfer into it becomes possible: nothing is pulled there any more
    for change in (("cli", "node deactivate", ["n2"]), ("cli", "node modify", ["n2", "--host=elsewhere"])):
        spec = {"groups": [{"name": "g1"}, {"name": "g2"}],
                "nodes": [{"name": "n1", "group": "g1", "stype": "A", "host": "h1", "active": False, "username": "u", "address": "addr"},
                          {"name": "n2", "group": "g2", "stype": "A", "host": "h1", "active": True, "username": "u", "address": "addr"}],
                "acqs": ["acq1"], "files": [{"acq": "acq1", "name": "f.dat", "size": 150}], "copies": [{"file": 0, "node": "n1", "has": "Y", "wants": "Y"}],
                "reqs": [{"file": 0, "from": "n1", "to": "g2", "state": "pending"}], "rules": [], "unregistered": [], "ireqs": []}
        out.append((spec, [("iter", "h1"), ("cli", "node activate", ["n1"]), list(change), ("iter", "h1"), ("iter", "h1")]))
    # the operator points a running node at the wrong disk (one whose marker names another, inactive node) and releases its copy:
    # the marker is read where the node's root is NOW, so the node is left alone and nothing on that disk is touched
    for m_active in (False, True):
        spec = {"groups": [{"name": f"g{i}"} for i in (1, 2, 3, 4)],
                "nodes": [{"name": "n1", "group": "g1", "stype": "F", "host": "h1", "active": True, "username": "u", "address": "addr"},
                          {"name": "m", "group": "g2", "stype": "A", "host": "h1" if not m_active else "h3", "active": m_active, "username": "u", "address": "addr"},
                          {"name": "k1", "group": "g3", "stype": "A", "host": "h2", "active": True, "username": "u", "address": "addr"},
                          {"name": "k2", "group": "g4", "stype": "A", "host": "h2", "active": True, "username": "u", "address": "addr"}],
                "acqs": ["acq1"], "files": [{"acq": "acq1", "name": "f.dat", "size": 150}],
                "copies": [{"file": 0, "node": n, "has": "Y", "wants": "Y"} for n in ("n1", "m", "k1", "k2")],
                "reqs": [], "rules": [], "unregistered": [], "ireqs": []}
        out.append((spec, [("iter", "h1"), ("cli", "node modify", ["n1", "--root={root:m}"]), ("cli", "file clean", ["acq1/f.dat", "--node=n1", "--now"]), ("iter", "h1"), ("iter", "h1")]))
    return out


def explore(ctx):
    base = ctx.tmp()
    q = ctx.quick()
    terms, keep = [], []
    for k in range(60 if q else 2500):
        table = gen_table(ctx.rng)
        term, managed = run_table(ctx, base, table)
        ctx.count("node-table")
        if not all(managed):
            ctx.distinct_add(("table", repr(table)))
        terms.append(term)
        keep.append(table)
        if k == 0:
            ctx.sample({"node_table": table, "managed": managed})
    for k in range(300 if q else 5000):
        s = "".join(ctx.rng.choice(SPACES + NONSPACES + NONSPACES) for _ in range(ctx.rng.randint(0, 6)))
        terms.append(f"(CStrip {cs(s)} {cs(s.rstrip())})")
        keep.append(("rstrip", s))
        ctx.count("rstrip")
    for c in range(0, 0x3100):  # every code point up to U+30FF on its own
        ch = chr(c)
        if 0xD800 <= c <= 0xDFFF:
            continue
        terms.append(f"(CStrip {cs('a' + ch)} {cs(('a' + ch).rstrip())})")
        keep.append(("rstrip", "a" + ch))
    ctx.count("rstrip-codepoints", 0x3100)
    bad = core.run_cases(ctx, "loc", "Corr.C07", "case", "check", terms, shard=2500, extra_imports=("Model.Locality",))
    for b in bad[:3]:
        ctx.broke("correspondence", f"locality model and implementation differ on {keep[b]!r}")
    total = 0
    corpus = late_corpus()
    for k in range((40 if q else 1500) + len(corpus)):
        if k < len(corpus):
            spec, ops = corpus[k]
        else:
            spec = histories.gen_spec(ctx.rng)
            ops = gen_ops(ctx.rng, spec)
        f = run_history(ctx, base, spec, ops)
        total += f
        ctx.count("history")
        if f:
            ctx.distinct_add(("hist", repr(spec), repr(ops)))
        if k == 0:
            ctx.sample({"history_ops": [list(o) for o in ops]})
    ctx.cov["foreign_copy_rows_compared"] = total
    explore_observers(ctx)


def search(ctx):
    explore(ctx)


def replay(ctx, rp):
    r = rp["replay"]
    if r.get("family") == "history":
        run_history(ctx, ctx.tmp(), r["spec"], [tuple(o) for o in r["ops"]])
    elif r.get("family") == "table":
        run_table(ctx, ctx.tmp(), r["table"])
    else:
        print(r)
        return 2
    for f in ctx.failing:
        print(f["signature"], f["what"])
    return 1 if ctx.failing else 0
