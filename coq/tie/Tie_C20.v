From Coq Require Import List NArith ZArith Bool.
From Alp Require Import Base.Str Base.Types Model.Hsm.
From Run Require Gen_hsm.
Import ListNotations.
Lemma tie_state_prefix path out : (if Gen_hsm.g_state_has_prefix path out then Some (skipn (length path) out) else None) = strip_path path out.
Proof. reflexivity. Qed.
Lemma tie_action_prefix path out : (if Gen_hsm.g_action_has_prefix path out then Some (skipn (length path) out) else None) = strip_path path out.
Proof. reflexivity. Qed.
Lemma tie_state path out r : hsm_state path out r =
  match (if Gen_hsm.g_state_has_prefix path out then Some (skipn (length path) out) else None) with
  | None => None
  | Some s => if Gen_hsm.g_unarchived s then Some Unarchived else if Gen_hsm.g_not_released s then Some Restored
              else match r with Some true => Some Restoring | _ => Some Released end
  end.
Proof. reflexivity. Qed.
Lemma tie_restoring path out : hsm_restoring path out =
  Gen_hsm.g_restore_word (match (if Gen_hsm.g_action_has_prefix path out then Some (skipn (length path) out) else None) with Some s => s | None => out end).
Proof. reflexivity. Qed.
Lemma tie_missing err : Gen_hsm.g_missing err = infixb w_nosuch err.
Proof. unfold Gen_hsm.g_missing. destruct err; reflexivity. Qed.
Lemma tie_release avail headroom l : release_files (Some avail) headroom l =
  if Gen_hsm.g_enough (Gen_hsm.g_needed headroom avail) then [] else release_walk (Gen_hsm.g_needed headroom avail) 0 l.
Proof. reflexivity. Qed.
Lemma tie_stop needed total : Gen_hsm.g_stop needed total = (needed <=? total)%Z.
Proof. reflexivity. Qed.
