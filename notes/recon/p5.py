from common import *
import os, hashlib
tmp, sdb = setup()
g = StorageGroup.create(name="g"); n = mknode(tmp,"n",g,stype="F")
outside = tmp/"outside"; outside.mkdir(); (outside/"acq").mkdir(); (outside/"acq"/"victim").write_bytes(b"precious")
os.symlink(outside/"acq", tmp/"n"/"lnk")      # symlinked dir inside node root pointing outside
from alpenhorn.daemon import update
from alpenhorn.scheduler import FairMultiFIFOQueue, pool, global_abort
import alpenhorn.daemon.update as U
import time
config.config["daemon"]["serial_io_timeout"]=5
class Q(FairMultiFIFOQueue):
    def get(self, timeout=None):
        return super().get(timeout=0.01)
q = Q()
ArchiveFileImportRequest.create(node=n, path=".", recurse=True, register=True)
try:
    for i in range(3): update.update_loop(q, pool.EmptyPool(), True)
except Exception as e:
    print("EXC in loop:", type(e).__name__, str(e)[:100])
print("files:", [(f.acq.name, f.name) for f in ArchiveFile.select()])
print("copies:", [(c.file.name, c.has_file) for c in ArchiveFileCopy.select()])
print("reqs", [(r.path, r.completed) for r in ArchiveFileImportRequest.select()])

# now release the copy and add two archive copies elsewhere so deletion is allowed
g2=StorageGroup.create(name="g2"); a1=mknode(tmp,"a1",g2); g3=StorageGroup.create(name="g3"); a2=mknode(tmp,"a2",g3)
for c in ArchiveFileCopy.select():
    for a in (a1,a2): ArchiveFileCopy.create(file=c.file,node=a,has_file="Y",wants_file="Y")
ArchiveFileCopy.update(wants_file="N").where(ArchiveFileCopy.node==n).execute()
for i in range(3): update.update_loop(q, pool.EmptyPool(), True)
print("copies:", [(c.file.name, c.node.name, c.has_file) for c in ArchiveFileCopy.select()])
print("outside victim exists:", (outside/"acq"/"victim").exists(), "outside dir exists", (outside/"acq").exists())
import shutil; shutil.rmtree(tmp)
