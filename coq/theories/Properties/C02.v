(* C02 — Transfers are all-or-nothing and byte-faithful (decision level; the byte-level clauses are checked on the
   real transports by the correspondence run: see DESIGN.md, transport contract). *)
From Coq Require Import List NArith Bool.
From Alp Require Import Base.Str Base.Types Base.Txn Model.Pull Proofs.PullProofs Proofs.WorkerProofs.
Import ListNotations.

(* For every pre-state, transport and outcome: a request is marked completed only together with a healthy destination
   record and the rule firing, only after the transport reported success, never when a reported digest differs from the
   registered one or is missing. *)
Theorem C02_completed_sound : forall ns t o, p_req_completed (pull_task ns t o) = true ->
  p_dst_copy (pull_task ns t o) = Some HY /\ p_post_add (pull_task ns t o) = true /\ p_dst_file_removed (pull_task ns t o) = false /\
  exists m, o = TOk m /\ m <> MDigest false /\ m <> MMissing /\ ns <> HY /\ t <> TNoTool /\ t <> TNoRoute.
Proof. exact completed_sound. Qed.
Print Assumptions C02_completed_sound.
(* the copy record and the completion are written in one atomic() block: all or nothing under a fault at any statement *)
Theorem C02_completion_atomic : forall (index : Type) (l : list (Txn.stmt index)) k i,
  run_atomic index l k i = i \/ run_atomic index l k i = run_atomic index l None i.
Proof. exact atomic_all_or_nothing. Qed.
Print Assumptions C02_completion_atomic.

(* If the transfer fails or the digest mismatches: the request stays pending (not cancelled either), no healthy
   destination copy is recorded, no rule fires, the destination path is removed, and the source copy is flagged for
   re-verification exactly when it may be at fault. *)
Theorem C02_failure_clean : forall ns t o, ns <> HY -> p_req_completed (pull_task ns t o) = false ->
  p_req_cancelled (pull_task ns t o) = false /\ p_dst_copy (pull_task ns t o) = None /\ p_post_add (pull_task ns t o) = false /\
  (t <> TNoRoute -> p_dst_file_removed (pull_task ns t o) = true) /\
  (p_src_flagged (pull_task ns t o) = true <-> t <> TNoRoute /\ t <> TNoTool /\ request_done o = VFailed true).
Proof. exact failure_clean. Qed.
Print Assumptions C02_failure_clean.
Theorem C02_source_flagged_iff : forall o, request_done o = VFailed true <-> o = TFailed true \/ o = TOk (MDigest false) \/ o = TOk MMissing.
Proof. exact source_flagged_iff. Qed.
Print Assumptions C02_source_flagged_iff.

(* A pull never overwrites an existing destination file that has not first been verified corrupt: the task runs only
   when the copy on the receiving node itself is recorded corrupt, or no copy of the group is recorded healthy or suspect AND
   the search found no file on disk; a file found on disk is marked suspect (to be verified) instead --- also when another
   node of the group holds a corrupt copy (the pre-repair code overwrote it then: F-C02c). *)
Theorem C02_no_blind_overwrite : forall gs sa ss sr fod gate ns t o p, chain gs sa ss sr fod gate ns t o = CRan p ->
  (gs = HX /\ ns = HX) \/ ((gs = HN \/ gs = HX) /\ fod = false).
Proof. exact no_blind_overwrite. Qed.
Print Assumptions C02_no_blind_overwrite.
Theorem C02_stray_file_checked_first : forall gs sa ss sr gate ns t o, (gs = HN \/ gs = HX) -> ns <> HX -> chain gs sa ss sr true gate ns t o <> CCancelled ->
  chain gs sa ss sr true gate ns t o = CSkipped \/ chain gs sa ss sr true gate ns t o = CMarkedSuspect.
Proof. exact stray_file_is_checked_first. Qed.
Print Assumptions C02_stray_file_checked_first.
Theorem C02_pull_preconditions : forall gs sa ss sr fod gate ns t o p, chain gs sa ss sr fod gate ns t o = CRan p ->
  sa = true /\ ss = HY /\ sr = true /\ gate = true /\ gs <> HY /\ gs <> HM.
Proof. exact pull_preconditions. Qed.
Print Assumptions C02_pull_preconditions.
Theorem C02_routing : forall l rk sa hw hb hr,
  (route l rk sa hw hb hr = THardlink -> l = true /\ sa = true /\ hw = true) /\
  (route l rk sa hw hb hr = TBbcp -> l = false /\ rk = true /\ hb = true) /\
  (route l rk sa hw hb hr = TInternal -> l = true /\ hr = false) /\
  (route l rk sa hw hb hr = TNoTool -> l = false /\ hb = false /\ hr = false) /\
  (route l rk sa hw hb hr = TNoRoute -> l = false /\ rk = false).
Proof. exact route_facts. Qed.
Print Assumptions C02_routing.

Example C02_example :
  chain HN true HY true false true HN THardlink (TOk MTrusted) = CRan (pull_task HN THardlink (TOk MTrusted)) /\
  p_req_completed (pull_task HN THardlink (TOk MTrusted)) = true /\
  chain HN true HY true true true HN THardlink (TOk MTrusted) = CMarkedSuspect /\
  p_src_flagged (pull_task HN TBbcp (TOk (MDigest false))) = true.
Proof. exact example_chain. Qed.
