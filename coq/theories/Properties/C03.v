(* C03 — Verification verdicts are exact. *)
From Coq Require Import List NArith ZArith Bool Arith.
From Alp Require Import Base.Str Base.Types Model.Md5 Model.Check Proofs.CheckProofs.
Import ListNotations.

(* The recorded outcome, for all observations and registered values (no hash time-out: the hash of the
   file is [dm]): healthy iff the file exists, its digest equals the registered one and, where a size
   is registered (0 included), its length equals it; corrupt iff it exists but differs; missing iff
   absent; if the file cannot be stat'ed the check is abandoned and nothing is recorded. *)
Theorem C03_healthy_iff : forall e so sz dm rs rm,
  verdict e so sz dm rs rm = Some HY <-> e = true /\ so = true /\ dm = rm /\ size_ok rs sz.
Proof. exact verdict_healthy. Qed.
Print Assumptions C03_healthy_iff.
Theorem C03_corrupt_iff : forall e so sz dm rs rm,
  verdict e so sz dm rs rm = Some HX <-> e = true /\ so = true /\ ~ (dm = rm /\ size_ok rs sz).
Proof. exact verdict_corrupt. Qed.
Print Assumptions C03_corrupt_iff.
Theorem C03_missing_iff : forall e so sz dm rs rm, verdict e so sz dm rs rm = Some HN <-> e = false.
Proof. exact verdict_missing. Qed.
Print Assumptions C03_missing_iff.
Theorem C03_abandoned_iff : forall e so sz dm rs rm, verdict e so sz dm rs rm = None <-> e = true /\ so = false.
Proof. exact verdict_abandoned. Qed.
Print Assumptions C03_abandoned_iff.

(* The digest the daemon computes is the hash of the whole content: for every content length, every
   positive block size and blocks-per-chunk (so all block-boundary and multi-chunk sizes), the blocks
   fed to the incremental hash concatenate to the content, none is empty, and for any incremental hash
   obeying update (update s a) b = update s (a ++ b) the loop's result is one update with the content. *)
Theorem C03_hash_loop_covers : forall bs bpc, (0 < bs)%nat -> (0 < bpc)%nat -> forall content,
  concat (blocks_fed bs bpc content) = content /\ nonempty_blocks (blocks_fed bs bpc content).
Proof. exact blocks_cover. Qed.
Print Assumptions C03_hash_loop_covers.
Theorem C03_hash_loop_correct : forall bs bpc, (0 < bs)%nat -> (0 < bpc)%nat ->
  forall (state : Type) (init : state) (update : state -> list byte -> state),
  (forall s a b, update (update s a) b = update s (a ++ b)) -> (forall s, update s [] = s) ->
  forall content, md5sum_file state init update bs bpc content = hash_of state init update content.
Proof. exact md5sum_file_correct. Qed.
Print Assumptions C03_hash_loop_correct.

(* Every digest spelling the CLI accepts is 32 hex digits and is stored as the canonical (lower-case)
   spelling of the same value; on canonical digests string equality — the daemon's comparison — is
   equality of digest values. *)
Theorem C03_accepted_digest : forall d d', accept_md5 d = Some d' ->
  canonical_digest d' /\ hexval d' = hexval d /\ length d = 32%nat /\ forallb is_hex d = true.
Proof. exact accept_md5_spec. Qed.
Print Assumptions C03_accepted_digest.
Theorem C03_rejected_digest : forall d, accept_md5 d = None <-> length d <> 32%nat \/ forallb is_hex d = false.
Proof. exact accept_md5_rejects. Qed.
Print Assumptions C03_rejected_digest.
Theorem C03_comparison_decides_value : forall a b, canonical_digest a -> canonical_digest b -> (a = b <-> hexval a = hexval b).
Proof. exact canonical_eq_iff_value. Qed.
Print Assumptions C03_comparison_decides_value.

Example C03_example :
  accept_md5 (map (fun c => if (97 <=? c) && (c <=? 102) then c - 32 else c)%N example_digest) = Some example_digest
  /\ accept_md5 (48 :: 120 :: skipn 2 example_digest)%N = None
  /\ verdict true true 0 (Some example_digest) (Some 0%Z) (Some example_digest) = Some HY
  /\ verdict true true 5 (Some example_digest) (Some 0%Z) (Some example_digest) = Some HX.
Proof. exact example_accept. Qed.
