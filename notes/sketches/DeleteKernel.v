(* Feasibility sketch: C01 kernel — delete_ok implies two other healthy archive copies. *)
From Coq Require Import List NArith Bool Lia Arith.
Import ListNotations.

Inductive has := HY | HM | HX | HN.
Definition has_is_y (h : has) : bool := match h with HY => true | _ => false end.
Record copy := { c_id : N; c_file : N; c_node : N; c_has : has }.

Section Kernel.
  Variable is_archive : N -> bool.          (* node id -> storage_type = 'A' *)

  Definition counts (f : N) (c : copy) : bool :=
    N.eqb (c_file c) f && has_is_y (c_has c) && is_archive (c_node c).
  Definition archive_count (cs : list copy) (f : N) : nat := length (filter (counts f) cs).
  Definition copies_required (arch : bool) : nat := if arch then 3 else 2.          (* tied to the source by T1 *)
  Definition delete_ok (cs : list copy) (c : copy) : bool :=
    copies_required (is_archive (c_node c)) <=? archive_count cs (c_file c).       (* not (ncopies < copies_required) *)

  Definition elsewhere (c d : copy) : bool := counts (c_file c) d && negb (N.eqb (c_node d) (c_node c)).
  Definition others (cs : list copy) (c : copy) : nat := length (filter (elsewhere c) cs).
  Definition here (c d : copy) : bool := counts (c_file c) d && N.eqb (c_node d) (c_node c).

  (* unique index (file, node) *)
  Definition uniq (cs : list copy) : Prop :=
    forall f n, length (filter (fun d => N.eqb (c_file d) f && N.eqb (c_node d) n) cs) <= 1.

  Lemma split_count cs c :
    archive_count cs (c_file c) = others cs c + length (filter (here c) cs).
  Proof.
    unfold archive_count, others. induction cs as [|d cs IH]; [reflexivity|].
    cbn [filter]. unfold elsewhere, here in *.
    destruct (counts (c_file c) d); cbn [andb]; [|exact IH].
    destruct (N.eqb (c_node d) (c_node c)); cbn [negb length]; lia.
  Qed.

  Lemma here_le cs c : uniq cs -> length (filter (here c) cs) <= (if is_archive (c_node c) then 1 else 0).
  Proof.
    intros U. specialize (U (c_file c) (c_node c)).
    assert (H : length (filter (here c) cs) <=
                length (filter (fun d => N.eqb (c_file d) (c_file c) && N.eqb (c_node d) (c_node c)) cs)).
    { clear U. induction cs as [|d cs IH]; [reflexivity|]. cbn [filter]. unfold here, counts in *.
      destruct (N.eqb (c_file d) (c_file c)), (N.eqb (c_node d) (c_node c)); cbn [andb];
        destruct (has_is_y (c_has d)); cbn [andb]; try destruct (is_archive (c_node d)); cbn [andb length]; lia. }
    destruct (is_archive (c_node c)) eqn:A; [lia|].
    assert (Z0 : length (filter (here c) cs) = 0).
    { clear H U. induction cs as [|d cs IH]; [reflexivity|]. cbn [filter]. unfold here, counts in *.
      destruct (N.eqb_spec (c_node d) (c_node c)) as [E|]; [rewrite E, A|]; rewrite ?andb_false_r; exact IH. }
    lia.
  Qed.

  Theorem delete_kernel_safe cs c : uniq cs -> delete_ok cs c = true -> 2 <= others cs c.
  Proof.
    intros U H. unfold delete_ok in H. apply Nat.leb_le in H.
    rewrite split_count in H. pose proof (here_le cs c U) as L.
    unfold copies_required in H. destruct (is_archive (c_node c)); lia.
  Qed.
End Kernel.
Print Assumptions delete_kernel_safe.
