From Coq Require Import List NArith ZArith Bool Lia ZifyBool.
From Alp Require Import Base.Str Base.Types Model.Reserve.
From Run Require Gen_reserve.
Open Scope Z_scope.
Lemma tie_insufficient b r s : Gen_reserve.g_insufficient b r s = insufficient b r s.
Proof. unfold Gen_reserve.g_insufficient, insufficient. destruct b; reflexivity. Qed.
Lemma tie_release_too_much r s : Gen_reserve.g_release_too_much r s = release_too_much r s.
Proof. reflexivity. Qed.
Lemma tie_factor : Gen_reserve.g_reserve_factor = factor.
Proof. reflexivity. Qed.
Lemma tie_gate_under_min b : Gen_reserve.g_gate_under_min b = b. Proof. reflexivity. Qed.
Lemma tie_gate_over_max b : Gen_reserve.g_gate_over_max b = b. Proof. reflexivity. Qed.
Lemma tie_gate_no_space b : Gen_reserve.g_gate_no_space b = negb b. Proof. reflexivity. Qed.
Lemma tie_check_only b : Gen_reserve.g_really_reserve b = negb b. Proof. reflexivity. Qed.
