"""C06 — path confinement: name validity for all strings; rmdir climbing stays below the root."""
import errno
import itertools
import os
import pathlib
import posixpath

from vf import core
from vf.core import cbool, cstr, ctup
from vf.translate import core as T

TRUSTED = [
    "Coq 8.16.1 kernel + VM (vm_compute for case shards); no native_compute",
    "translator vf/translate (whitelisted ==, startswith, endswith, in over str) for util.invalid_import_path",
    "UTF-8 byte model of str: '/' and '.' are single bytes that occur in no multi-byte sequence",
    "modelled, not verified: pathlib/posixpath normalisation (compared by correspondence), symlinks in node trees (lexical model)",
]
RULE = ("strings over {/ . a} exhaustively to length 8 (quick) / 10 (thorough) plus random strings over a wider alphabet; "
        "remove_filedir on real trees with every root spelling x depth x non-empty level; a case is non-trivial when the string has "
        ">= 2 characters (distinct by content) or the tree has >= 1 directory to climb")


GATES = [  # every place a name enters the index: (file, function, the exact vetting calls, [(the refusing test, what must follow a rejection)])
    ("alpenhorn/cli/file/create.py", "create", ["invalid_import_path(name)"], [("rejection_reason", "raise click.ClickException")]),
    ("alpenhorn/cli/acq/create.py", "create", ["invalid_import_path(name)"], [("rejection_reason", "raise click.ClickException")]),
    ("alpenhorn/daemon/update.py", "UpdateableNode.update_import", ["util.invalid_import_path(req.path)"], [("rejection_reason", "auto_import.import_request_done(req, 'invalid')")]),
    # the detector's answer, and (since fix F-C06d) the file name that is left of the path once the acquisition is taken off
    ("alpenhorn/daemon/auto_import.py", "_import_file", ["invalid_import_path(str(acq_name))", "invalid_import_path(str(file_name))"],
     [("rejection_reason", "import_request_done(req, 'bad_acq')\n    return"), ("file_name is None or invalid_import_path(str(file_name))", "import_request_done(req, 'bad_acq')\n    return")]),
]


def gen(ctx):
    import ast

    tree = T.parse(core.REPO / "alpenhorn/common/util.py")
    body = T.reject_clauses(tree, "invalid_import_path", "name")
    for path, fn, want, refusals in GATES:
        f = T.find_func(T.parse(core.REPO / path), fn)
        calls = [ast.unparse(x) for x in ast.walk(f) if isinstance(x, ast.Call) and ast.unparse(x.func).endswith("invalid_import_path")]
        if sorted(calls) != sorted(want):
            raise T.Untranslatable(f"UNTRANSLATABLE: {path}:{fn} vets names as {calls}, expected exactly {want}")
        for test, after in refusals:
            guards = [x for x in ast.walk(f) if isinstance(x, ast.If) and ast.unparse(x.test) == test]
            if len(guards) != 1 or after not in ast.unparse(guards[0]):
                raise T.Untranslatable(f"UNTRANSLATABLE: {path}:{fn} no longer refuses a rejected name (`if {test}`) with `{after}`")
    if "file_name = path.relative_to(acq_name)" not in ast.unparse(T.find_func(T.parse(core.REPO / "alpenhorn/daemon/auto_import.py"), "_import_file")):
        raise T.Untranslatable("UNTRANSLATABLE: _import_file no longer derives the file name as path.relative_to(acq_name)")
    # local transfers stage the file inside the destination directory, never in the system's temporary directory
    iou = T.parse(core.REPO / "alpenhorn/io/ioutil.py")
    for fn in ("hardlink", "local_copy"):
        tds = [ast.unparse(x) for x in ast.walk(T.find_func(iou, fn)) if isinstance(x, ast.Call) and ast.unparse(x.func).endswith("TemporaryDirectory")]
        if tds != ["TemporaryDirectory(dir=to_dir, prefix='.alpentemp')"]:
            raise T.Untranslatable(f"UNTRANSLATABLE: {fn} stages its file in {tds}, expected a '.alpentemp' directory inside to_dir")
    return {"Gen_util": T.HEADER + "Open Scope N_scope.\n" + body + "\n"}


def proofs(ctx):
    try:
        files = gen(ctx)
    except T.Untranslatable as e:
        ctx.broke("translator", "alpenhorn/common/util.py invalid_import_path", str(e))
        files = None
    if files:
        core.check_tie(ctx, files, ["Tie_C06"])
    core.check_property_file(ctx, "C06.v")


# ---- monitor: the property stated directly -----------------------------------------------------------
def canonical(s: str) -> bool:
    return s != "" and not any(c in ("", ".", "..") for c in s.split("/"))


def impl_invalid(s):
    from alpenhorn.common import util

    return util.invalid_import_path(s) is not None


def monitor_string(ctx, s):
    rej = impl_invalid(s)
    if rej != (not canonical(s)):
        ctx.fail("C06:name-validity", f"invalid_import_path({s!r}) rejects={rej} but canonical={canonical(s)}",
                 {"family": "strings", "input": s, "expected_rejected": not canonical(s), "observed_rejected": rej})
        return rej
    if not rej:
        if posixpath.normpath(s) != s or posixpath.normpath("/r/" + s) in ("/r", "/") or not posixpath.normpath("/r/" + s).startswith("/r/"):
            ctx.fail("C06:name-normal", f"accepted name {s!r} is not its own normal form / leaves the root", {"family": "strings", "input": s})
    return rej


def strings(ctx, maxlen, nrandom):
    for n in range(0, maxlen + 1):
        for t in itertools.product("/.a", repeat=n):
            yield "".join(t)
    alpha = ["/", ".", "a", "b", "..", "/.", " ", "é", "⁄", "／", "\\", "\n", "-", "~", "。"]
    for _ in range(nrandom):
        k = ctx.rng.randint(1, 24)
        yield "".join(ctx.rng.choice(alpha) for _ in range(k))


def explore_strings(ctx, maxlen, nrandom):
    cases, inputs = [], []
    for s in strings(ctx, maxlen, nrandom):
        rej = monitor_string(ctx, s)
        cases.append(ctup(cstr(s), cbool(rej)))
        inputs.append(s)
        ctx.count("strings")
        if len(s) >= 2:
            ctx.distinct_add(s)
    for s in ("a/./b", "a//b", "../a", "a/.b/..c", "a/b/"):
        ctx.sample({"string": s, "impl_rejected": impl_invalid(s)})
    bad = core.run_cases(ctx, "strings", "Corr.C06", "case", "check", cases, shard=2500)
    for i in bad[:5]:
        ctx.broke("correspondence", f"strings: model and implementation differ on {inputs[i]!r}")
    return bad


# ---- remove_filedir on real trees ---------------------------------------------------------------------
class _Lock:
    class _D:
        def __enter__(self):
            return self

        def __exit__(self, *a):
            return False

    down = _D()
    up = _D()


class _Node:
    def __init__(self, root, name="n"):
        self.root, self.name = root, name


def run_remove_filedir(base: pathlib.Path, spelling: str, comps, keep_level):
    """build root/comps..., optionally a file at depth keep_level making that directory non-empty; return the rmdir calls"""
    from alpenhorn.io import ioutil

    real = base / "p" / "node"
    d = real.joinpath(*comps)
    d.mkdir(parents=True, exist_ok=True)
    if keep_level is not None:
        (real.joinpath(*comps[:keep_level]) / "keep").write_text("x")
    if not (base / "p" / "link").is_symlink():
        os.symlink("node", base / "p" / "link")  # a second spelling of the same root, through a symbolic link
    rootstr = spelling.replace("@", str(base / "p")).replace("#", "node")
    calls = []
    orig = os.rmdir

    def rmdir(p, *a, **k):
        q = os.path.realpath(os.fspath(p))
        calls.append(q)
        if not q.startswith(str(real) + "/"):
            # never let a stray climb touch anything outside the scratch node: report "not empty"
            raise OSError(errno.ENOTEMPTY, "refused by the harness", q)
        return orig(p, *a, **k)

    os.rmdir = rmdir
    try:
        ioutil.remove_filedir(_Node(rootstr), pathlib.Path(rootstr).joinpath(*comps), _Lock())
    finally:
        os.rmdir = orig
    root_exists = real.exists() and not any(c == str(real) for c in calls)
    import shutil

    shutil.rmtree(base / "p", ignore_errors=True)
    return calls, str(real), root_exists


SPELLINGS = ["@/#", "@/#/", "@//#", "@/./#", "@/#//", "@/#/.", "@/link", "@/link/", "@//link"]


def explore_rmdir(ctx):
    base = ctx.tmp()
    cases = []
    for sp in SPELLINGS:
        for depth in (1, 2, 3):
            comps = ["acq", "sub", "x"][:depth]
            for keep in [None] + list(range(0, depth + 1)):
                calls, real, root_exists = run_remove_filedir(base, sp, comps, keep)
                ctx.count("remove_filedir")
                ctx.distinct_add((sp, depth, keep))
                outside = [c for c in calls if not c.startswith(real + "/")]
                if outside or not root_exists:
                    ctx.fail("C06:rmdir-outside-root", f"remove_filedir with root spelled {sp!r} tried to rmdir {outside} (root still exists: {root_exists})",
                             {"family": "remove_filedir", "root_spelling": sp, "components": comps, "nonempty_level": keep, "rmdir_calls": calls, "root": real})
                # model: climbs from the deepest directory; stops at the first non-empty one (ENOTEMPTY) — the model
                # lists every target it may try, the implementation's calls must be a prefix of it
                rel = [c[len(real) + 1:].split("/") for c in calls if c.startswith(real + "/")]
                cases.append((comps, rel, len(outside)))
    ctx.sample({"remove_filedir": {"root_spelling": "@/#/", "components": ["acq", "sub"], "rmdir_calls_relative": cases[10][1]}})
    # compare with the model's target list (component level)
    terms = []
    for comps, rel, nout in cases:
        terms.append(ctup(core.clist([cstr(c) for c in comps]), core.clist([core.clist([cstr(x) for x in r]) for r in rel], "list str"), core.cn(nout)))
    bad = core.run_cases(ctx, "rmdir", "Corr.C06", "rcase", "rcheck", terms, shard=500)
    for i in bad[:3]:
        ctx.broke("correspondence", f"remove_filedir: rmdir calls {cases[i][1]} (+{cases[i][2]} outside the root) are not a prefix of the model's targets for {cases[i][0]}")


# ---- daemon histories: every mutating call resolves inside a managed root ---------------------------------------------------
def symlink_scenario(ctx, base, kind, via):
    """a path that leads out of the node root through a symlink is requested for import (directly or by a scan); if the daemon
    takes it, the file is replicated to two archive nodes and then cleaned from the node, so that a deletion is attempted"""
    from vf.harness import daemon, histories, monitors
    from vf.harness import world as w

    spec = {"groups": [{"name": "gn"}, {"name": "ga1"}, {"name": "ga2"}],
            "nodes": [{"name": "n", "group": "gn", "stype": "F", "host": "h1"}, {"name": "a1", "group": "ga1", "stype": "A", "host": "h1"}, {"name": "a2", "group": "ga2", "stype": "A", "host": "h1"}],
            "acqs": [], "files": [], "copies": []}
    if kind == "dir":
        spec["unregistered"] = [{"node": "n", "path": "acq/ldir", "kind": "symlink", "target": "@OUT"}]
        target = "acq/ldir/precious"
    elif kind == "file":
        spec["unregistered"] = [{"node": "n", "path": "acq/link", "kind": "symlink", "target": "@OUT/precious"}]
        target = "acq/link"
    else:  # a symlink to a directory of another node
        spec["unregistered"] = [{"node": "a1", "path": "acq/real/f", "tag": 7, "size": 6}, {"node": "n", "path": "acq/other", "kind": "symlink", "target": "@A1/acq/real"}]
        target = "acq/other/f"
    spec["ireqs"] = [{"node": "n", "path": target if via == "request" else "acq", "recurse": via == "scan", "register": True}]
    for u in spec["unregistered"]:
        if "target" in u:
            u["target"] = u["target"].replace("@A1", str(base / "sc" / "roots" / "a1"))
    sim = daemon.Sim(base / "sc", spec)
    sim.set_tools("both")
    rp = {"family": "symlink-scenario", "kind": kind, "via": via}
    mon = monitors.Monitors(sim, ctx, rp)
    out0 = sim.outside()
    try:
        def it(k):
            for _ in range(k):
                r = sim.iterate("h1")
                if r["error"]:
                    mon.fail("daemon-died", f"the daemon died: {r['error'][:300]}")
        it(2)
        taken = [(c.file.acq.name + "/" + c.file.name) for c in w.ArchiveFileCopy.select().where(w.ArchiveFileCopy.node == sim.nodes["n"], w.ArchiveFileCopy.has_file != "N")]
        for rel in taken:
            histories.apply_op(sim, mon, ("cli", "file sync", [rel, "--from=n", "--to=ga1"]))
            histories.apply_op(sim, mon, ("cli", "file sync", [rel, "--from=n", "--to=ga2"]))
        it(3)
        for rel in taken:
            histories.apply_op(sim, mon, ("cli", "file clean", [rel, "--node=n", "--now"]))
        it(2)
        if sim.outside() != out0:
            mon.fail("C06:outside-roots", f"files outside every node root changed: {out0} -> {sim.outside()}")
        return bool(taken)
    finally:
        sim.shutdown()


def explore_histories(ctx, n):
    from vf.harness import histories

    base = ctx.tmp()
    for kind in ("dir", "file", "othernode"):
        for via in ("request", "scan"):
            symlink_scenario(ctx, base, kind, via)
            ctx.count("symlink-scenario")
            ctx.distinct_add(("symlink", kind, via))
    # local pulls stage the file in a temporary directory: hard link (archive to archive) and internal copy (no transport tool)
    for stype, tools in (("A", "both"), ("F", "none"), ("A", "none")):
        for name in ("f.dat", "sub/deep/f.dat"):
            spec = {"groups": [{"name": "g1"}, {"name": "g2"}],
                    "nodes": [{"name": "n1", "group": "g1", "stype": stype, "host": "h1", "active": True, "username": "u", "address": "addr"},
                              {"name": "n2", "group": "g2", "stype": "A", "host": "h1", "active": True, "username": "u", "address": "addr"}],
                    "acqs": ["acq1"], "files": [{"acq": "acq1", "name": name, "size": 150}], "copies": [{"file": 0, "node": "n1", "has": "Y", "wants": "Y"}],
                    "reqs": [{"file": 0, "from": "n1", "to": "g2", "state": "pending"}], "rules": [], "unregistered": [], "ireqs": []}
            ops = [("tools", tools, {}), ("iter", "h1"), ("iter", "h1")]
            _, mon, final = histories.run_history(ctx, base / "hist", spec, ops, checks=())
            ctx.count("history-local-pull")
            done = [r for r in final["index"]["req"] if r[4]]
            if not done:
                ctx.broke("harness", "local pull scenario", f"the local pull ({stype}, tools {tools}, {name}) did not complete: {final['index']['req']}")
    for k in range(n):
        spec = histories.gen_spec(ctx.rng)
        ops = histories.gen_ops(ctx.rng, spec, ctx.rng.randint(5, 12))
        _, mon, final = histories.run_history(ctx, base / "hist", spec, ops, checks=())
        ctx.count("history")
        if any(u.get("kind") == "symlink" for u in spec.get("unregistered", [])) or spec.get("ireqs"):
            ctx.distinct_add(("hist", repr(spec), repr(ops)))
        if [tuple(x) for x in final["outside"]] != [("precious", "file", __import__("hashlib").md5(b"do not touch").hexdigest())]:
            ctx.fail("C06:outside-roots", f"the file outside every node root is gone: {final['outside']}", {"family": "history", "spec": spec, "ops": [list(o) for o in ops]})


def explore_detector_gate(ctx):
    """the fourth gate: the acquisition name an import-detect extension returns is vetted as returned, spelling and all"""
    import shutil

    from alpenhorn.daemon import auto_import as AI
    from alpenhorn.daemon import update as U
    from alpenhorn.scheduler import pool
    from vf.harness import world as w

    base = ctx.tmp() / "detector"
    spellings = ["2024/run", "2024/run/", "2024//run", "./2024/run", "2024/run/.", "2024/./run", "2024/run//", "2024/sub/../run", "/2024/run", "2024", "2024/", "./2024", "",
                 # answers that are canonical names but not a proper parent of the path being imported: the whole path (file name "."), a longer one, a sibling, a string prefix
                 "2024/run/a.dat", "2024/run/a.dat/x", "other", "2024/ru"]
    for sp in spellings:
        shutil.rmtree(base, ignore_errors=True)
        w.fresh_db()
        g = w.mkgroup("g")
        node = w.mknode(base, "n", g, stype="F")
        root = pathlib.Path(node.root)
        (root / "2024" / "run").mkdir(parents=True)
        (root / "2024" / "run" / "a.dat").write_bytes(b"abc")
        w.extensions._id_ext = [lambda path, node_, _sp=sp: (_sp, None)]
        queue = w.StepQueue.make()
        un = U.UpdateableNode(queue, w.StorageNode.get(id=node.id))
        pool.global_abort.clear()
        try:
            AI.import_file(un, queue, pathlib.PurePath("2024/run/a.dat"), True, None)
            exits, aborted = w.drain_with_workers(queue)
        finally:
            w.extensions._id_ext = [w.detect]
            pool.global_abort.clear()
        names = [a.name for a in w.ArchiveAcq.select()]
        fnames = [f.name for f in w.ArchiveFile.select()]
        ctx.count("detector-gate")
        ctx.distinct_add(("detector", sp))
        rp = {"family": "detector-gate", "detector_returns": sp, "stored": names, "stored_files": fnames}
        bad = [nm for nm in names + fnames if not canonical(nm)]
        not_parent = sp in ("2024/run/a.dat", "2024/run/a.dat/x", "other", "2024/ru")  # (a daemon that stops over such an answer stores no name: not this property's business)
        if bad or (aborted and not not_parent):
            ctx.fail("C06:gate", f"the import detector returned the acquisition name {sp!r} for the path '2024/run/a.dat'; stored acquisition names {names}, file names {fnames} (not canonical: {bad}); abort={aborted}", rp)
        if sp == "2024" and (names, fnames) != (["2024"], ["run/a.dat"]):
            ctx.fail("C06:gate", f"the canonical acquisition name {sp!r} from the detector was not accepted: {names} {fnames}", rp)
        if canonical(sp) and sp == "2024/run" and names != [sp]:
            ctx.fail("C06:gate", f"the canonical acquisition name {sp!r} from the detector was not accepted: {names}", rp)
    shutil.rmtree(base, ignore_errors=True)


def explore_scan_gate(ctx):
    """scan requests whose path leaves the node root (through a symbolic link, or lexically) are refused: no scan task is queued and no
    directory outside the root is walked"""
    import shutil

    from alpenhorn.daemon import update as U
    from vf.harness import world as w

    base = ctx.tmp() / "scangate"
    shutil.rmtree(base, ignore_errors=True)
    w.fresh_db()
    g = w.mkgroup("g")
    node = w.mknode(base, "n", g, stype="F")
    root = pathlib.Path(node.root)
    out = base / "elsewhere"
    (out / "acqX").mkdir(parents=True)
    (out / "acqX" / "secret.dat").write_bytes(b"not ours")
    (root / "acqA" / "sub").mkdir(parents=True)
    (root / "acqA" / "good.dat").write_bytes(b"ours")
    os.symlink(out, root / "link")
    os.symlink(root / "acqA", root / "alias")
    reqs = {"acqA": True, "acqA/sub": True, ".": True, "alias": True, "link": False, "link/acqX": False, "acqA/../../elsewhere": False, "acqA/../link": False, "missing": False}
    for path in reqs:
        w.ArchiveFileImportRequest.create(node=node, path=path, recurse=True, register=True)
    queue = w.StepQueue.make()
    un = U.UpdateableNode(queue, w.StorageNode.get(id=node.id))
    walked = []
    orig_scandir = os.scandir

    def scandir(p="."):
        walked.append(os.path.realpath(os.fspath(p)))
        return orig_scandir(p)

    os.scandir = scandir
    try:
        un.update_import()
        queued = []
        while True:
            it = queue.get(timeout=0.001)
            if it is None:
                break
            queued.append(str(it[0]))
            queue.task_done(it[1])
        # run the scans that were queued (fresh pass: the requests that were refused are completed already)
    finally:
        os.scandir = orig_scandir
    rootreal = os.path.realpath(root)
    ctx.count("scan-gate", len(reqs))
    ctx.distinct_add(("scan-gate",))
    for path, ok in reqs.items():
        got = any(f'Scan "{path}"' in q or (path == "." and 'Scan "."' in q) for q in queued)
        norm = os.path.normpath(path)
        got = got or any(f'Scan "{norm}"' in q for q in queued) or (path == "alias" and any('Scan "acqA"' in q for q in queued))
        rp = {"family": "scan-gate", "request": path, "queued": queued}
        if not ok and any(f'"{path}"' in q for q in queued):
            ctx.fail("C06:scan-gate", f"the scan request {path!r} resolves outside the node root but a scan was queued for it: {queued}", rp)
    outside = [p for p in walked if not (p == rootreal or p.startswith(rootreal + "/"))]
    if outside:
        ctx.fail("C06:scan-gate", f"directories outside the node root were walked: {outside}", {"family": "scan-gate", "walked": walked})
    # single-file import requests: a path that is not a canonical relative path is refused, whatever pathlib would make of it
    w.ArchiveFileImportRequest.delete().execute()
    for path in ("acqA/good.dat", "acqA//good.dat", "./acqA/good.dat", "acqA/./good.dat", "acqA/good.dat/", "acqA/sub/../good.dat", "/abs/good.dat"):
        w.ArchiveFileImportRequest.delete().execute()
        for tbl in (w.ArchiveFileCopy, w.ArchiveFile, w.ArchiveAcq):
            tbl.delete().execute()
        w.ArchiveFileImportRequest.create(node=node, path=path, recurse=False, register=True)
        un.update_import()
        tasks = []
        while True:
            it = queue.get(timeout=0.001)
            if it is None:
                break
            tasks.append(str(it[0]))
            it[0]()
            queue.task_done(it[1])
        made = [f"{f.acq.name}/{f.name}" for f in w.ArchiveFile.select()]
        ctx.count("import-gate")
        rp = {"family": "import-gate", "request": path, "tasks": tasks, "registered": made}
        if canonical(path) != bool(tasks) or (not canonical(path) and made):
            ctx.fail("C06:gate", f"import request for {path!r} (canonical: {canonical(path)}): tasks queued {tasks}, registered {made}", rp)
    shutil.rmtree(base, ignore_errors=True)


def explore_gates(ctx, n):
    """the same strings offered to the index through its gates: `file create`, `acq create`, import requests"""
    from vf.harness import cliworld as cw
    from vf.harness import world as w
    import hashlib

    base = ctx.tmp() / "gates"
    base.mkdir(parents=True, exist_ok=True)
    pool = [s for s in strings(ctx, 5, 0)][:4000]
    for k in range(n):
        s = ctx.rng.choice(pool) if ctx.rng.random() < 0.8 else ctx.rng.choice(["a", "a/b", "x/../y", "../../escape", "a//b", "a/./b", "/abs", "a/", ""])
        w.fresh_db()
        g = w.mkgroup("g")
        node = w.mknode(base, "n", g)
        w.mkacq("acq")
        md5 = hashlib.md5(b"x").hexdigest()
        rp = {"family": "gates", "name": s}
        code, out, exc = cw.invoke("file create", [f"--md5={md5}", "--size=1", "--", s, "acq"])
        made = w.ArchiveFile.select().where(w.ArchiveFile.name == s).count() > 0
        if exc is not None and made:
            ctx.fail("C06:gate", f"file create {s!r} raised {exc!r} after registering the name", rp)
        if made != canonical(s):
            ctx.fail("C06:gate", f"`file create` {'accepted' if made else 'rejected'} the name {s!r} (canonical: {canonical(s)})", rp)
        code, out, exc = cw.invoke("acq create", ["--", s])
        made = w.ArchiveAcq.select().where(w.ArchiveAcq.name == s).count() > 0
        if made != canonical(s):
            ctx.fail("C06:gate", f"`acq create` {'accepted' if made else 'rejected'} the name {s!r} (canonical: {canonical(s)})", rp)
        ctx.count("gate")
        if not canonical(s):
            ctx.distinct_add(("gate", s))


def explore(ctx):
    explore_strings(ctx, 8 if ctx.quick() else 10, 3000 if ctx.quick() else 40000)
    explore_gates(ctx, 150 if ctx.quick() else 3000)
    explore_detector_gate(ctx)
    explore_scan_gate(ctx)
    explore_rmdir(ctx)
    explore_histories(ctx, 25 if ctx.quick() else 1500)


def search(ctx):
    """a tie or proof broke and the standard families found nothing: widen the string family"""
    for s in strings(ctx, 11, 200000):
        monitor_string(ctx, s)
        if ctx.failing:
            return


def replay(ctx, rp):
    r = rp["replay"]
    if r.get("family") == "strings":
        s = r["input"]
        rej = impl_invalid(s)
        print(f"invalid_import_path({s!r}) rejected={rej}; canonical={canonical(s)}")
        return 0 if rej == (not canonical(s)) else 1
    if r.get("family") == "remove_filedir":
        calls, real, ok = run_remove_filedir(ctx.tmp(), r["root_spelling"], r["components"], r["nonempty_level"])
        print("rmdir calls:", calls, "root:", real, "root still exists:", ok)
        return 0 if ok and all(c.startswith(real + "/") for c in calls) else 1
    print("unknown replay family")
    return 2
