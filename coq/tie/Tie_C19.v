From Coq Require Import List NArith ZArith Bool.
From Alp Require Import Base.Str Base.Types Model.Walker Model.Gate.
From Run Require Gen_gate.
Lemma t_updated i d : Gen_gate.g_update_runs i d = after_update i d. Proof. reflexivity. Qed.
Lemma t_idle_work u i : Gen_gate.g_idle_work u i = idle_work_runs u i. Proof. reflexivity. Qed.
Lemma t_auto_verify u i av : auto_verify_runs u i av = Gen_gate.g_idle_work u i && Gen_gate.g_auto_verify_on av. Proof. reflexivity. Qed.
