From Coq Require Import List Ascii Bool Arith Lia.
Import ListNotations.
Local Open Scope char_scope.

Definition str := list ascii.
Definition slash : ascii := "/".
Definition dot : ascii := ".".

Fixpoint str_eqb (a b : str) : bool :=
  match a, b with
  | [], [] => true
  | x :: a', y :: b' => Ascii.eqb x y && str_eqb a' b'
  | _, _ => false
  end.

Fixpoint prefixb (p s : str) : bool :=
  match p, s with
  | [], _ => true
  | x :: p', y :: s' => Ascii.eqb x y && prefixb p' s'
  | _ :: _, [] => false
  end.

Fixpoint infixb (p s : str) : bool :=
  prefixb p s || match s with [] => false | _ :: s' => infixb p s' end.

Definition suffixb (p s : str) : bool := prefixb (rev p) (rev s).

(* faithful transcription of util.invalid_import_path: true = rejected *)
Definition invalid (name : str) : bool :=
  str_eqb name []
  || str_eqb name [dot] || str_eqb name [dot; dot]
  || prefixb [slash] name || prefixb [dot; slash] name || prefixb [dot; dot; slash] name
  || suffixb [slash] name || suffixb [slash; dot] name || suffixb [slash; dot; dot] name
  || infixb [slash; slash] name
  || infixb [slash; dot; slash] name
  || infixb [slash; dot; dot; slash] name.

(* specification: split on '/' and look at components *)
Fixpoint split_aux (cur : str) (s : str) : list str :=
  match s with
  | [] => [rev cur]
  | c :: s' => if Ascii.eqb c slash then rev cur :: split_aux [] s' else split_aux (c :: cur) s'
  end.
Definition split (s : str) := split_aux [] s.

Definition bad_comp (c : str) : bool := str_eqb c [] || str_eqb c [dot] || str_eqb c [dot; dot].
Definition canonical (s : str) : bool := negb (existsb bad_comp (split s)).

(* quick exhaustive test over alphabet {/, ., a} up to length 7 *)
Fixpoint all_strs (alpha : list ascii) (n : nat) : list str :=
  match n with
  | O => [[]]
  | S n' => let r := all_strs alpha n' in r ++ flat_map (fun s => if Nat.eqb (length s) n' then map (fun c => c :: s) alpha else []) r
  end.
Time Eval vm_compute in
  (let l := all_strs [slash; dot; "a"] 8 in
   (length l, length (filter (fun s => negb (Bool.eqb (invalid s) (negb (canonical s)))) l))).
