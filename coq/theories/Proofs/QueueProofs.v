From Coq Require Import List NArith ZArith Bool Lia Arith Permutation.
From Alp Require Import Model.Queue.
Import ListNotations.

(* ---------- association lists ---------- *)
Lemma lookup_update_same k v l : lookup k (update k v l) = Some v.
Proof. induction l as [|[k' v'] l IH]; cbn; [rewrite N.eqb_refl; reflexivity|]. destruct (N.eqb k k') eqn:E; cbn; rewrite ?N.eqb_refl, ?E; auto. Qed.
Lemma lookup_update_other k k' v l : k <> k' -> lookup k (update k' v l) = lookup k l.
Proof.
  intros Hne. induction l as [|[k2 v2] l IH]; cbn.
  - destruct (N.eqb_spec k k'); [congruence | reflexivity].
  - destruct (N.eqb_spec k' k2) as [->|]; cbn.
    + destruct (N.eqb_spec k k2); [congruence | reflexivity].
    + destruct (N.eqb_spec k k2); [reflexivity | exact IH].
Qed.

Definition setk (s : qstate) (k : N) (v : kst) (lk : list N) (tq ti : nat) : qstate :=
  with_ks s (update k v (ks s)) lk tq ti.
Lemma kget_setk s k v lk tq ti k' : kget k' (setk s k v lk tq ti) = if N.eqb k' k then v else kget k' s.
Proof.
  unfold kget, setk, with_ks. cbn [ks]. destruct (N.eqb_spec k' k) as [->|Hne].
  - rewrite lookup_update_same. reflexivity.
  - rewrite lookup_update_other by exact Hne. reflexivity.
Qed.

Definition sum_q (l : list (N * kst)) : nat := fold_right (fun kv a => length (fifo (snd kv)) + a) 0 l.
Definition sum_ip (l : list (N * kst)) : nat := fold_right (fun kv a => cnt (snd kv) + a) 0 l.
Definition flat (l : list (N * kst)) : list qitem := flat_map (fun kv => fifo (snd kv)) l.
Definition old_fifo (k : N) (l : list (N * kst)) : list qitem := match lookup k l with Some o => fifo o | None => [] end.
Definition old_cnt (k : N) (l : list (N * kst)) : nat := match lookup k l with Some o => cnt o | None => 0 end.

Lemma sum_q_update k v l : sum_q (update k v l) + length (old_fifo k l) = sum_q l + length (fifo v).
Proof.
  unfold old_fifo. induction l as [|[k' v'] l IH]; cbn [update lookup sum_q fold_right snd length]; [lia|].
  destruct (N.eqb k k'); cbn [sum_q fold_right snd]; fold (sum_q l); fold (sum_q (update k v l)); lia.
Qed.
Lemma sum_ip_update k v l : sum_ip (update k v l) + old_cnt k l = sum_ip l + cnt v.
Proof.
  unfold old_cnt. induction l as [|[k' v'] l IH]; cbn [update lookup sum_ip fold_right snd]; [lia|].
  destruct (N.eqb k k'); cbn [sum_ip fold_right snd]; fold (sum_ip l); fold (sum_ip (update k v l)); lia.
Qed.
(* counting occurrences of an id *)
Definition cid (x : N) (l : list qitem) : nat := length (filter (fun it => N.eqb (q_id it) x) l).
Lemma cid_app x a b : cid x (a ++ b) = cid x a + cid x b.
Proof. unfold cid. rewrite filter_app, app_length. reflexivity. Qed.
Lemma cid_cons x it l : cid x (it :: l) = (if N.eqb (q_id it) x then 1 else 0) + cid x l.
Proof. unfold cid. cbn [filter]. destruct (N.eqb (q_id it) x); reflexivity. Qed.
Lemma cid_nil x : cid x [] = 0. Proof. reflexivity. Qed.

Lemma flat_update x k v l : cid x (flat (update k v l)) + cid x (old_fifo k l) = cid x (flat l) + cid x (fifo v).
Proof.
  unfold old_fifo. induction l as [|[k' v'] l IH]; cbn [update lookup flat flat_map snd].
  - rewrite app_nil_r, !cid_nil. lia.
  - destruct (N.eqb k k'); cbn [flat flat_map snd]; fold (flat l); fold (flat (update k v l)); rewrite !cid_app; lia.
Qed.

(* ---------- per-key projections of the ghost lists ---------- *)
Definition sel (k : N) (l : list (N * qitem)) : list qitem := map snd (filter (fun p => N.eqb (fst p) k) l).
Lemma sel_app k a b : sel k (a ++ b) = sel k a ++ sel k b.
Proof. unfold sel. rewrite filter_app, map_app. reflexivity. Qed.
Lemma sel_one_same k it : sel k [(k, it)] = [it].
Proof. unfold sel. cbn. rewrite N.eqb_refl. reflexivity. Qed.
Lemma sel_one_other k k' it : k' <> k -> sel k [(k', it)] = [].
Proof. unfold sel. cbn. intros H. destruct (N.eqb_spec k' k); [congruence | reflexivity]. Qed.
Lemma sel_remove_first_other k k' l : k <> k' -> sel k (remove_first_key k' l) = sel k l.
Proof.
  intros Hne. induction l as [|[k2 it] l IH]; [reflexivity|]. cbn [remove_first_key].
  destruct (N.eqb_spec k' k2) as [->|].
  - unfold sel. cbn [filter fst]. destruct (N.eqb_spec k2 k); [congruence | reflexivity].
  - unfold sel in *. cbn [filter fst]. destruct (N.eqb k2 k); cbn [map]; rewrite IH; reflexivity.
Qed.
Lemma sel_remove_first_same k l : length (sel k (remove_first_key k l)) = pred (length (sel k l)).
Proof.
  induction l as [|[k2 it] l IH]; [reflexivity|]. cbn [remove_first_key].
  destruct (N.eqb_spec k k2) as [->|Hne].
  - unfold sel. cbn [filter fst]. rewrite N.eqb_refl. reflexivity.
  - unfold sel in *. cbn [filter fst]. destruct (N.eqb_spec k2 k); [congruence|]. exact IH.
Qed.

(* ---------- the invariant ---------- *)
Record InvC (s : qstate) (g : ghost) : Prop := {
  i_tq : total_q s = sum_q (ks s);
  i_ti : total_ip s = sum_ip (ks s);
  i_cnt : forall k, cnt (kget k s) = length (sel k (g_running g));
  i_order : forall k, sel k (g_entered g) = sel k (g_delivered g) ++ fifo (kget k s);
  i_lock1 : forall k, mem k (locks s) = true -> cnt (kget k s) = 1 /\ exists it, In (k, it) (g_running g) /\ q_excl it = true;
  i_lock2 : forall k it, In (k, it) (g_running g) -> q_excl it = true -> mem k (locks s) = true
}.
Definition bal (x : N) (s : qstate) (g : ghost) : nat :=
  cid x (flat (ks s)) + cid x (items_of (dfr s)) + cid x (map snd (g_delivered g)) + cid x (g_discarded g).
Definition Cons (s : qstate) (g : ghost) : Prop := forall x, cid x (g_put g) = bal x s g.
Definition Inv (s : qstate) (g : ghost) : Prop := InvC s g /\ Cons s g.

Lemma inv_empty : Inv empty ghost0.
Proof. split; [constructor; cbn; intros; try reflexivity; try discriminate; try lia; contradiction | intros x; reflexivity]. Qed.

Lemma old_fifo_kget k s : old_fifo k (ks s) = fifo (kget k s).
Proof. unfold old_fifo, kget. destruct (lookup k (ks s)); reflexivity. Qed.
Lemma old_cnt_kget k s : old_cnt k (ks s) = cnt (kget k s).
Proof. unfold old_cnt, kget. destruct (lookup k (ks s)); reflexivity. Qed.

(* InvC does not look at the deferrals or the joining flag *)
Lemma invC_ext s s' g : ks s' = ks s -> locks s' = locks s -> total_q s' = total_q s -> total_ip s' = total_ip s ->
  InvC s g -> InvC s' g.
Proof.
  intros E1 E2 E3 E4 [A B C D E F].
  assert (K : forall k, kget k s' = kget k s) by (intros k; unfold kget; rewrite E1; reflexivity).
  constructor.
  - rewrite E3, E1; exact A.
  - rewrite E4, E1; exact B.
  - intros k; rewrite K; apply C.
  - intros k; rewrite K; apply D.
  - intros k Hm; rewrite K; rewrite E2 in Hm; apply E, Hm.
  - intros k it Hin Hex; rewrite E2; eapply F; eauto.
Qed.

(* ---- entering a FIFO ---- *)
Lemma core_enter s g it k : InvC s g -> InvC (put_now it k s) (g_enter g k it).
Proof.
  intros [A B C D E F]. unfold put_now. fold (setk s k {| fifo := fifo (kget k s) ++ [it]; cnt := cnt (kget k s) |} (locks s) (S (total_q s)) (total_ip s)).
  constructor; cbn [g_enter g_running g_entered g_delivered].
  - unfold setk, with_ks. cbn [total_q ks].
    pose proof (sum_q_update k {| fifo := fifo (kget k s) ++ [it]; cnt := cnt (kget k s) |} (ks s)) as H.
    rewrite old_fifo_kget in H. cbn [fifo] in H. rewrite app_length in H. cbn in H. lia.
  - unfold setk, with_ks. cbn [total_ip ks].
    pose proof (sum_ip_update k {| fifo := fifo (kget k s) ++ [it]; cnt := cnt (kget k s) |} (ks s)) as H.
    rewrite old_cnt_kget in H. cbn [cnt] in H. lia.
  - intros k'. rewrite kget_setk. destruct (N.eqb_spec k' k) as [->|]; cbn [cnt]; apply C.
  - intros k'. rewrite kget_setk, sel_app. destruct (N.eqb_spec k' k) as [->|Hne]; cbn [fifo].
    + rewrite sel_one_same, D, app_assoc. reflexivity.
    + rewrite sel_one_other by congruence. rewrite app_nil_r. apply D.
  - intros k' Hm. unfold setk, with_ks in Hm. cbn [locks] in Hm. destruct (E k' Hm) as [H1 H2].
    rewrite kget_setk. destruct (N.eqb_spec k' k) as [->|]; cbn [cnt]; auto.
  - intros k' it' Hin Hex. unfold setk, with_ks. cbn [locks]. eapply F; eauto.
Qed.

Lemma bal_enter x s g it k : bal x (put_now it k s) (g_enter g k it) = bal x s g + (if N.eqb (q_id it) x then 1 else 0).
Proof.
  unfold bal, put_now, with_ks. cbn [ks dfr g_enter g_delivered g_discarded].
  pose proof (flat_update x k {| fifo := fifo (kget k s) ++ [it]; cnt := cnt (kget k s) |} (ks s)) as H.
  rewrite old_fifo_kget in H. cbn [fifo] in H. rewrite cid_app, cid_cons, cid_nil in H. lia.
Qed.

(* ---- promotion of deferrals ---- *)
Lemma cid_dinsert x d l : cid x (items_of (dinsert d l)) = cid x (items_of (d :: l)).
Proof.
  induction l as [|a l IH]; [reflexivity|]. cbn [dinsert]. destruct (dle d a); [reflexivity|].
  unfold items_of in *. cbn [map] in *. rewrite !cid_cons in *. lia.
Qed.
Lemma cid_dsort x l : cid x (items_of (dsort l)) = cid x (items_of l).
Proof.
  induction l as [|a l IH]; [reflexivity|]. cbn [dsort fold_right]. fold (dsort l). rewrite cid_dinsert.
  unfold items_of in *. cbn [map]. rewrite !cid_cons. lia.
Qed.
Lemma cid_filter_split x p (l : list dentry) :
  cid x (items_of (filter p l)) + cid x (items_of (filter (fun d => negb (p d)) l)) = cid x (items_of l).
Proof.
  induction l as [|a l IH]; [reflexivity|]. cbn [filter]. destruct (p a); cbn [negb]; unfold items_of in *; cbn [map]; rewrite !cid_cons; lia.
Qed.

Definition strip (now : Z) (s : qstate) : qstate :=
  {| ks := ks s; locks := locks s; total_q := total_q s; total_ip := total_ip s;
     dfr := filter (fun d => negb (expired now d)) (dfr s); joining := joining s |}.
Definition enter_all (l : list dentry) (s : qstate) : qstate := fold_left (fun acc d => let '(_, it, k) := d in put_now it k acc) l s.
Lemma promote_eq now s : promote now s = enter_all (due now s) (strip now s).
Proof. reflexivity. Qed.

Lemma enter_all_inv l : forall s g, InvC s g -> InvC (enter_all l s) (g_promote g l) /\
  (forall x, bal x (enter_all l s) (g_promote g l) = bal x s g + cid x (items_of l)) /\
  dfr (enter_all l s) = dfr s /\ joining (enter_all l s) = joining s /\ g_put (g_promote g l) = g_put g
  /\ g_running (g_promote g l) = g_running g /\ g_delivered (g_promote g l) = g_delivered g.
Proof.
  induction l as [|[[e it] k] l IH]; intros s g HI.
  - cbn [enter_all g_promote fold_left]. split; [exact HI|]. split; [intros x; unfold items_of; cbn [map]; rewrite cid_nil; lia|].
    split; [reflexivity|]. split; [reflexivity|]. split; [reflexivity|]. split; reflexivity.
  - cbn [enter_all g_promote fold_left]. fold (enter_all l (put_now it k s)). fold (g_promote (g_enter g k it) l).
    destruct (IH (put_now it k s) (g_enter g k it) (core_enter s g it k HI)) as (I1 & I2 & I3 & I4 & I5 & I6 & I7).
    split; [exact I1|]. split; [intros x; rewrite I2, bal_enter; unfold items_of; cbn [map]; rewrite cid_cons; lia|].
    split; [rewrite I3; reflexivity|]. split; [rewrite I4; reflexivity|]. split; [rewrite I5; reflexivity|].
    split; [rewrite I6; reflexivity | rewrite I7; reflexivity].
Qed.

Lemma promote_inv now s g : Inv s g -> Inv (promote now s) (g_promote g (due now s)).
Proof.
  intros [HC HB]. rewrite promote_eq.
  assert (HCs : InvC (strip now s) g) by (eapply invC_ext; [..|exact HC]; reflexivity).
  destruct (enter_all_inv (due now s) (strip now s) g HCs) as (I1 & I2 & I3 & I4 & I5 & I6 & I7).
  split; [exact I1|]. intros x. rewrite I5, I2, HB. unfold bal, strip. cbn [ks dfr].
  unfold due. rewrite cid_dsort. pose proof (cid_filter_split x (expired now) (dfr s)). lia.
Qed.

(* ---- handing an item out ---- *)
Lemma admissible_eligible s k : admissible s k = true -> exists v, lookup k (ks s) = Some v /\ eligible s (k, v) = true.
Proof.
  unfold admissible. destruct (lookup k (ks s)) as [v|]; [|discriminate]. destruct (min_level s); [|discriminate].
  intros H. apply andb_true_iff in H as [H _]. exists v; auto.
Qed.

Lemma commit_shape k s s' it : get_commit k s = Some (s', it) ->
  exists t c, lookup k (ks s) = Some {| fifo := it :: t; cnt := c |} /\ mem k (locks s) = false /\
    head_blocks c it = false /\
    s' = setk s k {| fifo := t; cnt := S c |} (if q_excl it then k :: locks s else locks s) (pred (total_q s)) (S (total_ip s)).
Proof.
  unfold get_commit. destruct (admissible s k) eqn:Ha; [|discriminate].
  destruct (admissible_eligible s k Ha) as (v & Hl & He). rewrite Hl.
  destruct v as [[|h t] c]; [discriminate|]. intros H; injection H as <- <-.
  exists t, c. unfold eligible in He. cbn [fifo cnt] in He. apply andb_true_iff in He as [H1 H2].
  repeat split; auto; [apply negb_true_iff in H1; exact H1 | apply negb_true_iff in H2; exact H2].
Qed.

Lemma mem_cons k k' l : mem k (k' :: l) = N.eqb k k' || mem k l.
Proof. reflexivity. Qed.

Lemma core_commit k s s' it g : get_commit k s = Some (s', it) -> InvC s g -> InvC s' (g_deliver g k it).
Proof.
  intros Hc [A B C D E F]. destruct (commit_shape k s s' it Hc) as (t & c & Hl & Hm & Hb & ->).
  assert (Kg : kget k s = {| fifo := it :: t; cnt := c |}) by (unfold kget; rewrite Hl; reflexivity).
  constructor; cbn [g_deliver g_running g_entered g_delivered].
  - unfold setk, with_ks. cbn [total_q ks].
    pose proof (sum_q_update k {| fifo := t; cnt := S c |} (ks s)) as H. rewrite old_fifo_kget, Kg in H. cbn in H. lia.
  - unfold setk, with_ks. cbn [total_ip ks].
    pose proof (sum_ip_update k {| fifo := t; cnt := S c |} (ks s)) as H. rewrite old_cnt_kget, Kg in H. cbn in H. lia.
  - intros k'. rewrite kget_setk, sel_app, app_length. destruct (N.eqb_spec k' k) as [->|Hne]; cbn [cnt].
    + rewrite sel_one_same. specialize (C k). rewrite Kg in C. cbn in *. lia.
    + rewrite sel_one_other by congruence. cbn. rewrite Nat.add_0_r. apply C.
  - intros k'. rewrite kget_setk, sel_app. destruct (N.eqb_spec k' k) as [->|Hne]; cbn [fifo].
    + rewrite sel_one_same, D, Kg. cbn [fifo]. rewrite <- app_assoc. reflexivity.
    + rewrite sel_one_other by congruence. rewrite app_nil_r. apply D.
  - intros k' Hm'. unfold setk, with_ks in Hm'. cbn [locks] in Hm'. rewrite kget_setk.
    destruct (N.eqb_spec k' k) as [->|Hne]; cbn [cnt].
    + destruct (q_excl it) eqn:Ex.
      * unfold head_blocks in Hb. rewrite Ex, andb_true_r in Hb. apply negb_false_iff, Nat.eqb_eq in Hb. subst c.
        split; [reflexivity|]. exists it. split; [apply in_or_app; right; left; reflexivity | exact Ex].
      * congruence.
    + assert (Hm2 : mem k' (locks s) = true).
      { destruct (q_excl it); [|exact Hm']. rewrite mem_cons in Hm'. destruct (N.eqb_spec k' k); [congruence | exact Hm']. }
      destruct (E k' Hm2) as (H1 & it' & H2 & H3). split; [exact H1|]. exists it'. split; [apply in_or_app; left; exact H2 | exact H3].
  - intros k' it' Hin Hex. unfold setk, with_ks. cbn [locks]. apply in_app_or in Hin as [Hin|[Hin|[]]].
    + pose proof (F _ _ Hin Hex) as Hm2. destruct (q_excl it); [rewrite mem_cons, Hm2; apply orb_true_r | exact Hm2].
    + injection Hin as <- <-. rewrite Hex. rewrite mem_cons, N.eqb_refl. reflexivity.
Qed.

Lemma bal_commit x k s s' it g : get_commit k s = Some (s', it) -> bal x s' (g_deliver g k it) = bal x s g.
Proof.
  intros Hc. destruct (commit_shape k s s' it Hc) as (t & c & Hl & Hm & Hb & ->).
  assert (Kg : kget k s = {| fifo := it :: t; cnt := c |}) by (unfold kget; rewrite Hl; reflexivity).
  unfold bal, setk, with_ks. cbn [ks dfr g_deliver g_delivered g_discarded].
  pose proof (flat_update x k {| fifo := t; cnt := S c |} (ks s)) as H. rewrite old_fifo_kget, Kg in H. cbn [fifo] in H.
  rewrite cid_cons in H. rewrite map_app, cid_app. cbn [map snd]. rewrite cid_cons, cid_nil. lia.
Qed.

(* ---- task_done ---- *)
Lemma mem_remove k k' l : mem k (remove k' l) = negb (N.eqb k' k) && mem k l.
Proof.
  unfold mem, remove. induction l as [|a l IH]; cbn [filter existsb]; [rewrite andb_false_r; reflexivity|].
  destruct (N.eqb_spec k' a) as [->|Hne]; cbn [negb existsb].
  - rewrite IH. destruct (N.eqb_spec a k) as [->|Hak]; cbn [negb andb]; [reflexivity|].
    destruct (N.eqb_spec k a); [congruence | reflexivity].
  - rewrite IH. destruct (N.eqb_spec k a) as [->|Hka]; cbn [orb].
    + destruct (N.eqb_spec k' a); [congruence | reflexivity].
    + reflexivity.
Qed.
Lemma in_remove_first k k' it l : k <> k' -> In (k, it) l -> In (k, it) (remove_first_key k' l).
Proof.
  intros Hne. induction l as [|[k2 it2] l IH]; [intros []|]. cbn [remove_first_key]. intros [E|H].
  - injection E as -> ->. destruct (N.eqb_spec k' k); [congruence | left; reflexivity].
  - destruct (N.eqb k' k2); [exact H | right; apply IH, H].
Qed.
Lemma in_remove_first_inv k k' it l : In (k, it) (remove_first_key k' l) -> In (k, it) l.
Proof.
  induction l as [|[k2 it2] l IH]; [intros []|]. cbn [remove_first_key]. destruct (N.eqb k' k2); [intros H; right; exact H|].
  intros [E|H]; [left; exact E | right; apply IH, H].
Qed.

Lemma core_done k s s' g : task_done k s = Some s' -> InvC s g -> InvC s' (g_done g k).
Proof.
  unfold task_done. destruct (lookup k (ks s)) as [v|] eqn:Hl; [|discriminate].
  destruct (Nat.leb_spec (cnt v) 0) as [|Hpos]; [discriminate|]. intros H; injection H as <-. intros [A B C D E F].
  assert (Kg : kget k s = v) by (unfold kget; rewrite Hl; reflexivity).
  fold (setk s k {| fifo := fifo v; cnt := pred (cnt v) |} (remove k (locks s)) (total_q s) (pred (total_ip s))).
  constructor; cbn [g_done g_running g_entered g_delivered].
  - unfold setk, with_ks. cbn [total_q ks].
    pose proof (sum_q_update k {| fifo := fifo v; cnt := pred (cnt v) |} (ks s)) as H. rewrite old_fifo_kget, Kg in H. cbn in H. lia.
  - unfold setk, with_ks. cbn [total_ip ks].
    pose proof (sum_ip_update k {| fifo := fifo v; cnt := pred (cnt v) |} (ks s)) as H. rewrite old_cnt_kget, Kg in H. cbn in H. lia.
  - intros k'. rewrite kget_setk. destruct (N.eqb_spec k' k) as [->|Hne]; cbn [cnt].
    + rewrite sel_remove_first_same. specialize (C k). rewrite Kg in C. lia.
    + rewrite sel_remove_first_other by exact Hne. apply C.
  - intros k'. rewrite kget_setk. destruct (N.eqb_spec k' k) as [->|Hne]; cbn [fifo]; [rewrite D, Kg; reflexivity | apply D].
  - intros k' Hm'. unfold setk, with_ks in Hm'. cbn [locks] in Hm'. rewrite mem_remove in Hm'.
    apply andb_true_iff in Hm' as [Hne Hm2]. apply negb_true_iff in Hne. destruct (N.eqb_spec k k') as [|Hne']; [discriminate|].
    rewrite kget_setk. destruct (N.eqb_spec k' k); [congruence|].
    destruct (E k' Hm2) as (H1 & it' & H2 & H3). split; [exact H1|]. exists it'. split; [apply in_remove_first; congruence | exact H3].
  - intros k' it' Hin Hex. unfold setk, with_ks. cbn [locks]. rewrite mem_remove.
    pose proof (in_remove_first_inv _ _ _ _ Hin) as Hin0. pose proof (F _ _ Hin0 Hex) as Hm2. rewrite Hm2, andb_true_r.
    apply negb_true_iff. destruct (N.eqb_spec k k') as [<-|]; [|reflexivity]. exfalso.
    (* k is locked: its only running item is exclusive, and it has just been removed *)
    destruct (E k Hm2) as (H1 & _). specialize (C k). rewrite H1 in C.
    assert (L : length (sel k (remove_first_key k (g_running g))) = 0) by (rewrite sel_remove_first_same; lia).
    assert (Hs : In it' (sel k (remove_first_key k (g_running g)))).
    { unfold sel. apply in_map_iff. exists (k, it'). split; [reflexivity|]. apply filter_In. split; [exact Hin | cbn; apply N.eqb_refl]. }
    destruct (sel k (remove_first_key k (g_running g))); [destruct Hs | cbn in L; lia].
Qed.

Lemma bal_done x k s s' g : task_done k s = Some s' -> bal x s' (g_done g k) = bal x s g.
Proof.
  unfold task_done. destruct (lookup k (ks s)) as [v|] eqn:Hl; [|discriminate].
  destruct (Nat.leb (cnt v) 0); [discriminate|]. intros H; injection H as <-.
  assert (Kg : kget k s = v) by (unfold kget; rewrite Hl; reflexivity).
  unfold bal, with_ks. cbn [ks dfr g_done g_delivered g_discarded].
  pose proof (flat_update x k {| fifo := fifo v; cnt := pred (cnt v) |} (ks s)) as H. rewrite old_fifo_kget, Kg in H. cbn [fifo] in H. lia.
Qed.

(* ---------- every operation preserves the invariant ---------- *)
Lemma invC_log s g it : InvC s g -> InvC s (g_log g it).
Proof. intros [A B C D E F]. constructor; auto. Qed.
Lemma invC_discard s g l : InvC s g -> InvC s (g_discard g l).
Proof. intros [A B C D E F]. constructor; auto. Qed.

Lemma inv_gstep s g o : Inv s g -> Inv (fst (gstep (s, g) o)) (snd (gstep (s, g) o)).
Proof.
  intros [HC HB]. destruct o as [it k | now w it k | now ch | k | | | | | | | k]; unfold gstep; cbn [step].
  - cbn [fst snd]. split; [apply core_enter, invC_log, HC|].
    intros x. rewrite bal_enter. cbn [g_enter g_log g_put]. rewrite cid_app, cid_cons, cid_nil, HB. unfold bal. cbn [g_log g_delivered g_discarded]. lia.
  - unfold put_deferred. destruct (joining s) eqn:Ej; cbn [fst snd].
    + split; [apply invC_discard, invC_log, HC|]. intros x. cbn [g_discard g_log g_put]. rewrite cid_app, cid_cons, cid_nil, HB.
      unfold bal. cbn [g_discard g_log g_delivered g_discarded]. rewrite cid_app, cid_cons, cid_nil. lia.
    + split; [eapply invC_ext; [..|apply invC_log, HC]; reflexivity|]. intros x. cbn [g_log g_put]. rewrite cid_app, cid_cons, cid_nil, HB.
      unfold bal. cbn [ks dfr g_log g_delivered g_discarded]. unfold items_of. cbn [map]. rewrite cid_cons. lia.
  - pose proof (promote_inv now s g (conj HC HB)) as [PC PB].
    unfold get_attempt. destruct ch as [k|].
    + destruct (get_commit k (promote now s)) as [[s2 it]|] eqn:Hc; cbn [fst snd]; [|split; assumption].
      split; [eapply core_commit; eauto|]. intros x. rewrite (bal_commit x k _ _ _ _ Hc). cbn [g_deliver g_put]. apply PB.
    + destruct (min_level (promote now s)); [destruct (Nat.ltb _ 1)|]; cbn [fst snd]; split; assumption.
  - destruct (task_done k s) as [s'|] eqn:Hd; cbn [fst snd]; [|split; assumption].
    split; [eapply core_done; eauto|]. intros x. rewrite (bal_done x k _ _ _ Hd). cbn [g_done g_put]. apply HB.
  - cbn [fst snd]. split; [eapply invC_ext; [..|apply invC_discard, HC]; reflexivity|].
    intros x. cbn [g_discard g_put]. rewrite HB. unfold bal, join_begin. cbn [ks dfr g_discard g_delivered g_discarded].
    rewrite cid_app. unfold items_of at 2. cbn [map]. rewrite cid_nil. lia.
  - cbn [fst snd]. split; assumption.
  - cbn [fst snd]. split; [eapply invC_ext; [..|exact HC]; reflexivity | exact HB].
  - cbn [fst snd]. split; assumption.
  - cbn [fst snd]. split; assumption.
  - cbn [fst snd]. split; assumption.
  - cbn [fst snd]. split; assumption.
Qed.

Lemma inv_gexec ops : Inv (fst (gexec ops)) (snd (gexec ops)).
Proof.
  unfold gexec. assert (H : forall sg, Inv (fst sg) (snd sg) -> Inv (fst (fold_left gstep ops sg)) (snd (fold_left gstep ops sg))).
  { induction ops as [|o ops IH]; intros sg Hs; [exact Hs|]. cbn [fold_left]. apply IH. destruct sg as [s g]. apply inv_gstep, Hs. }
  apply (H (empty, ghost0)), inv_empty.
Qed.

Lemma gexec_fst ops : fst (gexec ops) = exec ops.
Proof.
  unfold gexec, exec. assert (H : forall sg, fst (fold_left gstep ops sg) = fold_left (fun s o => fst (step s o)) ops (fst sg)).
  { induction ops as [|o ops IH]; intros [s g]; [reflexivity|]. cbn [fold_left]. rewrite IH. f_equal.
    unfold gstep. cbn [fst]. destruct (step s o) as [s0 b]. reflexivity. }
  apply (H (empty, ghost0)).
Qed.

(* ---------- C11 ---------- *)
(* exactly once: an item is never handed out more often than it was put; nothing is lost: every put item
   is queued, deferred, handed out, or was discarded by join() *)
Lemma conservation ops x : let '(s, g) := gexec ops in
  cid x (g_put g) = cid x (flat (ks s)) + cid x (items_of (dfr s)) + cid x (map snd (g_delivered g)) + cid x (g_discarded g).
Proof. pose proof (inv_gexec ops) as [_ HB]. destruct (gexec ops) as [s g]. apply HB. Qed.
Lemma delivered_at_most_put ops x : cid x (map snd (g_delivered (snd (gexec ops)))) <= cid x (g_put (snd (gexec ops))).
Proof. pose proof (conservation ops x) as H. destruct (gexec ops) as [s g]. cbn [snd]. lia. Qed.

(* per-FIFO order: what has been handed out from FIFO k is a prefix of what entered it, in the same order,
   and the rest is exactly the queue of k *)
Lemma fifo_order ops k : let '(s, g) := gexec ops in sel k (g_entered g) = sel k (g_delivered g) ++ fifo (kget k s).
Proof. pose proof (inv_gexec ops) as [HC _]. destruct (gexec ops) as [s g]. apply (i_order _ _ HC). Qed.

Lemma sum_q_flat l : sum_q l = length (flat l).
Proof. induction l as [|[k v] l IH]; [reflexivity|]. cbn [sum_q flat flat_map fold_right snd]. fold (sum_q l). fold (flat l). rewrite app_length, IH. reflexivity. Qed.

(* truthful sizes *)
Lemma sizes_truthful ops : let '(s, g) := gexec ops in
  qsize s = length (flat (ks s)) /\ inprogress_size s = sum_ip (ks s) /\ deferred_size s = length (dfr s) /\
  (forall k, fifo_size k s = length (fifo (kget k s)) + length (sel k (g_running g))).
Proof.
  pose proof (inv_gexec ops) as [HC _]. destruct (gexec ops) as [s g]. cbn [fst snd] in HC. destruct HC as [A B C D E F].
  repeat split; try reflexivity.
  - unfold qsize. rewrite A. apply sum_q_flat.
  - exact B.
  - intros k. unfold fifo_size. rewrite <- C. unfold kget. destruct (lookup k (ks s)); reflexivity.
Qed.

Lemma idle_iff ops k : let '(s, g) := gexec ops in fifo_size k s = 0 <-> fifo (kget k s) = [] /\ sel k (g_running g) = [].
Proof.
  pose proof (sizes_truthful ops) as H. destruct (gexec ops) as [s g]. destruct H as (_ & _ & _ & H). rewrite H.
  split.
  - intros E. split; [destruct (fifo (kget k s)); [reflexivity | cbn in E; lia] | destruct (sel k (g_running g)); [reflexivity | cbn in E; lia]].
  - intros [-> ->]. reflexivity.
Qed.

Lemma sum_ip_zero l : sum_ip l = 0 -> forall k v, lookup k l = Some v -> cnt v = 0.
Proof.
  induction l as [|[k' v'] l IH]; cbn [sum_ip fold_right snd lookup]; [discriminate|]. fold (sum_ip l). intros H k v.
  destruct (N.eqb k k'); [intros E; injection E as <-; lia | apply IH; lia].
Qed.

(* join() returns only when nothing is queued and nothing is running *)
Lemma join_sound ops : let '(s, g) := gexec ops in join_may_return s = true -> flat (ks s) = [] /\ g_running g = [].
Proof.
  pose proof (inv_gexec ops) as [HC _]. destruct (gexec ops) as [s g]. cbn [fst snd] in HC. destruct HC as [A B C D E F].
  unfold join_may_return. intros H. apply negb_true_iff, orb_false_iff in H as [H1 H2].
  apply Nat.ltb_ge in H1, H2. split.
  - assert (L : length (flat (ks s)) = 0) by (rewrite <- sum_q_flat, <- A; lia). destruct (flat (ks s)); [reflexivity | discriminate].
  - destruct (g_running g) as [|[k it] r] eqn:Er; [reflexivity|]. exfalso.
    specialize (C k). unfold sel in C. cbn [filter fst] in C. rewrite N.eqb_refl in C. cbn in C.
    assert (Hz : sum_ip (ks s) = 0) by lia.
    unfold kget in C. destruct (lookup k (ks s)) as [v|] eqn:Hl; [rewrite (sum_ip_zero _ Hz _ _ Hl) in C; discriminate | cbn in C; discriminate].
Qed.

(* no lost wake-up for join(): the exit condition is exactly the condition under which task_done notifies,
   and only a task_done can make it become true *)
Lemma join_condition_is_notify_condition s : join_may_return s = all_done s.
Proof.
  unfold join_may_return, all_done. destruct (total_q s), (total_ip s); reflexivity.
Qed.
Lemma promote_total_ip now s : total_ip (promote now s) = total_ip s /\ total_q s <= total_q (promote now s).
Proof.
  rewrite promote_eq. generalize (due now s). intros l.
  assert (H : forall s0, total_ip (enter_all l s0) = total_ip s0 /\ total_q s0 <= total_q (enter_all l s0)).
  { induction l as [|[[e it] k] l IH]; intros s0; [cbn; lia|]. cbn [enter_all fold_left]. fold (enter_all l (put_now it k s0)).
    destruct (IH (put_now it k s0)) as [H1 H2]. unfold put_now, with_ks in *. cbn [total_ip total_q] in *. lia. }
  apply (H (strip now s)).
Qed.
Lemma only_task_done_enables_join s o :
  join_may_return s = false -> join_may_return (fst (step s o)) = true -> exists k, o = Done k /\ all_done (fst (step s o)) = true.
Proof.
  intros H0 H1. assert (G : forall s', total_q s' = total_q s -> total_ip s' = total_ip s -> join_may_return s' = join_may_return s)
    by (intros s' E1 E2; unfold join_may_return; rewrite E1, E2; reflexivity).
  destruct o as [it k | now w it k | now ch | k | | | | | | | k]; cbn [step] in H1.
  - exfalso. unfold put_now, with_ks, join_may_return in H1. cbn [fst total_q total_ip] in H1. apply negb_true_iff, orb_false_iff in H1 as [_ H1]. discriminate.
  - exfalso. unfold put_deferred in H1. destruct (joining s); cbn [fst] in H1; [congruence|]. unfold join_may_return in *. cbn [total_q total_ip] in H1. congruence.
  - exfalso. unfold get_attempt in H1. pose proof (promote_total_ip now s) as [P1 P2].
    assert (J : join_may_return (promote now s) = true -> False).
    { unfold join_may_return in *. rewrite P1. intros J. apply negb_true_iff, orb_false_iff in J as [J1 J2]. apply Nat.ltb_ge in J1, J2.
      apply negb_false_iff, orb_true_iff in H0. rewrite !Nat.ltb_lt in H0. lia. }
    destruct ch as [k|].
    + destruct (get_commit k (promote now s)) as [[s2 it]|] eqn:Hc; cbn [fst] in H1; [|congruence].
      destruct (commit_shape _ _ _ _ Hc) as (t & c & _ & _ & _ & ->). unfold setk, with_ks, join_may_return in H1. cbn [total_q total_ip] in H1.
      apply negb_true_iff, orb_false_iff in H1 as [H1 _]. discriminate.
    + destruct (min_level (promote now s)); [destruct (Nat.ltb _ 1)|]; cbn [fst] in H1; try congruence; apply J, H1.
  - exists k. split; [reflexivity|]. rewrite <- join_condition_is_notify_condition. exact H1.
  - exfalso. unfold join_may_return, join_begin in *. cbn [fst total_q total_ip] in H1. congruence.
  - cbn [fst] in H1. congruence.
  - exfalso. unfold join_may_return, join_end in *. cbn [fst total_q total_ip] in H1. congruence.
  - cbn [fst] in H1. congruence.
  - cbn [fst] in H1. congruence.
  - cbn [fst] in H1. congruence.
  - cbn [fst] in H1. congruence.
Qed.

(* ---------- C12 (queue half) ---------- *)
Lemma sel_in k it l : In (k, it) l -> In it (sel k l).
Proof. intros H. unfold sel. apply in_map_iff. exists (k, it). split; [reflexivity|]. apply filter_In. split; [exact H | cbn; apply N.eqb_refl]. Qed.

(* while an exclusive item of k runs it is k's only running item *)
Lemma exclusive_alone ops k it : let '(s, g) := gexec ops in
  In (k, it) (g_running g) -> q_excl it = true -> sel k (g_running g) = [it] /\ mem k (locks s) = true.
Proof.
  pose proof (inv_gexec ops) as [HC _]. destruct (gexec ops) as [s g]. cbn [fst snd] in HC. destruct HC as [A B C D E F].
  intros Hin Hex. pose proof (F _ _ Hin Hex) as Hm. destruct (E k Hm) as [H1 _]. split; [|exact Hm].
  pose proof (sel_in _ _ _ Hin) as Hs. specialize (C k). rewrite H1 in C.
  destruct (sel k (g_running g)) as [|a [|b r]]; cbn in C; [destruct Hs | destruct Hs as [->|[]]; reflexivity | lia].
Qed.
(* ... and nothing else from k starts until it is done; an exclusive item starts only when nothing of k runs *)
Lemma locked_fifo_not_served s k s' it : get_commit k s = Some (s', it) -> mem k (locks s) = false.
Proof. intros H. destruct (commit_shape _ _ _ _ H) as (t & c & _ & Hm & _). exact Hm. Qed.
Lemma exclusive_starts_alone s k s' it : get_commit k s = Some (s', it) -> q_excl it = true -> cnt (kget k s) = 0.
Proof.
  intros H Hex. destruct (commit_shape _ _ _ _ H) as (t & c & Hl & _ & Hb & _). unfold kget. rewrite Hl. cbn.
  unfold head_blocks in Hb. rewrite Hex, andb_true_r in Hb. apply negb_false_iff, Nat.eqb_eq in Hb. exact Hb.
Qed.

(* fairness: the served FIFO has the fewest running items among the eligible ones *)
Lemma min_level_le s : forall l m, fold_right (fun kv acc => if eligible s kv then
                              match acc with None => Some (cnt (snd kv)) | Some m => Some (Nat.min m (cnt (snd kv))) end
                            else acc) None l = Some m -> forall kv, In kv l -> eligible s kv = true -> m <= cnt (snd kv).
Proof.
  induction l as [|a l IH]; intros m Hm kv Hin He; [destruct Hin|]. cbn [fold_right] in Hm.
  destruct (eligible s a) eqn:Ea.
  - destruct (fold_right _ None l) as [m'|] eqn:Ef.
    + injection Hm as <-. destruct Hin as [->|Hin]; [lia|]. specialize (IH m' eq_refl kv Hin He). lia.
    + injection Hm as <-. destruct Hin as [->|Hin]; [lia|]. exfalso.
      clear - Ef Hin He. induction l as [|b l IHl]; [destruct Hin|]. cbn [fold_right] in Ef. destruct Hin as [->|Hin].
      * rewrite He in Ef. destruct (fold_right _ None l); discriminate.
      * destruct (eligible s b); [destruct (fold_right _ None l); discriminate | auto].
  - destruct Hin as [->|Hin]; [congruence|]. eapply IH; eauto.
Qed.
Lemma lookup_in k v l : lookup k l = Some v -> In (k, v) l.
Proof. induction l as [|[k' v'] l IH]; cbn; [discriminate|]. destruct (N.eqb_spec k k') as [->|]; [intros E; injection E as <-; left; reflexivity | intros H; right; auto]. Qed.
Lemma fair_choice s k s' it : get_commit k s = Some (s', it) ->
  forall k' v', lookup k' (ks s) = Some v' -> eligible s (k', v') = true -> cnt (kget k s) <= cnt v'.
Proof.
  unfold get_commit. destruct (admissible s k) eqn:Ha; [|discriminate]. intros _ k' v' Hl He.
  unfold admissible in Ha. unfold kget. destruct (lookup k (ks s)) as [v|]; [|discriminate].
  destruct (min_level s) as [m|] eqn:Hm; [|discriminate]. apply andb_true_iff in Ha as [_ Hc]. apply Nat.eqb_eq in Hc. rewrite Hc.
  apply (min_level_le s (ks s) m Hm (k', v') (lookup_in _ _ _ Hl) He).
Qed.

(* deferral: an entry is promoted only when its expiry has passed; until then it stays deferred *)
Lemma in_dinsert d a l : In d (dinsert a l) <-> d = a \/ In d l.
Proof. induction l as [|b l IH]; cbn; [intuition congruence|]. destruct (dle a b); cbn; [intuition congruence|]. rewrite IH. intuition congruence. Qed.
Lemma in_dsort d l : In d (dsort l) <-> In d l.
Proof. induction l as [|a l IH]; [reflexivity|]. cbn [dsort fold_right]. fold (dsort l). rewrite in_dinsert, IH. cbn. intuition congruence. Qed.
Lemma promoted_only_after_expiry now s e it k : In (e, it, k) (due now s) -> (e <= now)%Z /\ In (e, it, k) (dfr s).
Proof. unfold due. rewrite in_dsort, filter_In. intros [H1 H2]. cbn in H2. split; [apply Z.leb_le, H2 | exact H1]. Qed.
Lemma enter_all_dfr l s : dfr (enter_all l s) = dfr s.
Proof. revert s; induction l as [|[[e it] k] l IH]; intros s; [reflexivity|]. cbn [enter_all fold_left]. fold (enter_all l (put_now it k s)). rewrite IH. reflexivity. Qed.
Lemma not_yet_expired_stays now s e it k : In (e, it, k) (dfr s) -> (now < e)%Z -> In (e, it, k) (dfr (promote now s)).
Proof.
  intros Hin Hlt. rewrite promote_eq, enter_all_dfr. unfold strip. cbn [dfr]. apply filter_In. split; [exact Hin|].
  cbn. apply negb_true_iff, Z.leb_gt, Hlt.
Qed.
Lemma deferred_expiry now w it k s : joining s = false ->
  put_deferred now w it k s = ({| ks := ks s; locks := locks s; total_q := total_q s; total_ip := total_ip s;
                                   dfr := ((now + w)%Z, it, k) :: dfr s; joining := joining s |}, true).
Proof. unfold put_deferred. intros ->. reflexivity. Qed.

(* the upstream test_exclusive_task scenario plus a deferral, executed in the model *)
Definition qi (n : N) (e : bool) := {| q_id := n; q_excl := e |}.
Definition ex_ops : list op :=
  [Put (qi 1 false) 7; Put (qi 2 true) 7; Put (qi 3 false) 7; PutDeferred 0 5 (qi 4 false) 8;
   GetAttempt 1 (Some 7%N); GetAttempt 1 None; Done 7; GetAttempt 2 (Some 7%N); GetAttempt 2 None; FSize 7; Done 7;
   GetAttempt 6 (Some 8%N); GetAttempt 6 (Some 7%N); QSize; IPSize].
Lemma example_run : run empty ex_ops =
  [ONone; ONone; ONone; OBool true; OItem (Some 1%N); OItem None; ONone; OItem (Some 2%N); OItem None; ONat 2; ONone;
   OItem (Some 4%N); OItem (Some 3%N); ONat 0; ONat 2].
Proof. vm_compute. reflexivity. Qed.
