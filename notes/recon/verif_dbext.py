import peewee as pw
_db = None
def _connect(config):
    global _db
    if _db is None:
        _db = pw.SqliteDatabase(config["path"])
    return _db
def _detect(path, node):
    if len(path.parts) < 2: return None, None
    return path.parts[0], None
def register_extension():
    return {"database": {"connect": _connect, "reentrant": False}, "import-detect": _detect}
