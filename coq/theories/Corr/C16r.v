(* Correspondence for the rule configuration commands (C16): node -> group map, the commands, and for every (node, group) pair the
   two flags read back from the real StorageTransferAction table; plus what each command answered *)
From Coq Require Import List NArith Bool.
From Alp Require Import Base.Types Model.Rules.
Import ListNotations.
Open Scope N_scope.
Fixpoint assoc (l : list (N * N)) (n : N) : N := match l with [] => 0 | (a, b) :: l' => if N.eqb a n then b else assoc l' n end.
Definition K (f : flag) (n g : N) (b : bool) : cmd := {| c_flag := f; c_node := n; c_group := g; c_enable := b |}.
Definition out_code (o : outcome) : N := match o with Refused => 0 | NoChange => 1 | Changed => 2 end.
Fixpoint outcomes (go : N -> N) (t : table) (cs : list cmd) : list N :=
  match cs with [] => [] | c :: cs' => let '(t', o) := step go t c in out_code o :: outcomes go t' cs' end.
(* (node groups, commands, observed outcome codes, observed flags: (node, group, sync, clean) for every pair) *)
Definition rcase := (list (N * N) * list cmd * list N * list (N * N * bool * bool))%type.
Definition rcheck (c : rcase) : bool :=
  let '(groups, cs, outs, flags) := c in
  let go := assoc groups in
  let t := run go cs [] in
  list_eqb N.eqb (outcomes go [] cs) outs
  && forallb (fun x => let '(n, g, s, cl) := x in Bool.eqb (eff FSync n g t) s && Bool.eqb (eff FClean n g t) cl) flags.
