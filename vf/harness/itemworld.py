"""Single-item worlds for the Item model (Model/Item.v): one file, its source copy, its destination copy, one request.
realize() builds the Sim spec for a model state and environment; project() reads the model state back from the real index and trees."""
from __future__ import annotations

import itertools
import pathlib

from vf.core import cbool
from vf.harness import daemon
from vf.harness import world as w

HAS = {"Y": "HY", "M": "HM", "X": "HX", "N": "HN"}
WANTS = {"Y": "WY", "M": "WM", "N": "WN"}
BYTES = {None: "None", "good": "(Some Good)", "bad": "(Some Bad)"}
REQ = {"pending": "Pending", "completed": "Completed", "cancelled": "Cancelled"}

# transports: name -> (local?, tools dir, (trusted, inproc), source storage type)
TRANSPORTS = {
    "bbcp": (False, "bbcp", (False, False), "F"),
    "rsync": (False, "rsync", (True, False), "F"),
    "hardlink": (True, "both", (True, True), "A"),
    "internal": (True, "none", (False, True), "F"),
    "notool": (False, "none", (True, False), "F"),
    "noroute": (False, "both", (True, False), "F"),
}
# stand-in modes -> model behaviour
BEH = {"ok": "BWorks", "fail": "(BFail true LNone)", "mkstemp": "(BFail false LNone)", "write_failed": "(BFail false LNone)",
       "die_tmp": "(BFail true LTmp)", "die_partial": "(BFail true LPartial)"}


def citem(i):
    row = "None" if i["dst_row"] is None else f"(Some ({HAS[i['dst_row'][0]]}, {WANTS[i['dst_row'][1]]}))"
    return (f"{{| src_has := {HAS[i['src_has']]}; src_disk := {BYTES[i['src_disk']]}; dst_row := {row}; dst_disk := {BYTES[i['dst_disk']]}; "
            f"ph := {cbool(i["ph"])}; tmp := {cbool(i["tmp"])}; stg := false; req := {REQ[i['req']]}; due := false |}}")


def cenv(e):
    tr, inproc = TRANSPORTS[e["transport"]][2]
    rt = {"notool": "NoTool", "noroute": "NoRoute"}.get(e["transport"], "Tool")
    return (f"{{| src_active := {cbool(e['src_active'])}; dst_usable := {cbool(e['dst_usable'])}; gate_ok := {cbool(e['gate_ok'])}; rt := {rt}; "
            f"te := {{| trusted := {cbool(tr)}; inproc := {cbool(inproc)} |}}; del_ok := {cbool(e['del_ok'])} |}}")


def spec_of(i, e):
    local, _, _, stype = TRANSPORTS[e["transport"]]
    src = {"name": "s", "group": "gs", "stype": stype, "host": "h2" if local else "h1", "active": e["src_active"]}
    if e["transport"] != "noroute":
        src.update(username="u", address="addr")
    dst = {"name": "d", "group": "gd", "stype": "A", "host": "h2", "active": e["dst_usable"]}
    if not e["gate_ok"]:
        dst["min_avail_gb"] = 10 ** 7
    nodes = [src, dst]
    copies = [{"file": 0, "node": "s", "has": i["src_has"], "wants": "Y", "disk": {None: "absent", "good": "ok", "bad": "corrupt"}[i["src_disk"]]}]
    if i["dst_row"] is not None:
        copies.append({"file": 0, "node": "d", "has": i["dst_row"][0], "wants": i["dst_row"][1], "disk": {None: "absent", "good": "ok", "bad": "corrupt"}[i["dst_disk"]]})
    if e["del_ok"]:
        for k in (1, 2, 3):
            nodes.append({"name": f"x{k}", "group": "gx", "stype": "A", "host": "h3"})
            copies.append({"file": 0, "node": f"x{k}", "has": "Y", "wants": "Y"})
    reqs = [{"file": 0, "from": "s", "to": "gd", "state": i["req"]}]
    return {"groups": [{"name": "gs"}, {"name": "gd"}, {"name": "gx"}], "nodes": nodes, "acqs": ["acq"], "files": [{"acq": "acq", "name": "sub/f", "size": 10}],
            "copies": copies, "reqs": reqs}


def build(base, i, e, mode="ok"):
    sim = daemon.Sim(base, spec_of(i, e))
    tool = TRANSPORTS[e["transport"]][1]
    sim.set_tools(tool, **({} if mode == "ok" else {"rsync": mode, "bbcp": mode}))
    d = pathlib.Path(sim.nodes["d"].root, "acq", "sub")
    good = sim.files[0][1]
    if i["dst_row"] is None and i["dst_disk"] is not None:
        d.mkdir(parents=True, exist_ok=True)
        (d / "f").write_bytes(good if i["dst_disk"] == "good" else good[:-1] + b"!")
    if i["ph"]:
        d.mkdir(parents=True, exist_ok=True)
        (d / ".f.placeholder").write_bytes(b"")
    return sim


def classify(path, good):
    try:
        data = daemon._real.get("builtins.open", open)(path, "rb").read()
    except OSError:
        return None
    return "good" if data == good else "bad"


def project(sim):
    good = sim.files[0][1]
    s, d = sim.nodes["s"], sim.nodes["d"]
    f = sim.files[0][0]
    src = w.ArchiveFileCopy.get(file=f, node=s)
    dst = w.ArchiveFileCopy.get_or_none(file=f, node=d)
    r = w.ArchiveFileCopyRequest.get(id=1)
    ddir = pathlib.Path(d.root, "acq", "sub")
    tmp = False
    acq = pathlib.Path(d.root, "acq")
    if acq.is_dir():
        for p in acq.rglob("*"):
            if p.name.startswith(".") and p.name != ".f.placeholder":
                tmp = True
    return {"src_has": src.has_file, "src_disk": classify(pathlib.Path(s.root, "acq", "sub", "f"), good),
            "dst_row": None if dst is None else (dst.has_file, dst.wants_file), "dst_disk": classify(ddir / "f", good),
            "ph": (ddir / ".f.placeholder").exists(), "tmp": tmp,
            "req": "completed" if r.completed else "cancelled" if r.cancelled else "pending"}


def hosts_of(e):
    return ["h2"] if TRANSPORTS[e["transport"]][0] else ["h1", "h2"]
