(* Correspondence for C10: scripted tasks run by the real Worker.run with injected database faults *)
From Coq Require Import List NArith ZArith Bool Arith.
From Alp Require Import Base.Str Base.Types Model.Worker.
Import ListNotations.
(* (faulty statements, requeue flag, segments of the body, per delivery:
     (started clean-ups, task_done calls, worker exited, global abort, a fresh copy queued, re-queued itself)) *)
Definition obs := (list nat * nat * bool * bool * bool * bool)%type.
Definition case := (list nat * bool * list (list act) * list obs)%type.
Definition obs_eqb (a b : obs) : bool :=
  let '(s1, d1, e1, g1, c1, y1) := a in let '(s2, d2, e2, g2, c2, y2) := b in
  list_eqb Nat.eqb s1 s2 && Nat.eqb d1 d2 && Bool.eqb e1 e2 && Bool.eqb g1 g2 && Bool.eqb c1 c2 && Bool.eqb y1 y2.
Definition of_result (r : result) : obs :=
  (started r, task_done_calls r, worker_exits r, global_abort r, requeued_copy r, requeued_self r).
(* deliveries continue while the task re-queues itself; a worker exit or an abort ends the run *)
Fixpoint deliveries (fault : stmt -> bool) (requeue : bool) (dq : list cleanup) (segs : list (list act)) : list obs :=
  match segs with
  | [] => []
  | acts :: rest =>
      let r := worker_iteration fault requeue (match rest with [] => true | _ => false end) dq acts in
      of_result r :: (if requeued_self r then deliveries fault requeue (left_over r) rest else [])
  end.
Definition check (c : case) : bool :=
  let '(faults, requeue, segs, obs) := c in
  list_eqb obs_eqb (deliveries (fun s => existsb (Nat.eqb s) faults) requeue [] segs) obs.
(* retry: (autoconnect, in transaction, first attempt fails, second fails, (attempts, error reported)) *)
Definition rcase := (bool * bool * bool * bool * (nat * bool))%type.
Definition rcheck (c : rcase) : bool :=
  let '(a, t, f1, f2, (n, e)) := c in let '(n', e') := execute_sql a t f1 f2 in Nat.eqb n n' && Bool.eqb e e'.
