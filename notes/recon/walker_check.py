import random, math
def get(live, cur, n):
    live = sorted(live)
    items = [i for i in live if i >= cur][:n]
    n -= len(items)
    while n > 0:
        more = live[:n]
        if not more: raise LookupError
        items += more; n -= len(more)
    return items, items[-1] + 1
def interval(live, cur, x):
    if cur <= x: return {y for y in live if cur <= y < x}
    return {y for y in live if y >= cur or y < x}
random.seed(1); worst = 0; bad = 0
for trial in range(200000):
    N = random.randint(1, 8); k = random.randint(1, 10)
    live = set(random.sample(range(1, 30), N)); x = random.choice(sorted(live)); nextid = 31
    cur = random.choice(sorted(live)); m = len(interval(live, cur, x)); a = 0; calls = 0
    while True:
        items, cur2 = get(live, cur, k); calls += 1
        if x in items: break
        cur = cur2
        # mutate: remove some (not x), add some (fresh max ids or re-activated old ids)
        new = set(live)
        for y in list(new):
            if y != x and random.random() < 0.2: new.discard(y)
        for _ in range(random.randint(0, 2)):
            y = nextid if random.random() < 0.5 else random.randint(1, 29); nextid += 1
            if y not in new:
                new.add(y)
                if y in interval(new, cur, x): a += 1
        live = new
        if calls > 200: break
    bound = math.ceil((m + a) / k) + 1
    if calls > bound: bad += 1; print("VIOLATION", N, k, m, a, calls, bound); break
    worst = max(worst, calls - bound)
print("bad", bad, "max(calls-bound)", worst)
