"""C18 — node clean / node verify / node+group sync / file clean select the documented records, idempotently."""
import ast
import json

from vf import core
from vf.core import cbool, clist, cn, copt, ctup, cz
from vf.translate import core as T
from vf.harness import cliworld as cw

TRUSTED = [
    "Coq 8.16.1 kernel + VM; no native_compute",
    "hand-written model of the selections (Model/CliSelect.v); the tie is correspondence: the real commands run through click on sqlite and the resulting tables are compared with the model's in Coq; "
    "T1 checks the literal query filters of state_constraint and the --days computation textually",
    "registration times enter the model as whole seconds relative to the invocation; sqlite/peewee query semantics by correspondence",
]
RULE = ("all option combinations of node clean (--now/--cancel/--acq/--days/--file-list incl. empty/--size/--target/--include-bad), node verify (state flags, --cancel, --acq, --file-list), "
        "node sync / group sync (--acq, --file-list, --target, --cancel, --all) and file clean (--node, --now, --cancel) over random indexes (copies in every state, sizes known or not, "
        "registration in the past and future, several groups and acquisitions); each invocation is run with --force, then repeated (idempotence) and also run with --check (same set reported); "
        "non-trivial = the command selects at least one record; distinct by (command, options, index)")

HAS = {"Y": "HY", "M": "HM", "X": "HX", "N": "HN"}
WANTS = {"Y": "WY", "M": "WM", "N": "WN"}


def gen(ctx):
    """T1 (textual): the filters the model mirrors must still be the ones in the source"""
    opt = (core.REPO / "alpenhorn/cli/options.py").read_text()
    cl = (core.REPO / "alpenhorn/cli/node/clean.py").read_text()
    fc = (core.REPO / "alpenhorn/cli/file/clean.py").read_text()
    needles = [
        (opt, '(ArchiveFileCopy.has_file == "X") & (ArchiveFileCopy.wants_file != "N")'),
        (opt, 'missing_expr = (ArchiveFileCopy.has_file == "N") & (\n            ArchiveFileCopy.wants_file == "Y"\n        )'),
        (cl, "days = utcnow() - datetime.timedelta(days=-days)"),
        (cl, "query = query.where(ArchiveFile.registered > days)"),
        (cl, 'query = query.where(ArchiveFileCopy.wants_file == "Y")'),
        (cl, "query = query.where(ArchiveFileCopy.wants_file != clean_goal)"),
        (cl, "if listed_files is not None:"),
        (cl, "size = int(size * 2**30)"),
        (fc, 'query = query.where(ArchiveFileCopy.has_file != "N")'),
    ]
    for src, n in needles:
        if n not in src:
            raise T.Untranslatable(f"UNTRANSLATABLE: expected filter text not found: {n[:70]}")
    return {}


def proofs(ctx):
    try:
        gen(ctx)
        ctx.attempted.append("T1.textual_filters")
        ctx.obligations.append("T1.textual_filters")
    except T.Untranslatable as e:
        ctx.broke("translator", "cli selection filters", str(e))
    core.check_property_file(ctx, "C18.v")


# ---- index -> model terms ----------------------------------------------------------------------------------------
class Ix:
    def __init__(self, spec, base):
        self.spec = spec
        self.sdb = cw.build(spec, base)
        w = cw.w
        self.w = w
        self.node_id = {n.name: n.id for n in w.StorageNode.select()}
        self.group_id = {g.name: g.id for g in w.StorageGroup.select()}
        self.acq_id = {a.name: a.id for a in w.ArchiveAcq.select()}
        self.files = list(w.ArchiveFile.select().order_by(w.ArchiveFile.id))
        self.file_id = {f"{f.acq.name}/{f.name}": f.id for f in self.files}

    def copies(self):
        w = self.w
        return [(c.id, c.file_id, c.node_id, c.has_file, c.wants_file) for c in w.ArchiveFileCopy.select().order_by(w.ArchiveFileCopy.id)]

    def reqs(self):
        w = self.w
        return [(r.id, r.file_id, r.node_from_id, r.group_to_id, bool(r.completed), bool(r.cancelled)) for r in w.ArchiveFileCopyRequest.select().order_by(w.ArchiveFileCopyRequest.id)]

    def term(self):
        w = self.w
        cs = clist([f"(K {cn(i)} {cn(f)} {cn(n)} {HAS[h]} {WANTS[wt]})" for (i, f, n, h, wt) in self.copies()], "cpy")
        fs = []
        for f, fs_ in zip(self.files, self.spec["files"]):
            d = fs_["reg_days_ago"] or 0
            reg = -d * 86400 - 60 if d >= 0 else -d * 86400 + 60
            fs.append(f"(F {cn(f.id)} {cn(f.acq_id)} {copt(fs_['size'], cz, 'Z')} {cz(reg)})")
        rs = clist([f"(Q {cn(i)} {cn(f)} {cn(a)} {cn(b)} {cbool(d)} {cbool(c)})" for (i, f, a, b, d, c) in self.reqs()], "rq")
        ng = clist([ctup(cn(n.id), cn(n.group_id)) for n in w.StorageNode.select().order_by(w.StorageNode.id)], "(N * N)")
        return f"(IX {cs} {clist(fs, 'fil')} {rs} {ng})"


def write_list(rng, base, ix, kind):
    """kind: None | 'some' | 'empty' | 'comment' -> (args, listed file ids or None)"""
    if kind is None:
        return [], None
    paths = sorted(ix.file_id)
    if kind == "some":
        chosen = rng.sample(paths, rng.randint(1, min(3, len(paths))))
        lines = chosen + ([""] if rng.random() < 0.3 else [])
    elif kind == "empty":
        chosen, lines = [], []
    else:
        chosen, lines = [], ["# nothing matched", ""]
    fl = base / f"fl{rng.getrandbits(28)}.txt"
    fl.write_text("".join(l + "\n" for l in lines))
    return [f"--file-list={fl}"], [ix.file_id[p] for p in chosen]


def lopt(l):
    return copt(l, lambda x: clist([cn(i) for i in x], "N"), "(list N)")


# ---- documented behaviour (Python monitor, written from the help texts) ---------------------------------------------
def doc_in_group(copies, ngroup, g, f, skip=None):
    """file f is available (healthy, not released) on a node of group g; for `node clean` the node being cleaned does not count"""
    return any(cf == f and ngroup[cn_] == g and h == "Y" and wt != "N" and cn_ != skip for (_, cf, cn_, h, wt) in copies)


def doc_clean(ix, o, copies, fsize, facq, freg_days, days_as_implemented=False):
    """expected (id -> new wants) per the node clean help text (or, for classifying the known finding KF-C18a,
    with the --days comparison as the code computes it: registered later than now + COUNT days)"""
    ngroup = {n.id: n.group_id for n in ix.w.StorageNode.select()}
    goal = o["goal"]
    cands = []
    for (i, f, n, h, wt) in copies:
        if n != o["node"]:
            continue
        if not (h != "N" if o["bad"] else h == "Y"):
            continue
        if o["acqs"] and facq[f] not in o["acqs"]:
            continue
        if o["listed"] is not None and f not in o["listed"]:
            continue
        if o["days"] is not None:
            if days_as_implemented:
                if not (-freg_days[f] > o["days"]):
                    continue
            elif not (freg_days[f] > o["days"]):  # registered more than COUNT days ago
                continue
        if o["targets"] and not all(doc_in_group(copies, ngroup, g, f, skip=o["node"]) for g in o["targets"]):
            continue
        cands.append((i, f, wt))
    out = {}
    if o["size"] is None:
        for (i, f, wt) in cands:
            if goal == "M":
                if wt == "Y":
                    out[i] = "M"
            elif wt != goal:
                out[i] = goal
        return out
    total = 0
    for (i, f, wt) in cands:
        total += fsize[f] or 0
        sat = wt == goal or (goal == "M" and wt == "N")
        if not sat:
            out[i] = goal
        if total >= o["size"]:
            break
    return out


# ---- one invocation of each command family ----------------------------------------------------------------------------
def clean_options(rng, base, spec, ix):
    node = rng.choice(spec["nodes"])
    o = {"node": ix.node_id[node["name"]], "acqs": [], "days": None, "listed": None, "size": None, "targets": [], "goal": "M", "bad": rng.random() < 0.3}
    args = [node["name"], "--force", "--archive-ok"]
    mode = rng.choice(["mark", "now", "cancel"])
    if mode == "now":
        args.append("--now")
        o["goal"] = "N"
    elif mode == "cancel":
        args.append("--cancel")
        o["goal"] = "Y"
    if o["bad"]:
        args.append("--include-bad")
    if rng.random() < 0.3:
        a = rng.sample(spec["acqs"], rng.randint(1, len(spec["acqs"])))
        args += [f"--acq={x}" for x in a]
        o["acqs"] = [ix.acq_id[x] for x in a]
    if rng.random() < 0.3:
        d = rng.choice([1, 2, 3, 7])
        args.append(f"--days={d}")
        o["days"] = d
    la, listed = write_list(rng, base, ix, rng.choice([None, None, "some", "some", "empty", "comment"]))
    args += la
    o["listed"] = listed
    if mode != "cancel" and rng.random() < 0.35:
        s = rng.choice([0.5, 1.0, 1.5, 2.0, 3.0])
        args.append(f"--size={s}")
        o["size"] = int(s * 2 ** 30)
    if rng.random() < 0.4:
        t = rng.sample(spec["groups"], rng.choice([1, len(spec["groups"]), rng.randint(1, len(spec["groups"]))]))
        args += [f"--target={x}" for x in t]
        o["targets"] = [ix.group_id[x] for x in t]
    return args, o


def run_clean(ctx, rng, base, spec, cases, forced=None):
    ix = Ix(spec, base)
    w = ix.w
    if forced is not None:
        # a fixed invocation (corpus): {"node": name, "mode": mark|now|cancel, "size": GiB or None, "bad": bool}
        node = next(n for n in spec["nodes"] if n["name"] == forced["node"])
        o = {"node": ix.node_id[node["name"]], "acqs": [], "days": None, "listed": None, "size": None, "targets": [], "goal": {"mark": "M", "now": "N", "cancel": "Y"}[forced["mode"]], "bad": forced.get("bad", False)}
        args = [node["name"], "--force", "--archive-ok"] + {"mark": [], "now": ["--now"], "cancel": ["--cancel"]}[forced["mode"]] + (["--include-bad"] if o["bad"] else [])
        if forced.get("size") is not None:
            args.append(f"--size={forced['size']}")
            o["size"] = int(forced["size"] * 2 ** 30)
        for t in forced.get("targets", []):
            args.append(f"--target={t}")
            o["targets"].append(ix.group_id[t])
    else:
        args, o = clean_options(rng, base, spec, ix)
    before = ix.copies()
    idx_term = ix.term()
    # --check first: must not change anything and report the same number of files
    code0, out0, exc0 = cw.invoke("node clean", [a for a in args if a != "--force"] + ["--check"])
    if ix.copies() != before:
        ctx.fail("C18:check-mutates", f"node clean {args} --check changed the index", {"family": "clean", "args": args, "spec": spec})
    code, out, exc = cw.invoke("node clean", args)
    after = ix.copies()
    ctx.count("node-clean")
    rp = {"family": "clean", "args": args, "spec": spec}
    if exc is not None or code != 0:
        ctx.fail("C18:refused", f"node clean {args} failed: exit {code} {exc} {out[-200:]}", rp)
        return
    changed = {a[0]: a[4] for a, b in zip(after, before) if a != b}
    if any(a[:4] != b[:4] for a, b in zip(after, before)):
        ctx.fail("C18:clean-touches-other-fields", f"node clean {args} changed something other than wants_file", rp)
    if changed:
        ctx.distinct_add(("clean", tuple(args[1:]), json.dumps(spec, sort_keys=True)))
    # the same set is reported in check mode
    import re

    def reported(text):
        m = re.search(r"(?:Would mark|Would release|Would cancel|Marking|Releasing|Cancelling) (\d+) files?", text)
        return int(m.group(1)) if m else 0

    if reported(out0) != len(changed):
        ctx.fail("C18:check-reports-different-set", f"node clean {args}: --check announces {reported(out0)} files, the update changed {len(changed)}", rp)
    # documented selection (monitor)
    fsize = {f.id: s["size"] for f, s in zip(ix.files, spec["files"])}
    facq = {f.id: f.acq_id for f in ix.files}
    freg = {f.id: (s["reg_days_ago"] or 0) + (1e-3 if (s["reg_days_ago"] or 0) >= 0 else -1e-3) for f, s in zip(ix.files, spec["files"])}
    exp = doc_clean(ix, o, before, fsize, facq, freg)
    if exp != changed:
        # the known finding is exactly "the --days comparison is inverted and nothing else is wrong"
        only_days = o["days"] is not None and doc_clean(ix, o, before, fsize, facq, freg, days_as_implemented=True) == changed
        sig = "C18:days-filter-inverted" if only_days else "C18:clean-selection"
        ctx.fail(sig, f"node clean {' '.join(args[1:])}: changed {changed}, documented selection {exp}", rp)
    # idempotence
    idx_term2 = ix.term()
    code2, out2, exc2 = cw.invoke("node clean", args)
    after2 = ix.copies()
    if after2 != after:
        ctx.fail("C18:not-idempotent", f"node clean {args} repeated changed more records: {[(a[0], b[4], a[4]) for a, b in zip(after2, after) if a != b]}", rp)
    cases["c"].append((ctup(idx_term, f"(CO {cn(o['node'])} {clist([cn(a) for a in o['acqs']], 'N')} {copt(o['days'], cz, 'Z')} {lopt(o['listed'])} {copt(o['size'], cz, 'Z')} "
                            f"{clist([cn(t) for t in o['targets']], 'N')} {WANTS[o['goal']]} {cbool(o['bad'])})",
                            clist([ctup(cn(c[0]), WANTS[c[4]]) for c in after], "(N * wants)")), rp))
    # the repeated command is a case of its own: the model on the index the first run left behind
    cases["c"].append((ctup(idx_term2, f"(CO {cn(o['node'])} {clist([cn(a) for a in o['acqs']], 'N')} {copt(o['days'], cz, 'Z')} {lopt(o['listed'])} {copt(o['size'], cz, 'Z')} "
                            f"{clist([cn(t) for t in o['targets']], 'N')} {WANTS[o['goal']]} {cbool(o['bad'])})",
                            clist([ctup(cn(c[0]), WANTS[c[4]]) for c in after2], "(N * wants)")), dict(rp, repeated=True)))


def run_verify(ctx, rng, base, spec, cases):
    ix = Ix(spec, base)
    node = rng.choice(spec["nodes"])
    cancel = rng.random() < 0.35
    flags = {"corrupt": False, "healthy": False, "missing": False, "all": False}
    if cancel:
        k = rng.choice([None, "corrupt", "healthy", "missing"])
        if k:
            flags[k] = True
    else:
        for k in flags:
            flags[k] = rng.random() < 0.3
    args = [node["name"], "--force"] + (["--cancel"] if cancel else []) + [f"--{k}" for k, v in flags.items() if v]
    acqs = []
    if rng.random() < 0.3:
        a = rng.sample(spec["acqs"], rng.randint(1, len(spec["acqs"])))
        args += [f"--acq={x}" for x in a]
        acqs = [ix.acq_id[x] for x in a]
    la, listed = write_list(rng, base, ix, rng.choice([None, None, "some", "empty", "comment"]))
    args += la
    before = ix.copies()
    idx_term = ix.term()
    code, out, exc = cw.invoke("node verify", args)
    after = ix.copies()
    ctx.count("node-verify")
    rp = {"family": "verify", "args": args, "spec": spec}
    if exc is not None or code != 0:
        ctx.fail("C18:refused", f"node verify {args} failed: exit {code} {exc} {out[-200:]}", rp)
        return
    # documented selection
    nid = ix.node_id[node["name"]]
    facq = {f.id: f.acq_id for f in ix.files}
    exp = {}
    for (i, f, n, h, wt) in before:
        if n != nid or (acqs and facq[f] not in acqs) or (listed is not None and f not in listed):
            continue
        if cancel:
            if h == "M" and wt != "N":
                exp[i] = "Y" if flags["healthy"] else "N" if flags["missing"] else "X"
        else:
            c, hl, m = flags["corrupt"], flags["healthy"], flags["missing"]
            if flags["all"]:
                c = hl = m = True
            elif not (c or hl or m):
                c = m = True
            if (c and h == "X" and wt != "N") or (hl and h == "Y" and wt != "N") or (m and h == "N" and wt == "Y"):
                exp[i] = "M"
    changed = {a[0]: a[3] for a, b in zip(after, before) if a != b}
    if changed:
        ctx.distinct_add(("verify", tuple(args[1:]), json.dumps(spec, sort_keys=True)))
    if changed != exp:
        ctx.fail("C18:verify-selection", f"node verify {' '.join(args[1:])}: changed {changed}, documented selection {exp}", rp)
    cw.invoke("node verify", args)
    if ix.copies() != after:
        ctx.fail("C18:not-idempotent", f"node verify {args} repeated changed more records", rp)
    cases["v"].append((ctup(idx_term, f"(VO {cn(nid)} {clist([cn(a) for a in acqs], 'N')} {lopt(listed)} {cbool(cancel)} {cbool(flags['corrupt'])} {cbool(flags['healthy'])} {cbool(flags['missing'])} {cbool(flags['all'])})",
                            clist([ctup(cn(c[0]), HAS[c[3]]) for c in after], "(N * has)")), rp))


def run_sync(ctx, rng, base, spec, cases):
    ix = Ix(spec, base)
    node = rng.choice(spec["nodes"])
    group = rng.choice(spec["groups"])
    which = rng.choice(["node sync", "group sync"])
    cancel = rng.random() < 0.4
    use_all = cancel and rng.random() < 0.3
    if which == "node sync":
        args = [node["name"]] + ([] if use_all else [group])
        n_opt, g_opt = ix.node_id[node["name"]], (None if use_all else ix.group_id[group])
    else:
        args = [group] + ([] if use_all else [node["name"]])
        g_opt, n_opt = ix.group_id[group], (None if use_all else ix.node_id[node["name"]])
    args += ["--force"] + (["--cancel"] if cancel else []) + (["--all"] if use_all else [])
    acqs, targets = [], []
    if rng.random() < 0.3:
        a = rng.sample(spec["acqs"], rng.randint(1, len(spec["acqs"])))
        args += [f"--acq={x}" for x in a]
        acqs = [ix.acq_id[x] for x in a]
    # the file list is resolved against the node's root, which only matters for absolute paths
    la, listed = write_list(rng, base, ix, rng.choice([None, None, "some", "empty", "comment"]))
    args += la
    if not cancel and rng.random() < 0.3:
        t = rng.sample(spec["groups"], rng.randint(1, len(spec["groups"])))
        args += [f"--target={x}" for x in t]
        targets = [ix.group_id[x] for x in t]
    before = ix.reqs()
    copies = ix.copies()
    idx_term = ix.term()
    code, out, exc = cw.invoke(which, args)
    after = ix.reqs()
    ctx.count("sync")
    rp = {"family": "sync", "command": which, "args": args, "spec": spec}
    if exc is not None or code != 0:
        ctx.fail("C18:refused", f"{which} {args} failed: exit {code} {exc} {out[-200:]}", rp)
        return
    # documented selection
    facq = {f.id: f.acq_id for f in ix.files}
    ngroup = {n.id: n.group_id for n in ix.w.StorageNode.select()}
    if cancel:
        exp_after = []
        for (i, f, a, b, d, c) in before:
            hit = (not d and not c and (n_opt is None or a == n_opt) and (g_opt is None or b == g_opt)
                   and (listed is None or f in listed) and (not acqs or facq[f] in acqs))
            exp_after.append((i, f, a, b, d, True if hit else c))
        new = []
    else:
        exp_after = list(before)
        new = []
        for f in ix.files:
            fid = f.id
            on_src = any(cf == fid and cn_ == n_opt and h == "Y" for (_, cf, cn_, h, _) in copies)
            in_dst = any(cf == fid and ngroup[cn_] == g_opt and h == "Y" for (_, cf, cn_, h, _) in copies)
            in_tgt = any(doc_in_group(copies, ngroup, t, fid) for t in targets)
            act = any(rf == fid and a == n_opt and b == g_opt and not d and not c for (_, rf, a, b, d, c) in before)
            if on_src and not in_dst and not in_tgt and not act and (listed is None or fid in listed) and (not acqs or facq[fid] in acqs):
                new.append((fid, n_opt, g_opt, False, False))
    got_new = [r[1:] for r in after[len(before):]]
    if after[: len(before)] != exp_after or sorted(got_new) != sorted(new):
        ctx.fail("C18:sync-selection", f"{which} {' '.join(args)}: requests after {after}, documented: {exp_after} + new {new}", rp)
    if after != before:
        ctx.distinct_add((which, tuple(args), json.dumps(spec, sort_keys=True)))
    cw.invoke(which, args)
    again = ix.reqs()
    if again != after:
        ctx.fail("C18:not-idempotent", f"{which} {args} repeated changed more records (second pending request?)", rp)
    pend = [(f, a, b) for (_, f, a, b, d, c) in again if not d and not c]
    pend0 = [(f, a, b) for (_, f, a, b, d, c) in before if not d and not c]
    if len(set(pend0)) == len(pend0) and len(set(pend)) != len(pend):
        ctx.fail("C18:duplicate-request", f"{which} {args} created a second pending request for the same file, source and destination", rp)
    cases["s"].append((ctup(idx_term, f"(SO {copt(n_opt, cn, 'N')} {copt(g_opt, cn, 'N')} {clist([cn(a) for a in acqs], 'N')} {lopt(listed)} {clist([cn(t) for t in targets], 'N')})",
                            cbool(cancel), clist([ctup(cn(f), cn(a), cn(b), cbool(d), cbool(c)) for (_, f, a, b, d, c) in after], "(N * N * N * bool * bool)")), rp))


def run_fclean(ctx, rng, base, spec, cases):
    ix = Ix(spec, base)
    path = rng.choice(sorted(ix.file_id))
    mode = rng.choice(["mark", "now", "cancel"])
    goal = {"mark": "M", "now": "N", "cancel": "Y"}[mode]
    node = rng.choice(spec["nodes"]) if (mode != "cancel" or rng.random() < 0.5) else None
    args = [path, "--archive-ok"] + ([f"--node={node['name']}"] if node else []) + ({"mark": [], "now": ["--now"], "cancel": ["--cancel"]}[mode])
    before = ix.copies()
    idx_term = ix.term()
    code, out, exc = cw.invoke("file clean", args)
    after = ix.copies()
    ctx.count("file-clean")
    rp = {"family": "fclean", "args": args, "spec": spec}
    if exc is not None or code != 0:
        ctx.fail("C18:refused", f"file clean {args} failed: exit {code} {exc} {out[-200:]}", rp)
        return
    fid = ix.file_id[path]
    nid = ix.node_id[node["name"]] if node else None
    exp = [(i, f, n, h, (goal if (f == fid and (nid is None or n == nid) and (mode != "cancel" or h != "N")) else wt)) for (i, f, n, h, wt) in before]
    if after != exp:
        ctx.fail("C18:file-clean-selection", f"file clean {' '.join(args)}: copies after {after}, documented {exp}", rp)
    if after != before:
        ctx.distinct_add(("fclean", tuple(args), json.dumps(spec, sort_keys=True)))
    cw.invoke("file clean", args)
    if ix.copies() != after:
        ctx.fail("C18:not-idempotent", f"file clean {args} repeated changed more records", rp)
    cases["f"].append((ctup(idx_term, cn(fid), copt(nid, cn, "N"), WANTS[goal], clist([ctup(cn(c[0]), WANTS[c[4]]) for c in after], "(N * wants)")), rp))


def explore(ctx, n=None):
    base = ctx.tmp()
    rng = ctx.rng
    cases = {"c": [], "v": [], "s": [], "f": []}
    n = n or (540 if ctx.quick() else 8000)
    runners = [run_clean, run_clean, run_verify, run_sync, run_sync, run_fclean]
    # the known finding: --days selects files registered in the future
    kf = {"groups": ["G1"], "nodes": [{"name": "N1", "group": "G1", "stype": "F", "host": "h1", "active": True}], "acqs": ["acq1"],
          "files": [{"acq": "acq1", "name": "old", "size": 10, "reg_days_ago": 10}, {"acq": "acq1", "name": "future", "size": 10, "reg_days_ago": -10}],
          "copies": [{"file": 0, "node": "N1", "has": "Y", "wants": "Y"}, {"file": 1, "node": "N1", "has": "Y", "wants": "Y"}], "reqs": [], "rules": [], "ireqs": []}

    class FixedRng:
        """drive run_clean to `node clean N1 --days=3` on the known-finding index"""
        def __init__(self):
            self.seq = iter([kf["nodes"][0], "mark"])
        def choice(self, l):
            if l and isinstance(l[0], dict):
                return l[0]
            if l == ["mark", "now", "cancel"]:
                return "mark"
            if l == [1, 2, 3, 7]:
                return 3
            return l[0]
        def random(self):
            self.k = getattr(self, "k", 0) + 1
            return {1: 0.9, 2: 0.9, 3: 0.1}.get(self.k, 0.9)  # no --include-bad, no --acq, --days, nothing else
        def sample(self, l, k):
            return l[:k]
        def randint(self, a, b):
            return a
        def getrandbits(self, k):
            return 7

    run_clean(ctx, FixedRng(), base, kf, cases)
    # size budgets that are met exactly by whole files (a repeated command must stop at the same file)
    GIB = 2 ** 30
    for nfiles, fsz, wants0, size, mode in ((4, GIB, "YYYY", 2.0, "mark"), (4, GIB, "MYYY", 2.0, "mark"), (4, GIB, "YYYY", 2.0, "now"), (5, GIB // 2, "YYYYY", 1.5, "mark"),
                                            (4, GIB, "NMYY", 2.0, "mark"), (3, GIB, "YYY", 1.0, "now"), (4, GIB, "MMYY", 3.0, "now"), (6, GIB // 2, "YMYMYY", 2.0, "mark")):
        sp = {"groups": ["G1"], "nodes": [{"name": "N1", "group": "G1", "stype": "F", "host": "h1", "active": True}], "acqs": ["acq1"],
              "files": [{"acq": "acq1", "name": f"f{i}", "size": fsz, "reg_days_ago": 1} for i in range(nfiles)],
              "copies": [{"file": i, "node": "N1", "has": "Y", "wants": wants0[i]} for i in range(nfiles)], "reqs": [], "rules": [], "ireqs": []}
        run_clean(ctx, rng, base, sp, cases, forced={"node": "N1", "mode": mode, "size": size})
    # --target: a file must be in *all* the named groups; a group holding none of the files empties the selection for good
    for layout, targets in (({"G2": [], "G3": [0]}, ["G2", "G3"]), ({"G2": [0, 1], "G3": [], "G4": [0]}, ["G2", "G3", "G4"]), ({"G2": [0, 1], "G3": [1], "G4": [0, 1]}, ["G2", "G3", "G4"]),
                            ({"G2": [0], "G3": [1], "G4": [0, 1]}, ["G4", "G2", "G3"])):
        groups = ["G1"] + sorted(layout)
        sp = {"groups": groups, "nodes": [{"name": f"N{i + 1}", "group": g, "stype": "A", "host": "h1", "active": True} for i, g in enumerate(groups)], "acqs": ["acq1"],
              "files": [{"acq": "acq1", "name": f"f{i}", "size": 100, "reg_days_ago": 1} for i in range(2)],
              "copies": [{"file": i, "node": "N1", "has": "Y", "wants": "Y"} for i in range(2)]
                        + [{"file": f, "node": f"N{groups.index(g) + 1}", "has": "Y", "wants": "Y"} for g, fs in sorted(layout.items()) for f in fs],
              "reqs": [], "rules": [], "ireqs": []}
        for mode in ("mark", "now"):
            run_clean(ctx, rng, base, sp, cases, forced={"node": "N1", "mode": mode, "targets": targets})
    for k in range(n):
        spec = cw.gen_spec(rng)
        runners[k % len(runners)](ctx, rng, base, spec, cases)
    ctx.sample({"node_clean_case": cases["c"][1][1]["args"] if len(cases["c"]) > 1 else None, "sync_case": cases["s"][0][1]["args"] if cases["s"] else None})
    for key, ty, chk, name in (("c", "ccase", "ccheck", "node clean"), ("v", "vcase", "vcheck", "node verify"), ("s", "scase", "scheck", "sync"), ("f", "fcase", "fcheck", "file clean")):
        if not cases[key]:
            continue
        bad = core.run_cases(ctx, "sel" + key, "Corr.C18", ty, chk, [t for t, _ in cases[key]], shard=120, extra_imports=("Model.CliSelect",))
        for i in bad[:3]:
            ctx.broke("correspondence", f"{name}: model and implementation differ on {cases[key][i][1].get('command', '')} {cases[key][i][1]['args']}")
            ctx.notes.append({"differing_case": cases[key][i][1]})


def search(ctx):
    explore(ctx, 2500)


def replay(ctx, rp):
    r = rp["replay"]
    print(r.get("command", r["family"]), r["args"])
    print("re-run: VERIF_SEED=%s ./check C18 (the index is in the replay file)" % rp.get("seed"))
    return 2
