From Coq Require Import List NArith Bool Arith Lia.
From Alp Require Import Base.Str.
From Alp Require Import Model.Watch.
Import ListNotations.
Local Open Scope nat_scope.

Lemma has_slash_app a b : has_slash (a ++ b) = has_slash a || has_slash b.
Proof. unfold has_slash. apply existsb_app. Qed.

(* a path d ++ b whose last component is b: d is empty or ends with '/', b has no '/' and is not empty *)
Definition dir_ok (d : str) : Prop := d = [] \/ exists d', d = d' ++ [47%N].
Lemma basename_noslash b : has_slash b = false -> basename b = b.
Proof.
  destruct b as [|c r]; [reflexivity|]. cbn [basename has_slash existsb]. intros H. apply orb_false_iff in H as [Hc Hr].
  unfold has_slash in *. rewrite Hr, Hc. reflexivity.
Qed.
Lemma dirpart_noslash b : has_slash b = false -> dirpart b = [].
Proof.
  destruct b as [|c r]; [reflexivity|]. cbn [dirpart has_slash existsb]. intros H. apply orb_false_iff in H as [Hc Hr].
  unfold has_slash in *. rewrite Hr, Hc. reflexivity.
Qed.
Lemma split_dir d' b : b <> [] -> has_slash b = false -> basename (d' ++ [47%N] ++ b) = b /\ dirpart (d' ++ [47%N] ++ b) = d' ++ [47%N].
Proof.
  intros Hb Hs. induction d' as [|c r IH].
  - cbn [app basename dirpart]. rewrite Hs. cbn [N.eqb Pos.eqb]. destruct b; [contradiction|]. split; reflexivity.
  - cbn [app basename dirpart]. replace (has_slash (r ++ 47%N :: b)) with true.
    + destruct IH as [I1 I2]. cbn [app] in I1, I2. rewrite I1, I2. split; reflexivity.
    + symmetry. rewrite has_slash_app. cbn. rewrite orb_true_r. reflexivity.
Qed.
Lemma split_path d b : dir_ok d -> b <> [] -> has_slash b = false -> basename (d ++ b) = b /\ dirpart (d ++ b) = d.
Proof.
  intros [->|[d' ->]] Hb Hs.
  - cbn [app]. split; [apply basename_noslash | apply dirpart_noslash]; assumption.
  - rewrite <- app_assoc. apply split_dir; assumption.
Qed.

Lemma has_slash_lockname b : has_slash b = false -> has_slash ([46%N] ++ b ++ dotlock) = false.
Proof. intros H. rewrite !has_slash_app, H. reflexivity. Qed.

Lemma lastn_app n a b : length b = n -> lastn n (a ++ b) = b.
Proof. intros H. unfold lastn. rewrite app_length, H. replace (length a + n - n) with (length a) by lia. rewrite skipn_app, skipn_all, Nat.sub_diag. reflexivity. Qed.
Lemma drop_ends_mid (x : N) b t : length t = 5 -> drop_ends 1 5 (x :: b ++ t) = b.
Proof.
  intros H. unfold drop_ends. cbn [skipn length]. rewrite app_length, H.
  replace (S (length b + 5) - 1 - 5) with (length b) by lia. rewrite firstn_app, firstn_all, Nat.sub_diag. cbn. apply app_nil_r.
Qed.

(* the lock file of d/b is d/.b.lock *)
Lemma lock_of_path d b : dir_ok d -> b <> [] -> has_slash b = false -> lock_of (d ++ b) = d ++ [46%N] ++ b ++ dotlock.
Proof. intros Hd Hb Hs. unfold lock_of, with_name. destruct (split_path d b Hd Hb Hs) as [-> ->]. reflexivity. Qed.

(* round trip: what the handler imports when the lock of p goes away is p, and that lock is recognised as one (and as a dot-file) *)
Lemma unlock_lock d b : dir_ok d -> b <> [] -> has_slash b = false ->
  unlock_target (lock_of (d ++ b)) = d ++ b /\ is_lock_file (lock_of (d ++ b)) = true /\ is_dotfile (lock_of (d ++ b)) = true.
Proof.
  intros Hd Hb Hs. rewrite (lock_of_path d b Hd Hb Hs).
  assert (Hn : [46%N] ++ b ++ dotlock <> []) by discriminate.
  destruct (split_path d ([46%N] ++ b ++ dotlock) Hd Hn (has_slash_lockname b Hs)) as [B D].
  assert (Hdot : is_dotfile (d ++ [46%N] ++ b ++ dotlock) = true) by (unfold is_dotfile; rewrite B; reflexivity).
  split; [|split].
  - unfold unlock_target, with_name. rewrite B, D. cbn [app]. rewrite drop_ends_mid by reflexivity. reflexivity.
  - unfold is_lock_file. rewrite Hdot, andb_true_r.
    replace (d ++ [46%N] ++ b ++ dotlock) with ((d ++ [46%N] ++ b) ++ dotlock) by (rewrite <- !app_assoc; reflexivity).
    rewrite lastn_app by reflexivity. reflexivity.
  - exact Hdot.
Qed.

(* what the handler asks to import *)
Lemma handle_spec e p : handle e = Some p ->
  match e with
  | Created d s => d = false /\ p = s /\ is_dotfile p = false
  | Moved d _ q => d = false /\ p = q /\ is_dotfile p = false
  | Deleted d s => d = false /\ is_lock_file s = true /\ p = unlock_target s
  end.
Proof.
  destruct e as [d s|d s q|d s]; cbn [handle]; destruct d; cbn [negb andb]; try discriminate.
  - destruct (is_dotfile s) eqn:E; cbn; [discriminate|]. intros H; injection H as <-. auto.
  - destruct (is_dotfile q) eqn:E; cbn; [discriminate|]. intros H; injection H as <-. auto.
  - destruct (is_lock_file s) eqn:E; [|discriminate]. intros H; injection H as <-. auto.
Qed.
(* completeness: a file created or renamed to a name that is not a dot-file is always handed to the importer, whatever it was called before *)
Lemma handle_moved_any_source s q : is_dotfile q = false -> handle (Moved false s q) = Some q.
Proof. intros H. cbn [handle negb andb]. rewrite H. reflexivity. Qed.
Lemma handle_created s : is_dotfile s = false -> handle (Created false s) = Some s.
Proof. intros H. cbn [handle negb andb]. rewrite H. reflexivity. Qed.
Lemma handle_lock_gone d b : dir_ok d -> b <> [] -> has_slash b = false -> handle (Deleted false (lock_of (d ++ b))) = Some (d ++ b).
Proof. intros Hd Hb Hs. destruct (unlock_lock d b Hd Hb Hs) as [U [L _]]. cbn [handle negb andb]. rewrite L, U. reflexivity. Qed.
(* directories and dot-file destinations are never handed over *)
Lemma handle_dir e : match e with Created true _ | Moved true _ _ | Deleted true _ => handle e = None | _ => True end.
Proof. destruct e as [[|] ?|[|] ? ?|[|] ?]; reflexivity || exact I. Qed.
Lemma handle_dot_dest s q : is_dotfile q = true -> handle (Moved false s q) = None /\ handle (Created false q) = None.
Proof. intros H. cbn [handle negb andb]. rewrite H. split; reflexivity. Qed.
