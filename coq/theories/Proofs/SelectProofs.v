From Coq Require Import List NArith ZArith Bool Lia ZifyBool.
From Alp Require Import Base.Str Base.Types Model.Select.
Import ListNotations.
Open Scope Z_scope.
Local Arguments Z.sub : simpl never.
Local Arguments Z.add : simpl never.
Local Arguments Z.leb : simpl never.
Local Arguments Z.ltb : simpl never.

Definition is_m (c : cand) : bool := wants_eqb (k_wants c) WM.
Definition nonneg (cs : list cand) : Prop := Forall (fun c => 0 <= credit c) cs.

Lemma skip_removable_false_nonM c need : is_m c = false -> skip_removable (k_wants c) need = false.
Proof. unfold is_m, skip_removable. intros ->. reflexivity. Qed.

(* no shortfall: nothing merely removable is taken *)
Lemma no_shortfall_no_removable need cs : need <= 0 -> Forall (fun c => k_wants c <> WM) (select need cs).
Proof.
  revert need; induction cs as [|c cs IH]; intros need Hn; cbn [select]; [constructor|].
  unfold skip_removable. destruct (wants_eqb (k_wants c) WM) eqn:Em; cbn [andb].
  - destruct (need <=? 0) eqn:E; [apply IH; exact Hn | lia].
  - destruct (k_pending c); [apply IH; exact Hn|].
    constructor; [intros H; rewrite H in Em; discriminate|].
    destruct (0 <? need) eqn:E; [lia | apply IH; exact Hn].
Qed.

(* released (or any non-removable eligible), non-pending copies are always taken *)
Lemma nonM_always_taken need cs c :
  In c cs -> k_wants c <> WM -> k_pending c = false -> In c (select need cs).
Proof.
  revert need; induction cs as [|d cs IH]; intros need Hin Hw Hp; [destruct Hin|].
  cbn [select]. destruct Hin as [->|Hin].
  - unfold skip_removable. destruct (wants_eqb (k_wants c) WM) eqn:E; [apply wants_eqb_eq in E; contradiction|].
    cbn [andb]. rewrite Hp. left; reflexivity.
  - destruct (skip_removable (k_wants d) need); [apply IH; assumption|].
    destruct (k_pending d); [apply IH; assumption | right; apply IH; assumption].
Qed.

Lemma pending_never_taken need cs : Forall (fun c => k_pending c = false) (select need cs).
Proof.
  revert need; induction cs as [|c cs IH]; intros need; cbn [select]; [constructor|].
  destruct (skip_removable (k_wants c) need); [apply IH|].
  destruct (k_pending c) eqn:E; [apply IH | constructor; [exact E | apply IH]].
Qed.

(* record order: the selection is a subsequence of the candidates *)
Inductive subseq {A} : list A -> list A -> Prop :=
| sub_nil : subseq [] []
| sub_skip x a b : subseq a b -> subseq a (x :: b)
| sub_take x a b : subseq a b -> subseq (x :: a) (x :: b).
Lemma subseq_refl {A} (l : list A) : subseq l l.
Proof. induction l; constructor; assumption. Qed.
Lemma subseq_trans {A} (a b c : list A) : subseq a b -> subseq b c -> subseq a c.
Proof.
  intros H1 H2. revert a H1. induction H2 as [|x b c H IH|x b c H IH]; intros a H1.
  - exact H1.
  - constructor. apply IH, H1.
  - inversion H1; subst; [constructor; apply IH; assumption | constructor; apply IH; assumption].
Qed.
Lemma filter_subseq {A} (p : A -> bool) l : subseq (filter p l) l.
Proof. induction l as [|x l IH]; cbn; [constructor|]. destruct (p x); constructor; assumption. Qed.
Lemma select_subseq need cs : subseq (select need cs) cs.
Proof.
  revert need; induction cs as [|c cs IH]; intros need; cbn [select]; [constructor|].
  destruct (skip_removable (k_wants c) need); [constructor; apply IH|].
  destruct (k_pending c); constructor; apply IH.
Qed.

(* minimality: whenever a removable copy is taken, the credit of everything taken before it in this
   pass is still short of the shortfall *)
Fixpoint minimal (need pre : Z) (taken : list cand) : Prop :=
  match taken with
  | [] => True
  | c :: t => (k_wants c = WM -> pre < need) /\ minimal need (pre + credit c) t
  end.

Lemma select_minimal need0 : forall cs need pre,
  nonneg cs -> (0 < need -> need = need0 - pre) -> (need <= 0 -> need0 <= pre \/ need0 <= 0) -> 0 <= pre ->
  minimal need0 pre (select need cs).
Proof.
  induction cs as [|c cs IH]; intros need pre Hnn Hpos Hneg Hpre; cbn [select minimal]; [exact I|].
  inversion Hnn as [|? ? Hc Hcs]; subst.
  unfold skip_removable. destruct (wants_eqb (k_wants c) WM) eqn:Em; cbn [andb].
  - destruct (need <=? 0) eqn:E.
    + apply IH; assumption.
    + destruct (k_pending c); [apply IH; assumption|].
      cbn [minimal]. split; [intros _; lia|].
      assert (0 < need) by lia. destruct (0 <? need) eqn:E2; [|lia].
      apply IH; try assumption; lia.
  - destruct (k_pending c); [apply IH; assumption|].
    cbn [minimal]. split; [intros H; rewrite H in Em; discriminate|].
    destruct (0 <? need) eqn:E2.
    + apply IH; try assumption; lia.
    + apply IH; try assumption; try lia.
Qed.

Lemma select_is_minimal need cs : nonneg cs -> minimal need 0 (select need cs).
Proof. intros H. apply select_minimal; try assumption; lia. Qed.

(* sufficiency: the pass covers the shortfall unless it ran out of removable, non-pending copies *)
Definition total (cs : list cand) : Z := fold_right (fun c a => credit c + a) 0 cs.

Lemma select_sufficient : forall cs need,
  nonneg cs ->
  need <= total (select need cs) \/
  (forall c, In c cs -> k_pending c = false -> In c (select need cs)).
Proof.
  induction cs as [|c cs IH]; intros need Hnn; cbn [select]; [right; intros c []|].
  inversion Hnn as [|? ? Hc Hcs]; subst.
  unfold skip_removable. destruct (wants_eqb (k_wants c) WM) eqn:Em; cbn [andb].
  - destruct (need <=? 0) eqn:E.
    + left. clear IH. assert (Hn : need <= 0) by lia. clear E.
      assert (G : forall l, nonneg l -> 0 <= total l).
      { induction l as [|d l IHl]; cbn [total fold_right]; [lia|]. intros Hl; inversion Hl as [|? ? H1 H2]; subst. specialize (IHl H2). fold (total l). lia. }
      assert (S : forall l n, nonneg l -> nonneg (select n l)).
      { induction l as [|d l IHl]; intros n Hl; cbn [select]; [constructor|]. inversion Hl; subst.
        destruct (skip_removable _ _); [apply IHl; assumption|]. destruct (k_pending d); [apply IHl; assumption|].
        constructor; [assumption | apply IHl; assumption]. }
      specialize (G _ (S cs need Hcs)). lia.
    + destruct (k_pending c) eqn:Ep.
      * destruct (IH need Hcs) as [H|H]; [left; exact H|].
        right. intros d [<-|Hd] Hp; [congruence | apply H; assumption].
      * assert (0 < need) by lia. destruct (0 <? need) eqn:E2; [|lia].
        destruct (IH (need - credit c) Hcs) as [H'|H'].
        -- left. cbn [total fold_right]. fold (total (select (need - credit c) cs)). lia.
        -- right. intros d [<-|Hd] Hp; [left; reflexivity | right; apply H'; assumption].
  - destruct (k_pending c) eqn:Ep.
    + destruct (IH need Hcs) as [H|H]; [left; exact H|].
      right. intros d [<-|Hd] Hp; [congruence | apply H; assumption].
    + destruct (0 <? need) eqn:E2.
      * destruct (IH (need - credit c) Hcs) as [H'|H'].
        -- left. cbn [total fold_right]. fold (total (select (need - credit c) cs)). lia.
        -- right. intros d [<-|Hd] Hp; [left; reflexivity | right; apply H'; assumption].
      * destruct (IH need Hcs) as [H'|H'].
        -- left. cbn [total fold_right]. fold (total (select need cs)). lia.
        -- right. intros d [<-|Hd] Hp; [left; reflexivity | right; apply H'; assumption].
Qed.

(* batching only groups: the concatenation of the batches is the selection, no batch is empty *)
Lemma batches_concat cur cs : concat (batches_aux cur cs) = rev cur ++ cs.
Proof.
  revert cur; induction cs as [|c cs IH]; intros cur; cbn [batches_aux].
  - destruct cur; cbn; rewrite ?app_nil_r; reflexivity.
  - destruct (batch_full _); cbn [concat]; rewrite IH; cbn [rev app]; rewrite <- ?app_assoc; reflexivity.
Qed.
Lemma batches_nonempty cur cs : Forall (fun b => b <> []) (batches_aux cur cs).
Proof.
  revert cur; induction cs as [|c cs IH]; intros cur; cbn [batches_aux].
  - destruct cur as [|a cur]; constructor; [|constructor]. cbn. destruct (rev cur); discriminate.
  - destruct (batch_full (Z.of_nat (length cur))) eqn:E; [|apply IH].
    constructor; [|apply IH]. unfold batch_full in E. destruct cur; [cbn in E; lia|]. cbn. destruct (rev cur); discriminate.
Qed.

(* ---- the whole pass ---- *)
Lemma eligible_released_only c : eligible false c = true -> k_wants c = WN.
Proof. unfold eligible, df_released. intros H. apply andb_true_iff in H as [H _]. apply wants_eqb_eq, H. Qed.

Lemma selection_no_pressure archive avail min cs :
  discretionary (under_min avail min) archive = false ->
  Forall (fun c => k_wants c = WN) (selection archive avail min cs).
Proof.
  intros Hd. unfold selection. rewrite Hd.
  assert (Forall (fun c => k_wants c = WN) (filter (eligible false) cs)) as HF.
  { apply Forall_forall. intros c Hc. apply filter_In in Hc as [_ Hc]. apply eligible_released_only, Hc. }
  revert HF. generalize (filter (eligible false) cs) as l. intros l HF.
  apply Forall_forall. intros c Hc.
  assert (Hs : subseq (select 0 l) l) by apply select_subseq.
  assert (G : forall (a b : list cand), subseq a b -> forall x, In x a -> In x b).
  { induction 1; intros y Hy; [exact Hy | right; auto | destruct Hy; [left; assumption | right; auto]]. }
  rewrite Forall_forall in HF. apply HF. eapply G; eassumption.
Qed.

Lemma no_pressure_cases archive avail min :
  archive = true \/ avail = None \/ (exists a, avail = Some a /\ min <= a) ->
  discretionary (under_min avail min) archive = false.
Proof.
  unfold discretionary, under_min. intros [->|[->|(a & -> & H)]].
  - apply andb_false_r.
  - reflexivity.
  - destruct (a <? min) eqn:E; [lia | reflexivity].
Qed.

Lemma selection_in_order archive avail min cs : subseq (selection archive avail min cs) cs.
Proof. unfold selection. eapply subseq_trans; [apply select_subseq | apply filter_subseq]. Qed.

Lemma selection_only_eligible archive avail min cs c :
  In c (selection archive avail min cs) -> k_wants c <> WY /\ k_has c <> HN /\ k_pending c = false.
Proof.
  unfold selection. set (disc := discretionary _ _). set (need := if disc then _ else _). intros H.
  pose proof (pending_never_taken need (filter (eligible disc) cs)) as HP. rewrite Forall_forall in HP.
  assert (G : forall (a b : list cand), subseq a b -> forall x, In x a -> In x b).
  { induction 1; intros y Hy; [exact Hy | right; auto | destruct Hy; [left; assumption | right; auto]]. }
  pose proof (G _ _ (select_subseq need _) c H) as Hf. apply filter_In in Hf as [_ He].
  unfold eligible in He. apply andb_true_iff in He as [Hw Hh]. repeat split.
  - intros E. rewrite E in Hw. destruct disc; discriminate.
  - intros E. rewrite E in Hh. discriminate.
  - apply HP, H.
Qed.

Lemma nonneg_filter p cs : nonneg cs -> nonneg (filter p cs).
Proof. unfold nonneg. rewrite !Forall_forall. intros H c Hc. apply filter_In in Hc as [Hc _]. auto. Qed.

Definition pass_need (archive : bool) (avail : option Z) (min : Z) : Z :=
  if discretionary (under_min avail min) archive then shortfall avail min else 0.

Lemma selection_minimal archive avail min cs :
  nonneg cs -> minimal (pass_need archive avail min) 0 (selection archive avail min cs).
Proof. intros H. unfold selection, pass_need. apply select_is_minimal, nonneg_filter, H. Qed.

Lemma selection_sufficient archive avail min cs :
  nonneg cs ->
  pass_need archive avail min <= total (selection archive avail min cs) \/
  (forall c, In c cs -> eligible (discretionary (under_min avail min) archive) c = true -> k_pending c = false ->
             In c (selection archive avail min cs)).
Proof.
  intros H. unfold selection, pass_need.
  destruct (select_sufficient (filter (eligible (discretionary (under_min avail min) archive)) cs)
              (if discretionary (under_min avail min) archive then shortfall avail min else 0)
              (nonneg_filter _ _ H)) as [L|R]; [left; exact L|].
  right. intros c Hc He Hp. apply R; [apply filter_In; split; assumption | exact Hp].
Qed.

Lemma selection_released_taken archive avail min cs c :
  In c cs -> k_wants c = WN -> k_has c <> HN -> k_pending c = false -> In c (selection archive avail min cs).
Proof.
  intros Hc Hw Hh Hp. unfold selection. apply nonM_always_taken; [|rewrite Hw; discriminate | exact Hp].
  apply filter_In; split; [exact Hc|]. unfold eligible, df_discretionary, df_released. rewrite Hw.
  destruct (k_has c); try contradiction; destruct (discretionary _ _); reflexivity.
Qed.

Lemma update_delete_batches archive avail min cs :
  concat (update_delete archive avail min cs) = map k_id (selection archive avail min cs)
  /\ Forall (fun b => b <> []) (update_delete archive avail min cs).
Proof.
  unfold update_delete. split.
  - rewrite <- concat_map, batches_concat. reflexivity.
  - pose proof (batches_nonempty [] (selection archive avail min cs)) as H.
    rewrite Forall_forall in *. intros b Hb. apply in_map_iff in Hb as (b' & <- & Hb'). specialize (H b' Hb').
    destruct b'; [congruence | discriminate].
Qed.

Definition ex_cands : list cand :=
  [ {| k_id := 1; k_has := HY; k_wants := WM; k_csize := Some 600; k_fsize := Some 600; k_pending := false |};
    {| k_id := 2; k_has := HY; k_wants := WN; k_csize := None; k_fsize := Some 500; k_pending := false |};
    {| k_id := 3; k_has := HM; k_wants := WM; k_csize := Some 100; k_fsize := None; k_pending := true |};
    {| k_id := 4; k_has := HY; k_wants := WM; k_csize := Some 100; k_fsize := None; k_pending := false |};
    {| k_id := 5; k_has := HY; k_wants := WY; k_csize := Some 100; k_fsize := None; k_pending := false |} ].
(* shortfall 1/1024 GiB = 1048576 bytes: copy 1 (600) is taken, copy 2 released is taken, 3 is a pending
   source, 4 still needed (1100 < 1048576) *)
Lemma example_pass : update_delete false (Some 1023) 1024 ex_cands = [[1; 2; 4]%N] /\ nonneg ex_cands.
Proof. split; [vm_compute; reflexivity|]. repeat constructor; vm_compute; discriminate. Qed.

Lemma selection_no_pressure_cases archive avail min cs :
  archive = true \/ avail = None \/ (exists a, avail = Some a /\ min <= a) ->
  Forall (fun c => k_wants c = WN) (selection archive avail min cs).
Proof. intros H. apply selection_no_pressure, no_pressure_cases, H. Qed.
