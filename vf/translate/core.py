"""Fail-closed Python-ast -> Gallina translator for a small whitelisted expression fragment (tie T1).

Anything outside the whitelist raises Untranslatable: the tie is then *broken*, never skipped."""
from __future__ import annotations

import ast
import pathlib


class Untranslatable(Exception):
    pass


def bail(node, why):
    raise Untranslatable(f"UNTRANSLATABLE line {getattr(node, 'lineno', '?')}: {why}: {ast.dump(node)[:120]}")


def coq_str(s: str) -> str:
    b = s.encode()
    return "[" + "; ".join(str(x) for x in b) + "]%N" if b else "(@nil N)"


def dotted(node):
    parts = []
    while isinstance(node, ast.Attribute):
        parts.append(node.attr)
        node = node.value
    if isinstance(node, ast.Subscript) and ((isinstance(node.slice, ast.Constant) and isinstance(node.slice.value, int)) or isinstance(node.slice, ast.Name)):
        inner = dotted(node.value)
        if inner is None:
            return None
        idx = node.slice.value if isinstance(node.slice, ast.Constant) else node.slice.id
        parts.append(f"{inner}_{idx}")
        return "_".join(reversed(parts))
    if isinstance(node, ast.Call) and not node.args and not node.keywords:
        inner = dotted(node.func)
        if inner is None:
            return None
        parts.append(inner + "_")
        return "_".join(reversed(parts))
    if not isinstance(node, ast.Name):
        return None
    parts.append(node.id)
    return "_".join(reversed(parts))


class Expr:
    """Python expression -> Gallina text.  `env` maps dotted free names (a.b.c -> a_b_c) to a type in
    {'str','Z','bool','optZ','optstr','has','wants','stype'}; enum types compare against 1-letter literals."""

    ENUMS = {
        "has": {"Y": "HY", "M": "HM", "X": "HX", "N": "HN"},
        "wants": {"Y": "WY", "M": "WM", "N": "WN"},
        "stype": {"A": "SA", "T": "ST", "F": "SF"},
    }

    def __init__(self, env, calls=None, atoms=None):
        self.env = env
        self.calls = calls or {}  # dotted callee -> (coq name, result type)
        self.atoms = atoms or {}  # ast.unparse(sub-expression) -> (coq variable, type): opaque sub-expressions
        self.free = {}

    def atom(self, node):
        try:
            key = ast.unparse(node)
        except Exception:
            return None
        if key in self.atoms:
            n, t = self.atoms[key]
            self.env[n] = t
            return n, t
        return None

    def name(self, node):
        n = dotted(node)
        if n is None:
            bail(node, "name base")
        if n not in self.env:
            bail(node, f"unknown free name {n}")
        self.free[n] = self.env[n]
        return n

    def ty(self, node):
        a = self.atom(node)
        if a:
            return a[1]
        if isinstance(node, ast.Constant):
            v = node.value
            if isinstance(v, bool):
                return "bool"
            if isinstance(v, int):
                return "Z"
            if isinstance(v, str):
                return "str"
            if v is None:
                return "none"
            bail(node, "constant type")
        if isinstance(node, (ast.Name, ast.Attribute, ast.Subscript)):
            n = dotted(node)
            if n is None or n not in self.env:
                bail(node, f"unknown free name {n}")
            return self.env[n]
        if isinstance(node, ast.BinOp):
            if isinstance(node.op, ast.Add) and self.ty(node.left) == "str" and self.ty(node.right) == "str":
                return "str"
            return "Z"
        if isinstance(node, ast.Compare):
            return "bool"
        if isinstance(node, ast.BoolOp):
            return "bool"
        if isinstance(node, ast.UnaryOp) and isinstance(node.op, ast.Not):
            return "bool"
        if isinstance(node, ast.UnaryOp) and isinstance(node.op, ast.USub):
            return "Z"
        if isinstance(node, ast.IfExp):
            return self.ty(node.body)
        if isinstance(node, ast.Call):
            f = dotted(node.func)
            if isinstance(node.func, ast.Attribute) and node.func.attr in ("startswith", "endswith"):
                return "bool"
            if isinstance(node.func, ast.Attribute) and node.func.attr == "rstrip" and not node.args and not node.keywords:
                return "str"
            if isinstance(node.func, ast.Name) and node.func.id in ("len", "int"):
                return "Z"
            if f in self.calls:
                return self.calls[f][1]
            bail(node, "call type")
        bail(node, "type")

    def tr(self, node):
        a = self.atom(node)
        if a:
            if a[1] == "list":
                bail(node, "list used as a value")
            self.free[a[0]] = a[1]
            return a[0]
        if isinstance(node, ast.Constant):
            v = node.value
            if isinstance(v, bool):
                return "true" if v else "false"
            if isinstance(v, int):
                return f"({v})%Z"
            if isinstance(v, str):
                return coq_str(v)
            bail(node, "constant")
        if isinstance(node, (ast.Name, ast.Attribute, ast.Subscript)):
            return self.name(node)
        if isinstance(node, ast.BoolOp):
            # `x is not None and <uses x as a number>`  ->  match x with Some x' => ... | None => false end
            v0 = node.values[0]
            if (isinstance(node.op, ast.And) and isinstance(v0, ast.Compare) and len(v0.ops) == 1 and isinstance(v0.ops[0], ast.IsNot)
                    and isinstance(v0.comparators[0], ast.Constant) and v0.comparators[0].value is None
                    and dotted(v0.left) in self.env and self.env[dotted(v0.left)] == "optZ"):
                n = dotted(v0.left)
                self.free[n] = "optZ"
                inner = Expr({**self.env, n: "Z"}, self.calls, self.atoms)
                body = " && ".join(inner.truthy(v) for v in node.values[1:])
                for k, t in inner.free.items():
                    if k != n:
                        self.free[k] = t
                        self.env[k] = t
                return f"(negb (is_none {n}) && (match {n} with Some {n} => ({body}) | None => false end))"
            op = " && " if isinstance(node.op, ast.And) else " || "
            return "(" + op.join(self.truthy(v) for v in node.values) + ")"
        if isinstance(node, ast.UnaryOp) and isinstance(node.op, ast.Not):
            return f"(negb {self.truthy(node.operand)})"
        if isinstance(node, ast.UnaryOp) and isinstance(node.op, ast.USub):
            return f"(- {self.tr(node.operand)})%Z"
        if isinstance(node, ast.IfExp):
            return f"(if {self.truthy(node.test)} then {self.tr(node.body)} else {self.tr(node.orelse)})"
        if isinstance(node, ast.BinOp):
            ops = {ast.Add: "+", ast.Sub: "-", ast.Mult: "*", ast.FloorDiv: "/", ast.Mod: "mod"}
            if type(node.op) is ast.Pow and isinstance(node.left, ast.Constant) and isinstance(node.right, ast.Constant):
                return f"({node.left.value ** node.right.value})%Z"
            if type(node.op) not in ops:
                bail(node, "binop")
            if isinstance(node.op, ast.Add) and self.ty(node.left) == "str" and self.ty(node.right) == "str":
                return f"({self.tr(node.left)} ++ {self.tr(node.right)})"
            if self.ty(node.left) != "Z" or self.ty(node.right) != "Z":
                bail(node, "non-integer arithmetic")
            return f"({self.tr(node.left)} {ops[type(node.op)]} {self.tr(node.right)})%Z"
        if isinstance(node, ast.Compare):
            if len(node.ops) != 1:
                bail(node, "chained compare")
            l, r, op = node.left, node.comparators[0], node.ops[0]
            if isinstance(op, (ast.Is, ast.IsNot)) and isinstance(r, ast.Constant) and r.value is None:
                e = f"(is_none {self.tr(l)})"
                return e if isinstance(op, ast.Is) else f"(negb {e})"
            if isinstance(op, (ast.In, ast.NotIn)):
                if isinstance(r, (ast.Tuple, ast.List, ast.Set)):
                    alts = [self.tr(ast.Compare(left=l, ops=[ast.Eq()], comparators=[x])) for x in r.elts]
                    e = "(" + " || ".join(alts) + ")"
                elif self.ty(r) == "str" and self.ty(l) == "str":
                    e = f"(infixb {self.tr(l)} {self.tr(r)})"
                else:
                    bail(node, "in")
                return e if isinstance(op, ast.In) else f"(negb {e})"
            t = self.ty(l)
            if t in self.ENUMS or self.ty(r) in self.ENUMS:
                if t not in self.ENUMS:
                    l, r, t = r, l, self.ty(r)
                if not (isinstance(r, ast.Constant) and isinstance(r.value, str) and r.value in self.ENUMS[t]):
                    bail(node, f"enum {t} compared with non-literal or illegal letter")
                e = f"({t}_eqb {self.tr(l)} {self.ENUMS[t][r.value]})"
                if isinstance(op, ast.Eq):
                    return e
                if isinstance(op, ast.NotEq):
                    return f"(negb {e})"
                bail(node, "enum order")
            tr_ = self.ty(r)
            if {t, tr_} <= {"Z", "optZ"} and "optZ" in (t, tr_) and isinstance(op, (ast.Eq, ast.NotEq)):
                a = self.tr(l) if t == "optZ" else f"(Some {self.tr(l)})"
                b = self.tr(r) if tr_ == "optZ" else f"(Some {self.tr(r)})"
                e = f"(optZ_eqb {a} {b})"
                return e if isinstance(op, ast.Eq) else f"(negb {e})"
            if {t, tr_} <= {"str", "optstr"} and "optstr" in (t, tr_) and isinstance(op, (ast.Eq, ast.NotEq)):
                a = self.tr(l) if t == "optstr" else f"(Some {self.tr(l)})"
                b = self.tr(r) if tr_ == "optstr" else f"(Some {self.tr(r)})"
                e = f"(optstr_eqb {a} {b})"
                return e if isinstance(op, ast.Eq) else f"(negb {e})"
            if t == "str":
                e = f"(str_eqb {self.tr(l)} {self.tr(r)})"
                if isinstance(op, ast.Eq):
                    return e
                if isinstance(op, ast.NotEq):
                    return f"(negb {e})"
                bail(node, "string order")
            if t == "bool":
                if self.ty(r) == "bool" and isinstance(op, (ast.Eq, ast.NotEq)):
                    e = f"(Bool.eqb {self.tr(l)} {self.tr(r)})"
                    return e if isinstance(op, ast.Eq) else f"(negb {e})"
                bail(node, "bool compare")
            if t != "Z" or self.ty(r) != "Z":
                bail(node, f"comparison of {t} with {self.ty(r)}")
            zops = {ast.Eq: "=?", ast.Lt: "<?", ast.LtE: "<=?"}
            if type(op) in zops:
                return f"({self.tr(l)} {zops[type(op)]} {self.tr(r)})%Z"
            if isinstance(op, ast.Gt):
                return f"({self.tr(r)} <? {self.tr(l)})%Z"
            if isinstance(op, ast.GtE):
                return f"({self.tr(r)} <=? {self.tr(l)})%Z"
            if isinstance(op, ast.NotEq):
                return f"(negb ({self.tr(l)} =? {self.tr(r)})%Z)"
            bail(node, "compare")
        if isinstance(node, ast.Call):
            if isinstance(node.func, ast.Attribute) and node.func.attr in ("startswith", "endswith") and len(node.args) == 1 and not node.keywords:
                f = "prefixb" if node.func.attr == "startswith" else "suffixb"
                if self.ty(node.func.value) != "str":
                    bail(node, "startswith on non-str")
                return f"({f} {self.tr(node.args[0])} {self.tr(node.func.value)})"
            if isinstance(node.func, ast.Attribute) and node.func.attr == "rstrip" and not node.args and not node.keywords:
                if self.ty(node.func.value) != "str":
                    bail(node, "rstrip on non-str")
                return f"(rstrip {self.tr(node.func.value)})"
            if isinstance(node.func, ast.Name) and node.func.id == "len" and len(node.args) == 1:
                if self.ty(node.args[0]) == "list":
                    a = self.atom(node.args[0])
                    n = (a[0] if a else dotted(node.args[0])) + "_len"
                    self.env[n] = "Z"
                    self.free[n] = "Z"
                    return n
                if self.ty(node.args[0]) != "str":
                    bail(node, "len of non-str")
                return f"(Z.of_nat (length {self.tr(node.args[0])}))"
            if isinstance(node.func, ast.Name) and node.func.id == "int" and len(node.args) == 1 and not node.keywords:
                if self.ty(node.args[0]) != "Z":
                    bail(node, "int() of non-integer")
                return self.tr(node.args[0])
            f = dotted(node.func)
            if f in self.calls and not node.keywords:
                return "(" + " ".join([self.calls[f][0]] + [self.tr(a) for a in node.args]) + ")"
            bail(node, "call")
        bail(node, "expression")

    def truthy(self, node):
        t = self.ty(node)
        if t == "bool":
            return self.tr(node)
        if t == "Z":
            return f"(negb ({self.tr(node)} =? 0)%Z)"
        if t == "optZ":
            return f"(optZ_truthy {self.tr(node)})"
        if t == "str":
            return f"(negb (str_eqb {self.tr(node)} (@nil N)))"
        if t == "list":
            a = self.atom(node)
            n = (a[0] if a else dotted(node)) + "_len"
            self.env[n] = "Z"
            self.free[n] = "Z"
            return f"(negb ({n} =? 0)%Z)"
        bail(node, f"truthiness of {t}")

    def args(self, order=None):
        names = order if order is not None else list(self.free)
        missing = [k for k in names if k not in self.env]
        extra = [k for k in self.free if k not in names]
        if missing or extra:
            # the expression no longer mentions what the model's function takes (or mentions something else): not the same function
            raise Untranslatable(f"UNTRANSLATABLE: the expression's variables changed: expected {names}, not found {missing}, unexpected {extra}")
        tymap = {"str": "str", "Z": "Z", "bool": "bool", "optZ": "option Z", "optstr": "option str", "has": "has", "wants": "wants", "stype": "stype"}
        return " ".join(f"({k} : {tymap[self.env[k]]})" for k in names)


def parse(path) -> ast.Module:
    return ast.parse(pathlib.Path(path).read_text())


def find_func(tree, qual):
    body = tree.body
    node = None
    for p in qual.split("."):
        for n in body:
            if isinstance(n, (ast.FunctionDef, ast.ClassDef, ast.AsyncFunctionDef)) and n.name == p:
                body = n.body
                node = n
                break
        else:
            raise Untranslatable(f"UNTRANSLATABLE: {qual} not found")
    return node


def strip_doc(body):
    return [s for s in body if not (isinstance(s, ast.Expr) and isinstance(s.value, ast.Constant) and isinstance(s.value.value, str))]


def reject_clauses(tree, qual, arg, coqname=None):
    """def f(arg): (if test: return <str>)* ; return None   ->   f : str -> bool  (true = rejected)"""
    fn = find_func(tree, qual)
    if [a.arg for a in fn.args.args] != [arg]:
        bail(fn, "signature")
    ex = Expr({arg: "str"})
    clauses = []
    body = strip_doc(fn.body)
    for s in body[:-1]:
        if not (isinstance(s, ast.If) and not s.orelse and len(s.body) == 1 and isinstance(s.body[0], ast.Return)
                and isinstance(s.body[0].value, ast.Constant) and isinstance(s.body[0].value.value, str) and s.body[0].value.value != ""):
            bail(s, "clause shape")
        clauses.append(ex.truthy(s.test))
    last = body[-1]
    if not (isinstance(last, ast.Return) and (last.value is None or (isinstance(last.value, ast.Constant) and last.value.value is None))):
        bail(last, "final return")
    return f"Definition {coqname or fn.name} ({arg} : str) : bool :=\n  " + "\n  || ".join(clauses or ["false"]) + "."


def assigned(tree, qual, target, env, coqname, order=None, calls=None, which=0, atoms=None):
    """the expression of the which-th assignment to `target` inside function `qual`, as a function of its free names"""
    fn = find_func(tree, qual)
    hits = [n for n in ast.walk(fn) if isinstance(n, ast.Assign) and len(n.targets) == 1 and isinstance(n.targets[0], ast.Name) and n.targets[0].id == target]
    hits.sort(key=lambda n: n.lineno)
    if not hits:
        raise Untranslatable(f"UNTRANSLATABLE: assignment to {target} in {qual} not found")
    if which >= len(hits):
        raise Untranslatable(f"UNTRANSLATABLE: assignment #{which} to {target} in {qual} not found")
    ex = Expr(dict(env), calls, atoms)
    body = ex.tr(hits[which].value)
    return f"(* line {hits[which].lineno} *) Definition {coqname} {ex.args(order)} := {body}."


def if_tests(fn):
    ifs = [x for x in ast.walk(fn) if isinstance(x, (ast.If, ast.While))]
    ifs.sort(key=lambda x: (x.lineno, x.col_offset))
    return ifs


def nth_test(tree, qual, n, env, coqname, order=None, calls=None, expect_count=None, atoms=None):
    """the test of the n-th if/while (source order) of function `qual` as a boolean function"""
    fn = find_func(tree, qual)
    ifs = if_tests(fn)
    if expect_count is not None and len(ifs) != expect_count:
        raise Untranslatable(f"UNTRANSLATABLE: {qual} has {len(ifs)} if/while tests, the locator expects {expect_count}")
    if n >= len(ifs):
        raise Untranslatable(f"UNTRANSLATABLE: {qual} has no test #{n}")
    ex = Expr(dict(env), calls, atoms)
    body = ex.truthy(ifs[n].test)
    return f"(* line {ifs[n].lineno} *) Definition {coqname} {ex.args(order)} : bool := {body}."


def return_expr(tree, qual, env, coqname, order=None, calls=None, which=-1, ty="bool", atoms=None):
    """the expression of the (last by default) `return` of function `qual`"""
    fn = find_func(tree, qual)
    rets = [n for n in ast.walk(fn) if isinstance(n, ast.Return) and n.value is not None]
    rets.sort(key=lambda n: n.lineno)
    if not rets:
        raise Untranslatable(f"UNTRANSLATABLE: no return in {qual}")
    ex = Expr(env, calls, atoms)
    body = ex.truthy(rets[which].value) if ty == "bool" else ex.tr(rets[which].value)
    return f"(* line {rets[which].lineno} *) Definition {coqname} {ex.args(order)} := {body}."


HEADER = """(* GENERATED from /repo by vf/translate — do not edit *)
From Coq Require Import List NArith ZArith Bool.
From Alp Require Import Base.Str Base.Types.
Import ListNotations.
Open Scope Z_scope.
"""


# ---- small statement-level translators ---------------------------------------------------------------------------
def bool_function(tree, qual, env, coqname, order, ignore_calls=("log.warning", "log.info", "log.debug", "logging.getLogger")):
    """def f(...): (if test: [ignored calls] return e)* ; return e    ->  nested if/else returning bool"""
    fn = find_func(tree, qual)
    ex = Expr(dict(env))

    def ignorable(s):
        if isinstance(s, ast.Expr) and isinstance(s.value, ast.Call) and ast.unparse(s.value.func) in ignore_calls:
            return True
        if isinstance(s, ast.Assign) and isinstance(s.value, ast.Call) and ast.unparse(s.value.func) in ignore_calls:
            return True
        return False

    def block(stmts):
        stmts = [s for s in strip_doc(stmts) if not ignorable(s)]
        if not stmts:
            bail(fn, "block falls through without return")
        s = stmts[0]
        if isinstance(s, ast.Return):
            if s.value is None:
                bail(s, "bare return")
            return ex.truthy(s.value)
        if isinstance(s, ast.If):
            then = block(s.body)
            rest = block(list(s.orelse) + stmts[1:]) if s.orelse else block(stmts[1:])
            return f"(if {ex.truthy(s.test)} then {then} else {rest})"
        bail(s, "statement outside the fragment")

    body = block(fn.body)
    return f"Definition {coqname} {ex.args(order)} : bool := {body}."


def event_program(tree, qual, coqname, inputs, events, ignore=("echo",), exits=("ctx.exit",), oracle=None):
    """A function whose only effects are calls: translate to (inputs) -> list of events.
    `events`: callee text -> function(call node) -> event constructor text (or None to ignore);
    `oracle`: callee text -> (input name, event emitted when it is consulted)."""
    fn = find_func(tree, qual)
    oracle = oracle or {}

    def cond(node):
        if isinstance(node, ast.Name) and node.id in inputs:
            return node.id, []
        if isinstance(node, ast.UnaryOp) and isinstance(node.op, ast.Not):
            c, pre = cond(node.operand)
            return f"(negb {c})", pre
        if isinstance(node, ast.Call) and ast.unparse(node.func) in oracle:
            name, evt = oracle[ast.unparse(node.func)]
            return name, [evt]
        bail(node, "condition outside the fragment")

    def block(stmts, k):
        """k = Gallina text of the continuation (list of events)"""
        stmts = strip_doc(stmts)
        if not stmts:
            return k
        s, rest = stmts[0], stmts[1:]
        if isinstance(s, ast.Expr) and isinstance(s.value, ast.Call):
            callee = ast.unparse(s.value.func)
            if callee in ignore:
                return block(rest, k)
            if callee in exits:
                return "[]"
            if callee in events:
                e = events[callee](s.value)
                tail = block(rest, k)
                return tail if e is None else f"({e} :: {tail})"
            bail(s, f"call to {callee} outside the fragment")
        if isinstance(s, ast.If):
            c, pre = cond(s.test)
            after = block(rest, k)
            then = block(s.body, after)
            els = block(s.orelse, after) if s.orelse else after
            body = f"(if {c} then {then} else {els})"
            for e in reversed(pre):
                body = f"({e} :: {body})"
            return body
        bail(s, "statement outside the fragment")

    body = block(fn.body, "[]")
    args = " ".join(f"({i} : bool)" for i in inputs)
    return f"Definition {coqname} {args} : list cevent := {body}."
