From Coq Require Import List NArith Bool.
From Alp Require Import Model.Dispatch.
Import ListNotations.

Lemma memb_spec x l : memb x l = true <-> In x l.
Proof.
  unfold memb. rewrite existsb_exists. split.
  - intros (y & Hy & E). apply N.eqb_eq in E. subst; exact Hy.
  - intros H. exists x. split; [exact H | apply N.eqb_refl].
Qed.
Lemma memb_false x l : memb x l = false <-> ~ In x l.
Proof. rewrite <- memb_spec. destruct (memb x l); split; congruence. Qed.

(* what is dispatched was asked for, was dispatchable, and its file had not been dispatched before in this pass *)
Lemma pass_dispatched seen reqs r : In r (snd (pass seen reqs)) -> In r reqs /\ r_ok r = true /\ ~ In (r_file r) seen.
Proof.
  revert seen; induction reqs as [|q rs IH]; intros seen; cbn [pass]; [intros []|].
  destruct (memb (r_file q) seen) eqn:Em.
  - intros H. destruct (IH _ H) as (H1 & H2 & H3). auto with datatypes.
  - cbn [snd]. apply memb_false in Em. destruct (r_ok q) eqn:Eo.
    + intros [<-|H]; [auto with datatypes|]. destruct (IH _ H) as (H1 & H2 & H3). repeat split; auto with datatypes.
    + intros H. destruct (IH _ H) as (H1 & H2 & H3). auto with datatypes.
Qed.

(* at most one pull per file is dispatched in a pass (pulls of one file into one group never overlap) *)
Lemma pass_one_per_file seen reqs : NoDup (map r_file (snd (pass seen reqs))).
Proof.
  revert seen; induction reqs as [|q rs IH]; intros seen; cbn [pass]; [constructor|].
  destruct (memb (r_file q) seen); [apply IH|]. cbn [snd]. destruct (r_ok q); [|apply IH].
  cbn [map]. constructor; [|apply IH]. rewrite in_map_iff. intros (r & Ef & Hr).
  destruct (pass_dispatched _ _ _ Hr) as (_ & _ & Hn). apply Hn. rewrite Ef. left; reflexivity.
Qed.

(* a request that could be dispatched is never starved by requests that were only skipped: its file gets a pull in this pass *)
Lemma pass_no_starvation seen reqs r : In r reqs -> r_ok r = true -> ~ In (r_file r) seen ->
  exists r', In r' (snd (pass seen reqs)) /\ r_file r' = r_file r.
Proof.
  revert seen; induction reqs as [|q rs IH]; intros seen; [intros []|]. intros Hin Hok Hn. cbn [pass].
  destruct (memb (r_file q) seen) eqn:Em.
  - destruct Hin as [->|Hin]; [apply memb_spec in Em; contradiction|]. apply IH; assumption.
  - cbn [snd]. destruct Hin as [->|Hin].
    + rewrite Hok. exists r. split; [left; reflexivity | reflexivity].
    + destruct (r_ok q) eqn:Eo.
      * destruct (N.eq_dec (r_file q) (r_file r)) as [E|E].
        -- exists q. split; [left; reflexivity | exact E].
        -- destruct (IH (r_file q :: seen) Hin Hok) as (r' & H1 & H2); [intros [H|H]; [congruence | contradiction]|]. exists r'. split; [right; exact H1 | exact H2].
      * destruct (IH seen Hin Hok Hn) as (r' & H1 & H2). exists r'. auto.
Qed.

(* a request is handed to update_pull unless a request for its file was dispatched earlier in the pass *)
Lemma pass_considered seen reqs r : In r (fst (pass seen reqs)) -> In r reqs /\ ~ In (r_file r) seen.
Proof.
  revert seen; induction reqs as [|q rs IH]; intros seen; cbn [pass]; [intros []|].
  destruct (memb (r_file q) seen) eqn:Em.
  - intros H. destruct (IH _ H). auto with datatypes.
  - cbn [fst]. apply memb_false in Em. intros [<-|H]; [auto with datatypes|]. destruct (IH _ H) as (H1 & H2). split; [auto with datatypes|].
    destruct (r_ok q); [intros Hc; apply H2; right; exact Hc | exact H2].
Qed.
Lemma dispatched_considered seen reqs r : In r (snd (pass seen reqs)) -> In r (fst (pass seen reqs)).
Proof.
  revert seen; induction reqs as [|q rs IH]; intros seen; cbn [pass]; [intros []|].
  destruct (memb (r_file q) seen); [apply IH|]. cbn [fst snd]. destruct (r_ok q).
  - intros [<-|H]; [left; reflexivity | right; apply IH; exact H].
  - intros H. right; apply IH; exact H.
Qed.

Definition ex_reqs := [ {| r_id := 1; r_file := 7; r_ok := false |}; {| r_id := 2; r_file := 7; r_ok := true |};
                        {| r_id := 3; r_file := 7; r_ok := true |}; {| r_id := 4; r_file := 8; r_ok := true |} ]%N.
Lemma example_pass : considered ex_reqs = [1; 2; 4]%N /\ dispatched ex_reqs = [2; 4]%N.
Proof. split; reflexivity. Qed.
