"""C09 — crash consistency: a kill at every interposed call of every task type, restart, convergence."""
import ast
import pathlib

from vf import core
from vf.translate import core as T
from vf import rmdirs_family
from vf.harness import histories, itemrun as ir, itemworld as iw
from vf.harness import world as w

TRUSTED = [
    "directory clean-up (Model/Rmdirs.v): a kill = an exception out of os.rmdir; rmdir errors other than ENOENT / ENOTEMPTY (warn and go on) are not modelled",
    "Coq 8.16.1 kernel + VM (the item theorems are decided by vm_compute over complete finite enumerations, lifted by forallb_forall); no native_compute",
    "the item model is hand-written (Model/Item.v); its tie is the correspondence: the states left by a kill at every interposed call of the real daemon, and the fault-free rounds after it, "
    "are compared with the model's in Coq; the order of effects in pull_async / copy_request_done / delete_async / check_async is additionally pinned from the source text",
    "modelled, not verified: a kill is an exception raised at an interposed call (os-level mutators, INSERT/UPDATE/DELETE, process spawn) with the open sqlite transaction rolled back; "
    "loss of un-synced data by the OS or disk, and a kill in the middle of a single system call, are outside the model; a transport killed mid-transfer is represented by the stand-in's "
    "die_tmp / die_partial modes; tasks on one item do not overlap",
]
RULE = ("single-item worlds (source state x destination record x destination bytes x placeholder x request state) x environments (6 routes/transports, inactive source, unusable destination, "
        "full destination, deletion allowed or not) x transport behaviour of the interrupted attempt: the real daemon is killed at every interposed call of one iteration (k exhaustive) and "
        "then runs three fault-free rounds; every crash state and every round is compared with the model in Coq and checked against the statement directly; plus import crashes and random "
        "multi-item histories with one kill, compared with the uninterrupted run after convergence; non-trivial = the iteration performed at least 3 interposed calls; distinct by full input")

ORDER_PINS = {
    ("alpenhorn/io/_default_asyncs.py", "pull_async"): ["io.node.filecopy_state(req.file) == 'Y'", "placeholder.touch(", "ioutil.hardlink(", "placeholder.unlink(missing_ok=True)", "ioutil.copy_request_done(",
                                                        "to_file.unlink(missing_ok=True)"],
    ("alpenhorn/io/ioutil.py", "copy_request_done"): ["if not success:", "ArchiveFileCopy.update(has_file='M'", "return False", "with db.database_proxy.atomic():", "ArchiveFileCopy.insert(",
                                                      "except pw.IntegrityError:", "ArchiveFileCopyRequest.update(completed=True", "post_add(io.node, req.file)"],
    ("alpenhorn/io/_default_asyncs.py", "delete_async"): ["copy.file.archive_count", "fullpath.unlink()", "ArchiveFileCopy.update(has_file='N', wants_file='N'"],
}


def gen(ctx):
    for (path, fn), frags in ORDER_PINS.items():
        src = ast.unparse(T.find_func(T.parse(core.REPO / path), fn))
        pos = [src.find(f) for f in frags]
        if -1 in pos or pos != sorted(pos):
            missing = [f for f, p in zip(frags, pos) if p == -1]
            raise T.Untranslatable(f"UNTRANSLATABLE: {fn} no longer performs its effects in the modelled order (missing: {missing}; positions {pos})")
    return {}


def proofs(ctx):
    ctx.attempted.append("order-pins")
    try:
        gen(ctx)
        ctx.obligations.append("order-pins")
    except T.Untranslatable as e:
        ctx.broke("translator", "effect order of pull / delete / completion", str(e))
    ctx.attempted.append("remove_filedir-pin")
    try:
        rmdirs_family.pin()
        ctx.obligations.append("remove_filedir-pin")
    except T.Untranslatable as e:
        ctx.broke("translator", "remove_filedir", str(e))
    core.check_property_file(ctx, "C09.v")


# ---- single-item sweeps -------------------------------------------------------------------------------------------------
def safe(st):
    return not ir.backed(st)


def pre_transfer(i):
    return safe(i) and i["src_has"] == "Y" and i["src_disk"] == "good" and i["req"] == "pending" and not (i["dst_row"] is not None and i["dst_row"][1] == "N" and i["dst_row"][0] != "N")


def one_case(ctx, base, i, e, mode, terms, keep):
    r = ir.sweep(base, i, e, mode, recover_rounds=3)
    ctx.count("item-crash-sweep")
    ctx.count("crash-points", r["ncalls"])
    if r["ncalls"] >= 3:
        ctx.distinct_add(("sweep", repr(i), repr(e), mode))
    rp = {"family": "item", "item": i, "env": e, "mode": mode}
    for (where, err) in r["errors"]:
        ctx.fail("C09:daemon-died", f"{where}: the daemon died with {err[:300]}", rp)
    if safe(i):
        for j, st in enumerate(r["trace"][:-1], 1):
            for what in ir.backed(st):
                ctx.fail("C09:overclaim-after-crash", f"killed at call {j}: {what} ({st})", {**rp, "crash_at": j})
            if st["src_disk"] != i["src_disk"]:
                ctx.fail("C09:source-bytes-lost", f"killed at call {j}: the source's bytes changed ({st})", {**rp, "crash_at": j})
            if i["dst_row"] is not None and i["dst_row"][0] == "Y" and i["dst_row"][1] != "N" and i["dst_disk"] == "good" and st["dst_disk"] != "good":
                ctx.fail("C09:healthy-copy-lost", f"killed at call {j}: a healthy wanted destination copy lost its bytes ({st})", {**rp, "crash_at": j})
    if pre_transfer(i) and ir.good_env(e):
        for (j, st, obs) in r["recover"]:
            if not ir.healed(obs[-1]) and not (obs[-1]["dst_row"] is not None and obs[-1]["dst_row"][0] == "Y" and obs[-1]["dst_row"][1] == "M" and obs[-1]["dst_disk"] == "good" and obs[-1]["req"] != "pending"):
                ctx.fail("C09:not-recovered", f"{'uninterrupted' if j is None else f'killed at call {j}'}: three fault-free rounds later the transfer has not healed: {obs[-1]}", {**rp, "crash_at": j})
            if j is not None and obs[-1]["ph"]:
                ctx.fail("C09:stale-placeholder", f"killed at call {j}: three fault-free rounds after the restart the placeholder of the interrupted transfer is still beside the file "
                         f"(an uninterrupted transfer leaves none; the restarted daemon's first idle update removes it): {obs[-1]}", {**rp, "crash_at": j})
    row = i["dst_row"]
    if safe(i) and row is not None and row[1] == "N" and row[0] != "N" and i["req"] != "pending" and e["dst_usable"] and e["del_ok"]:
        for (j, st, obs) in r["recover"]:
            if obs[0]["dst_row"] != ("N", "N") or obs[0]["dst_disk"] is not None:
                ctx.fail("C09:release-not-recovered", f"{'uninterrupted' if j is None else f'killed at call {j}'} while deleting a released copy: one fault-free round later the copy is {obs[0]['dst_row']} "
                         f"with bytes {obs[0]['dst_disk']} (an uninterrupted run leaves it removed and gone)", {**rp, "crash_at": j})
    if safe(i) and row is not None and row[0] == "M" and row[1] != "N" and e["dst_usable"]:
        for (j, st, obs) in r["recover"]:
            if obs[0]["dst_row"] is not None and obs[0]["dst_row"][0] == "M":
                ctx.fail("C09:check-not-recovered", f"{'uninterrupted' if j is None else f'killed at call {j}'} while verifying a suspect copy: one round later it is still suspect", {**rp, "crash_at": j})
    terms.append(ir.trace_term(i, e, mode, r["trace"]))
    keep.append(("crash states", i, e, mode))
    for (j, st, obs) in r["recover"]:
        terms.append(ir.rounds_term(e, st, obs) if j is not None else ir.rounds_on_term(e, mode, i, obs))
        keep.append(("rounds after crash", j, st, e, mode, i))
    return r


def explore_items(ctx, base, n):
    terms, keep = [], []
    for k, (i, e, mode) in enumerate(ir.CORE + [ir.gen_case(ctx.rng) for _ in range(n)]):
        r = one_case(ctx, base, i, e, mode, terms, keep)
        if k == 0:
            ctx.sample({"item": i, "env": e, "mode": mode, "states_after_kill_at_each_call": r["trace"]})
    bad = core.run_cases(ctx, "item", "Corr.Item", "case", "check", terms, shard=250, extra_imports=("Model.Item", "Model.Pull"))
    for b in bad[:3]:
        ctx.broke("correspondence", f"item model and implementation differ on {keep[b]}")


# ---- imports --------------------------------------------------------------------------------------------------------------
def import_spec(kind):
    spec = {"groups": [{"name": "g1"}], "nodes": [{"name": "a", "group": "g1", "stype": "A", "host": "h1"}], "acqs": ["acq"], "files": [], "copies": [],
            "unregistered": [{"node": "a", "path": "acq/new0", "tag": 801, "size": 9}], "ireqs": [{"node": "a", "path": "acq/new0" if kind == "file" else "acq", "recurse": kind == "scan", "register": True}]}
    if kind == "known-acq-file":
        spec["files"] = [{"acq": "acq", "name": "new0", "size": 9, "tag": 801}]
        spec["ireqs"][0]["path"] = "acq/new0"
    return spec


def import_view(sim):
    d = sim.index()
    return {"files": [(f[2], f[3]) for f in d["file"]], "copies": [(c[1], c[2], c[3], c[4]) for c in d["copy"]], "ireq_done": [r[5] for r in d["ireq"]],
            "on_disk": pathlib.Path(sim.nodes["a"].root, "acq", "new0").exists()}


def import_records(sim):
    """(acquisition known, file known, copy row) of acq/new0 on node a, as a Coq db term"""
    from vf.core import cbool

    a = w.ArchiveAcq.get_or_none(name="acq")
    f = a and w.ArchiveFile.get_or_none(acq=a, name="new0")
    c = f and w.ArchiveFileCopy.get_or_none(file=f, node=sim.nodes["a"])
    HAS = {"Y": "HY", "M": "HM", "X": "HX", "N": "HN"}
    WANTS = {"Y": "WY", "M": "WM", "N": "WN"}
    row = "None" if not c else f"(Some ({HAS[c.has_file]}, {WANTS[c.wants_file]}))"
    return f"(D {cbool(a is not None)} {cbool(bool(f))} {row})"


def explore_imports(ctx, base):
    from vf.harness import daemon

    iterms, ikeep = [], []

    for kind in ("file", "scan", "known-acq-file"):
        spec = import_spec(kind)
        sim = daemon.Sim(base / "imp", spec)
        try:
            d0 = import_records(sim)
            n = sim.iterate("h1")["ncalls"]
            for _ in range(2):
                sim.iterate("h1")
            want = import_view(sim)
        finally:
            sim.shutdown()
        seen, finals = [], []
        for j in range(1, n + 1):
            sim = daemon.Sim(base / "imp", spec)
            rp = {"family": "import", "kind": kind, "crash_at": j}
            try:
                sim.iterate("h1", crash_at=j)
                v = import_view(sim)
                seen.append(import_records(sim))
                ctx.count("import-crash")
                # (a file record without its copy record is allowed here: the request stays pending and the retry adds the copy)
                if v["ireq_done"] == [True] and not any(c[2] == "Y" for c in v["copies"]):
                    ctx.fail("C09:import-request-overclaims", f"killed at call {j} of an import ({kind}): the request is completed but no healthy copy is recorded", rp)
                if any(c[2] == "Y" for c in v["copies"]) and not v["on_disk"]:
                    ctx.fail("C09:overclaim-after-crash", f"killed at call {j} of an import: healthy copy without the file", rp)
                for _ in range(3):
                    r = sim.iterate("h1")
                    if r["error"]:
                        ctx.fail("C09:daemon-died", f"after a kill at call {j} of an import the restarted daemon died: {r['error'][:300]}", rp)
                got = import_view(sim)
                finals.append(import_records(sim))
                if got != want:
                    ctx.fail("C09:import-not-recovered", f"killed at call {j} of an import ({kind}): after restart {got}, uninterrupted run {want}", rp)
            finally:
                sim.shutdown()
        ctx.distinct_add(("import", kind))
        for fin in (finals or [d0]):
            iterms.append(f"({d0}, [" + "; ".join(seen) + f"], {fin})")
            ikeep.append((kind, seen, fin))
    bad = core.run_cases(ctx, "importcrash", "Corr.C09", "icase", "icheck", iterms, shard=200, extra_imports=("Model.Import", "Proofs.ImportCrashProofs"))
    for b in bad[:3]:
        ctx.broke("correspondence", f"import crash states: model and implementation differ on {ikeep[b]}")


# ---- multi-item histories with one kill -------------------------------------------------------------------------------------
def healthy_view(sim):
    """per (node, file path): is it recorded healthy, and do the bytes on disk match the registration"""
    import hashlib

    out = {}
    for c in w.ArchiveFileCopy.select():
        f, n = c.file, c.node
        rel = f"{f.acq.name}/{f.name}"
        p = pathlib.Path(n.root, rel)
        try:
            good = hashlib.md5(p.read_bytes()).hexdigest() == f.md5sum
        except OSError:
            good = None
        out[(n.name, rel)] = (c.has_file, c.wants_file, good)
    return out


def settle(sim, hosts, limit=14):
    prev = None
    for k in range(limit):
        for h in hosts:
            r = sim.iterate(h)
            if r["error"]:
                return k, r["error"]
        cur = (sim.index(), sim.trees())
        if cur == prev:
            return k, None
        prev = cur
    return limit, None


def run_crash_history(ctx, base, spec, ops, host, crash_at, post_ops=()):
    from vf.harness import daemon, monitors

    def play(crash):
        sim = daemon.Sim(base / "hist", spec)
        sim.set_tools("both")
        mon = monitors.Monitors(sim, ctx, {"family": "crash-history", "spec": spec, "ops": [list(o) for o in ops], "host": host, "crash_at": crash_at})
        try:
            for op in ops:
                res = histories.apply_op(sim, mon, op)
                if res is not None and res["error"]:
                    return None
            res = sim.iterate(host, crash_at=crash)
            ncalls = res["ncalls"]
            after = healthy_view(sim) if crash else None
            for op in post_ops:  # what the operator does next, whether or not the daemon was killed
                histories.apply_op(sim, mon, op)
            tainted = set(sim.tainted)
            if crash:
                # the killed daemon is restarted before any other host acts, so that the comparison with the uninterrupted run is
                # not blurred by a different order of the hosts' iterations
                r2 = sim.iterate(host)
                if r2["error"]:
                    return {"ncalls": ncalls, "after_crash": after, "end": healthy_view(sim), "tainted": tainted, "rounds": 0, "err": r2["error"], "index": sim.index(), "trees": sim.trees()}
            rounds, err = settle(sim, histories.HOSTS)
            return {"ncalls": ncalls, "after_crash": after, "end": healthy_view(sim), "tainted": tainted, "rounds": rounds, "err": err, "index": sim.index(), "trees": sim.trees()}
        finally:
            sim.shutdown()

    return play(crash_at)


def staged_corpus(ctx, base):
    """a local transfer (hard link / internal copy: staged in a temporary directory beside the destination) killed at every call, after which
    the operator asks for a scan of the acquisition on the destination: the restarted daemons must end where the uninterrupted run ends"""
    for stype, tools in (("A", "both"), ("F", "none")):
        spec = {"groups": [{"name": "g1"}, {"name": "g2"}],
                "nodes": [{"name": "n1", "group": "g1", "stype": stype, "host": "h1", "active": True, "username": "u", "address": "addr"},
                          {"name": "n2", "group": "g2", "stype": "A", "host": "h1", "active": True, "username": "u", "address": "addr"}],
                "acqs": ["acq1"], "files": [{"acq": "acq1", "name": "data.bin", "size": 150}], "copies": [{"file": 0, "node": "n1", "has": "Y", "wants": "Y"}],
                "reqs": [{"file": 0, "from": "n1", "to": "g2", "state": "pending"}], "rules": [], "unregistered": [], "ireqs": []}
        ops = [("tools", tools, {})]
        post = [("cli", "node scan", ["n2", "acq1", "--register-new"])]
        a = run_crash_history(ctx, base, spec, ops, "h1", None, post)
        if a is None:
            ctx.broke("harness", "staged corpus", "the uninterrupted staged transfer did not run")
            continue
        for k in range(1, a["ncalls"] + 1):
            b = run_crash_history(ctx, base, spec, ops, "h1", k, post)
            ctx.count("crash-history")
            rp = {"family": "crash-history", "spec": spec, "ops": [list(o) for o in ops], "host": "h1", "crash_at": k, "post_ops": [list(o) for o in post]}
            if b is None:
                continue
            if b["err"]:
                ctx.fail("C09:daemon-died", f"after a kill at call {k} a restarted daemon died: {b['err'][:300]}", rp)
                continue
            extra = sorted(set(b["end"]) - set(a["end"]))
            if extra:
                ctx.fail("C09:diverged-after-crash", f"killed at call {k} on h1: after the restart the index holds copies no uninterrupted run records: {[(x, b['end'][x]) for x in extra]}", rp)
            for key in set(a["end"]) & set(b["end"]):
                ha = a["end"][key][0] == "Y" and a["end"][key][2] is True
                hb = b["end"][key][0] == "Y" and b["end"][key][2] is True
                if ha != hb:
                    ctx.fail("C09:diverged-after-crash", f"killed at call {k} on h1: after convergence copy {key} is {b['end'][key]}, the uninterrupted run leaves {a['end'][key]}", rp)


def deletion_corpus(ctx, base):
    """the deletion of a released copy whose acquisition (and file name) are several directories deep, killed at every call: after the restart
    the copy is gone from its source exactly as an uninterrupted run leaves it --- record removed, file gone, and the directories that held
    nothing else gone with it (the retry finds part of the way up already removed)"""
    for acq, name in (("2024/run7", "data.dat"), ("acq1", "sub/deep/f.dat"), ("a/b/c", "d/e")):
        spec = {"groups": [{"name": "g1"}, {"name": "g2"}, {"name": "g3"}],
                "nodes": [{"name": "n1", "group": "g1", "stype": "F", "host": "h1", "active": True, "username": "u", "address": "addr"},
                          {"name": "n2", "group": "g2", "stype": "A", "host": "h2", "active": True, "username": "u", "address": "addr"},
                          {"name": "n3", "group": "g3", "stype": "A", "host": "h2", "active": True, "username": "u", "address": "addr"}],
                "acqs": [acq], "files": [{"acq": acq, "name": name, "size": 150}],
                "copies": [{"file": 0, "node": "n1", "has": "Y", "wants": "N"}, {"file": 0, "node": "n2", "has": "Y", "wants": "Y"}, {"file": 0, "node": "n3", "has": "Y", "wants": "Y"}],
                "reqs": [], "rules": [], "unregistered": [], "ireqs": []}
        a = run_crash_history(ctx, base, spec, [], "h1", None)
        if a is None or a["end"].get(("n1", f"{acq}/{name}"), ("?",))[0] != "N":
            ctx.broke("harness", "deletion corpus", f"the uninterrupted deletion of {acq}/{name} did not run: {a and a['end']}")
            continue
        for k in range(1, a["ncalls"] + 1):
            b = run_crash_history(ctx, base, spec, [], "h1", k)
            ctx.count("crash-history")
            ctx.distinct_add(("deletion", acq, name, k))
            rp = {"family": "crash-deletion", "spec": spec, "ops": [], "host": "h1", "crash_at": k}
            if b is None:
                continue
            if b["err"]:
                ctx.fail("C09:daemon-died", f"after a kill at call {k} a restarted daemon died: {b['err'][:300]}", rp)
                continue
            if b["end"] != a["end"] or b["trees"]["n1"] != a["trees"]["n1"]:
                ctx.fail("C09:deletion-not-completed", f"killed at call {k} while deleting the released copy of {acq}/{name}: after the restart the copy is {b['end'].get(('n1', acq + '/' + name))} and the node "
                         f"holds {[x[0] for x in b['trees']['n1']]}; an uninterrupted run leaves {a['end'].get(('n1', acq + '/' + name))} and {[x[0] for x in a['trees']['n1']]}", rp)


def explore_histories(ctx, base, n):
    staged_corpus(ctx, base)
    done = 0
    for _ in range(n * 3):
        if done >= n:
            break
        spec = histories.gen_spec(ctx.rng)
        spec["rules"] = []  # rule firing of an interrupted task is a separate matter (observation O-1 in DESIGN.md)
        ops = [o for o in histories.gen_ops(ctx.rng, spec, ctx.rng.randint(0, 4)) if o[0] != "tools"]
        host = ctx.rng.choice(histories.HOSTS)
        a = run_crash_history(ctx, base, spec, ops, host, None)
        if a is None or a["ncalls"] < 3:
            continue
        k = ctx.rng.randint(1, a["ncalls"])
        b = run_crash_history(ctx, base, spec, ops, host, k)
        if b is None:
            continue
        done += 1
        ctx.count("crash-history")
        ctx.distinct_add(("hist", repr(spec), repr(ops), host, k))
        rp = {"family": "crash-history", "spec": spec, "ops": [list(o) for o in ops], "host": host, "crash_at": k}
        if b["err"]:
            ctx.fail("C09:daemon-died", f"after a kill at call {k} on {host} a restarted daemon died: {b['err'][:300]}", rp)
            continue
        for key, (has, wants, good) in b["after_crash"].items():
            if key in b["tainted"]:
                continue
            if has == "Y" and wants != "N" and good is not True and a["end"].get(key, (None,))[0] == "Y":
                ctx.fail("C09:overclaim-after-crash", f"killed at call {k} on {host}: copy {key} is recorded healthy but its bytes are {'absent' if good is None else 'different'}", rp)
        for key in set(a["end"]) | set(b["end"]):
            if key in a["tainted"] or key in b["tainted"]:
                continue
            ea, eb = a["end"].get(key), b["end"].get(key)
            ha = ea is not None and ea[0] == "Y" and ea[2] is True
            hb = eb is not None and eb[0] == "Y" and eb[2] is True
            if ha != hb:
                ctx.fail("C09:diverged-after-crash", f"killed at call {k} on {host}: after convergence copy {key} is {eb}, the uninterrupted run leaves {ea}", rp)
        if done == 1:
            ctx.sample({"crash_history": {"ops": [list(o) for o in ops], "host": host, "crash_at": k, "of": a["ncalls"], "rounds_to_settle": b["rounds"]}})


def explore_scan_completion(ctx, base):
    """a scan request is completed by a task that cannot start while an import it queued is still running (any number of workers): a kill
    with an import in flight therefore finds the request still pending, and the restart scans again"""
    import shutil

    from alpenhorn.daemon import update as U
    from alpenhorn.scheduler import FairMultiFIFOQueue

    for nfiles in (1, 2, 3):
        for taken in range(1, nfiles + 1):
            shutil.rmtree(base, ignore_errors=True)
            w.fresh_db(host="h1")
            g = w.mkgroup("g")
            node = w.mknode(base, "n1", g, stype="F", host="h1")
            root = pathlib.Path(node.root)
            (root / "acq1").mkdir()
            for i in range(nfiles):
                (root / "acq1" / f"f{i}.dat").write_bytes(b"x" * (i + 1))
            w.ArchiveFileImportRequest.create(node=node, path="acq1", recurse=True, register=True)
            queue = FairMultiFIFOQueue()
            un = U.UpdateableNode(queue, w.StorageNode.get(id=node.id))
            un.update_import()
            t, key = queue.get(timeout=0.01)  # the scan task
            t()
            queue.task_done(key)
            running = []
            for _ in range(taken):  # workers take imports and are still busy with them
                it = queue.get(timeout=0.01)
                if it is None:
                    break
                running.append(it)
            names = [str(x[0]) for x in running]
            # one more worker asks for work while those imports are in flight
            extra = []
            while True:
                it = queue.get(timeout=0.01)
                if it is None:
                    break
                extra.append(str(it[0]))
                running.append(it)
            req = w.ArchiveFileImportRequest.get()
            ctx.count("scan-completion")
            ctx.distinct_add(("scan-completion", nfiles, taken))
            rp = {"family": "scan-completion", "files": nfiles, "imports_in_flight": names, "handed_out_next": extra}
            if any("Complete scan" in x for x in extra) and any("Import" in x for x in names):
                ctx.fail("C09:scan-completed-early", f"with the imports {names} still in flight another worker was handed {extra}: the scan request is completed while an import it stands for "
                         f"has not run (a kill now loses that import for good)", rp)
            for it in running:
                queue.task_done(it[1])
    shutil.rmtree(base, ignore_errors=True)


def explore(ctx):
    base = ctx.tmp()
    q = ctx.quick()
    explore_items(ctx, base, 12 if q else 600)
    explore_imports(ctx, base)
    explore_scan_completion(ctx, base / "scandone")
    deletion_corpus(ctx, base)
    rmdirs_family.explore(ctx, base / "rmdirs", 120 if q else 3000)
    explore_histories(ctx, base, 15 if q else 400)


def search(ctx):
    explore(ctx)


def replay(ctx, rp):
    r = rp["replay"]
    base = ctx.tmp()
    if r.get("family") == "item":
        terms, keep = [], []
        one_case(ctx, base, r["item"] | {"dst_row": tuple(r["item"]["dst_row"]) if r["item"]["dst_row"] else None}, r["env"], r["mode"], terms, keep)
    elif r.get("family") == "crash-history":
        ops = [tuple(o) for o in r["ops"]]
        a = run_crash_history(ctx, base, r["spec"], ops, r["host"], None)
        b = run_crash_history(ctx, base, r["spec"], ops, r["host"], r["crash_at"])
        print("uninterrupted:", a and a["end"])
        print("killed:", b and b["end"])
    else:
        print(r)
        return 2
    for f in ctx.failing:
        print(f["signature"], f["what"])
    return 1 if ctx.failing else 0
