"""C14 — space reservations: DefaultNodeIO.reserve_bytes / release_bytes / pull, and the pull task's clean-up."""
import ast
import os
import pathlib

from vf import core
from vf.core import cbool, clist, cn, copt, ctup, cz
from vf.translate import core as T

TRUSTED = [
    "Coq 8.16.1 kernel + VM; no native_compute",
    "translator vf/translate for the guards of reserve_bytes / release_bytes / DefaultNodeIO.pull, reserve_factor, and the position of the release registration in pull_async",
    "os.statvfs replaced by a scripted free-space oracle; "
    "modelled, not verified: GiB floats of under_min / over_max enter the model as the booleans the real properties returned; concurrency of the module mutex (one critical section per call)",
]
RULE = ("random node histories: pull dispatches (sizes x free space {none-blocking, < 2 size, = 2 size, >} x under_min x over_max) interleaved with task ends by every path "
        "(already present, no route, transport failure, digest mismatch, success, database error at the k-th statement), run by the real Worker.run; the reserved total is read "
        "after every event; plus direct reserve_bytes calls; non-trivial = at least one accepted dispatch; distinct by event list")


def gen(ctx):
    tree = T.parse(core.REPO / "alpenhorn/io/default.py")
    atoms = {"_reserved_bytes[self.node.name]": ("reserved", "Z"), "self.node.under_min": ("under_min", "bool"), "self.node.check_over_max()": ("over_max", "bool"),
             "self.reserve_bytes(req.file.size_b)": ("reserved_ok", "bool")}
    q = "DefaultNodeIO."
    d = [
        T.nth_test(tree, q + "reserve_bytes", 0, {"bavail": "optZ", "size": "Z"}, "g_insufficient", ["bavail", "reserved", "size"], atoms=atoms, expect_count=2),
        T.nth_test(tree, q + "reserve_bytes", 1, {"check_only": "bool"}, "g_really_reserve", atoms=atoms),
        T.nth_test(tree, q + "release_bytes", 0, {"size": "Z"}, "g_release_too_much", ["reserved", "size"], atoms=atoms, expect_count=1),
        T.nth_test(tree, q + "pull", 0, {}, "g_gate_under_min", atoms=atoms, expect_count=3),
        T.nth_test(tree, q + "pull", 1, {}, "g_gate_over_max", atoms=atoms),
        T.nth_test(tree, q + "pull", 2, {}, "g_gate_no_space", atoms=atoms),
    ]
    # the two node properties the gate reads
    sto = T.parse(core.REPO / "alpenhorn/db/storage.py")
    natoms = {"self.max_total_gb is None": ("max_none", "bool"), "self.get_total_gb()": ("total", "Z"), "self.avail_gb is None": ("avail_none", "bool")}
    d += [
        T.nth_test(sto, "StorageNode.check_over_max", 0, {"self_max_total_gb": "Z"}, "g_no_limit", ["max_none", "self_max_total_gb"], atoms=natoms, expect_count=1),
        T.return_expr(sto, "StorageNode.check_over_max", {"self_max_total_gb": "Z"}, "g_over_max", ["total", "self_max_total_gb"], atoms=natoms),
        T.nth_test(sto, "StorageNode.under_min", 0, {}, "g_avail_unknown", ["avail_none"], atoms=natoms, expect_count=1),
        T.return_expr(sto, "StorageNode.under_min", {"self_avail_gb": "Z", "self_min_avail_gb": "Z"}, "g_under_min", ["self_avail_gb", "self_min_avail_gb"], atoms=natoms),
    ]
    gt = [ast.unparse(x) for x in ast.walk(T.find_func(sto, "StorageNode.get_total_gb")) if isinstance(x, ast.Call) and isinstance(x.func, ast.Attribute) and x.func.attr == "where"]
    if gt != ["ArchiveFile.select(fn.Sum(ArchiveFile.size_b)).join(ArchiveFileCopy).where(ArchiveFileCopy.node == self, ArchiveFileCopy.has_file == 'Y')"]:
        raise T.Untranslatable(f"UNTRANSLATABLE: StorageNode.get_total_gb no longer sums the files of all present copies: {gt}")
    for fn_, n_ in (("check_over_max", 2), ("under_min", 2)):
        rets = [(x.lineno, ast.unparse(x)) for x in ast.walk(T.find_func(sto, "StorageNode." + fn_)) if isinstance(x, ast.Return)]
        rets = [r for _, r in sorted(rets)]
        if len(rets) != n_ or rets[0] != "return False":
            raise T.Untranslatable(f"UNTRANSLATABLE: StorageNode.{fn_} no longer answers False first (no limit / space unknown): {rets}")
    cls = T.find_func(tree, "DefaultNodeIO")
    rf = [x for x in cls.body if isinstance(x, ast.Assign) and ast.unparse(x.targets[0]) == "reserve_factor"]
    if len(rf) != 1 or not isinstance(rf[0].value, ast.Constant) or not isinstance(rf[0].value.value, int):
        raise T.Untranslatable("UNTRANSLATABLE: DefaultNodeIO.reserve_factor is not a single integer constant")
    d.append(f"Definition g_reserve_factor : Z := ({rf[0].value.value})%Z.")
    for fn in ("reserve_bytes", "release_bytes"):
        f = T.find_func(tree, q + fn)
        augs = [ast.unparse(x) for x in ast.walk(f) if isinstance(x, ast.AugAssign)]
        want = ["size *= self.reserve_factor", "_reserved_bytes[self.node.name] += size"] if fn == "reserve_bytes" else ["size *= self.reserve_factor", "_reserved_bytes[self.node.name] -= size"]
        if augs != want:
            raise T.Untranslatable(f"UNTRANSLATABLE: arithmetic of {fn} changed: {augs}")
        withs = [ast.unparse(x.items[0].context_expr) for x in ast.walk(f) if isinstance(x, ast.With)]
        if withs != ["_mutex"]:
            raise T.Untranslatable(f"UNTRANSLATABLE: {fn} no longer runs under the module mutex: {withs}")
        # one critical section per call: every read and write of the running total is inside the with-block
        wnode = next(x for x in ast.walk(f) if isinstance(x, ast.With))
        inside = {id(x) for x in ast.walk(wnode)}
        outside = [x.lineno for x in ast.walk(f) if isinstance(x, ast.Name) and x.id == "_reserved_bytes" and id(x) not in inside]
        if outside:
            raise T.Untranslatable(f"UNTRANSLATABLE: {fn} touches _reserved_bytes outside the mutex (lines {outside})")
    # re-creating the node's I/O object must keep the running total of the transfers in flight
    init = ast.unparse(T.find_func(tree, q + "__init__"))
    if "_reserved_bytes.setdefault(node.name, 0)" not in init or "with _mutex:" not in init:
        raise T.Untranslatable("UNTRANSLATABLE: DefaultNodeIO.__init__ no longer initialises the node's reservation with setdefault under the mutex")
    # pull_async: the release must be registered before any statement that can end the task
    asy = T.parse(core.REPO / "alpenhorn/io/_default_asyncs.py")
    body = T.strip_doc(T.find_func(asy, "pull_async").body)
    first = ast.unparse(body[0]) if body else ""
    if first != "task.on_cleanup(io.release_bytes, args=(req.file.size_b,))":
        raise T.Untranslatable(f"UNTRANSLATABLE: the first statement of pull_async is not the registration of the release: {first[:100]}")
    others = [ast.unparse(x) for x in ast.walk(T.find_func(asy, "pull_async")) if isinstance(x, ast.Call) and "release_bytes" in ast.unparse(x)]
    if len(others) != 1:
        raise T.Untranslatable(f"UNTRANSLATABLE: release_bytes is mentioned {len(others)} times in pull_async")
    return {"Gen_reserve": T.HEADER + "\n".join(d) + "\n"}


def proofs(ctx):
    try:
        files = gen(ctx)
    except T.Untranslatable as e:
        ctx.broke("translator", "io/default.py reservations", str(e))
        files = None
    if files:
        core.check_tie(ctx, files, ["Tie_C14"])
    core.check_property_file(ctx, "C14.v")


# ---- implementation ---------------------------------------------------------------------------------------------
class StatVfs:
    def __init__(self, bavail):
        self.f_bavail, self.f_bsize = bavail, 1


class Hist:
    def __init__(self, base, rng):
        from vf.harness import world as w
        from alpenhorn.io import default as D

        self.w, self.D, self.rng = w, D, rng
        self.sdb = w.fresh_db()
        self.base = base
        import shutil

        shutil.rmtree(base / "c14", ignore_errors=True)
        (base / "c14").mkdir(parents=True)
        b = base / "c14"
        self.gs, self.gd, self.gr = w.mkgroup("gs"), w.mkgroup("gd"), w.mkgroup("gr")
        self.dst_type = rng.choice("AF")
        self.src = w.mknode(b, "src", self.gs, stype="F")
        self.srcA = w.mknode(b, "srcA", self.gs, stype="A")
        self.remote = w.mknode(b, "rem", self.gr, stype="F", host="elsewhere")  # no username/address: no route
        self.dst = w.mknode(b, "dst", self.gd, stype=self.dst_type)
        self.acq = w.mkacq("acq")
        self.queue = w.StepQueue.make()
        D._reserved_bytes.clear()
        self.io = D.DefaultNodeIO(self.dst, {}, self.queue)
        self.bavail = 10 ** 6
        self.nf = 0
        self.live = []  # (req id, size, path kind)

    def reserved(self):
        return self.D._reserved_bytes[self.dst.name]

    def dispatch(self, size, um, om, bavail, kind):
        w = self.w
        self.nf += 1
        content = w.content_of(self.nf, size)
        src = {"remote": self.remote}.get(kind, self.src if kind != "cross" else (self.srcA if self.dst_type == "F" else self.src))
        f = w.mkfile(self.acq, f"f{self.nf}", content)
        if kind == "md5":
            w.ArchiveFile.update(md5sum="0" * 32).where(w.ArchiveFile.id == f.id).execute()
            f = w.ArchiveFile.get(id=f.id)
        if kind != "nosrc":
            w.put_on_disk(src, f, content)
        w.mkcopy(src, f, "Y", "Y", size_b=size)
        req = w.mkreq(f, src, self.gd)
        node = w.StorageNode.get(id=self.dst.id)
        node.min_avail_gb = 2.0 if um else 0.0
        node.avail_gb = 1.0
        node.max_total_gb = 1e-15 if om else None
        node.save()
        if om and not w.ArchiveFileCopy.select().where(w.ArchiveFileCopy.node == node, w.ArchiveFileCopy.has_file == "Y").count():
            # over_max needs a non-empty node
            g = w.mkfile(self.acq, f"seed{self.nf}", b"x")
            w.mkcopy(node, g, "Y", "Y", size_b=1)
        self.io.set_storage(node) if hasattr(self.io, "set_storage") else None
        self.io.node = node
        # what the node's own properties say (the model takes these booleans)
        self.last_um, self.last_om = bool(node.under_min), bool(node.check_over_max())
        before_q = self.queue.qsize
        orig = os.statvfs
        os.statvfs = lambda p: StatVfs(bavail)
        try:
            self.io.pull(req)
        finally:
            os.statvfs = orig
        queued = self.queue.qsize == before_q + 1
        if queued:
            self.live.append((req.id, size, kind, f))
        return req.id, queued

    def reinit(self):
        """the daemon re-creates the node's I/O object (UpdateableNode.reinit after an io_config change, or the node coming back)"""
        node = self.w.StorageNode.get(id=self.dst.id)
        self.io = self.D.DefaultNodeIO(node, {}, self.queue)

    def finish_oldest(self, fault_at=None):
        """run the oldest queued pull task through the real Worker.run"""
        w = self.w
        rid, size, kind, f = self.live.pop(0)
        if kind == "present":
            w.mkcopy(self.dst, f, "Y", "Y", size_b=size)
        saved_path = os.environ.get("PATH", "")
        empty = self.base / "c14" / "emptybin"
        empty.mkdir(exist_ok=True)
        if kind in ("cross", "md5", "nosrc_internal"):
            os.environ["PATH"] = str(empty)  # no rsync: internal copy
        orig = os.statvfs
        os.statvfs = lambda p: StatVfs(10 ** 9)
        from alpenhorn.scheduler import pool

        try:
            w1 = pool.Worker(self.queue, 0)
            got = {"n": 0}
            oq = self.queue

            class QP:
                @staticmethod
                def get(timeout=None):
                    if got["n"] >= 1:
                        w1._worker_stop.set()
                        return None
                    got["n"] += 1
                    return oq.get(timeout=timeout)

                task_done = oq.task_done

            w1._queue = QP
            if fault_at is not None:
                with w.SqlFault(self.sdb, fail_at=fault_at) as sf:
                    r = w1.run()
            else:
                r = w1.run()
        finally:
            os.statvfs = orig
            os.environ["PATH"] = saved_path
        aborted = pool.global_abort.is_set()
        pool.global_abort.clear()
        return rid, r, aborted


KINDS = ["ok", "ok", "present", "remote", "nosrc", "cross", "md5"]


def run_history(ctx, rng, base, n_events):
    h = Hist(base, rng)
    evs, totals, log = [], [], []
    for _ in range(n_events):
        if rng.random() < 0.12:
            before = h.reserved()
            h.reinit()
            evs.append("Reinit")
            totals.append(h.reserved())
            log.append({"reinit": True, "reserved_before": before, "reserved_after": h.reserved(), "queued_or_running": len(h.live)})
            if h.reserved() != before:
                ctx.fail("C14:reinit-changed-total", f"re-creating the node's I/O object changed the reserved total from {before} to {h.reserved()} with {len(h.live)} transfer(s) queued or running", {"family": "history", "log": log})
        elif h.live and rng.random() < 0.45:
            fault = rng.choice([None, None, None, 1, 2, 3, 5, 8])
            rid, r, aborted = h.finish_oldest(fault)
            evs.append(f"(Finish {cn(rid)})")
            totals.append(h.reserved())
            log.append({"finish": rid, "db_fault_at": fault, "worker_exit": r, "reserved_after": h.reserved()})
            if aborted:
                ctx.fail("C14:abort", f"a pull task with a database fault at statement {fault} set global_abort", {"family": "history", "log": log})
        else:
            size = rng.choice([0, 1, 7, 50, 120])
            res = h.reserved()
            bav = rng.choice([res + 2 * size, res + 2 * size - 1, res + 2 * size + 1, 0, 10 ** 6, res])
            um, om = rng.random() < 0.12, rng.random() < 0.12
            kind = rng.choice(KINDS)
            rid, queued = h.dispatch(size, um, om, max(bav, 0), kind)
            um, om = h.last_um, h.last_om
            evs.append(f"(Dispatch {cn(rid)} {cz(size)} {cbool(um)} {cbool(om)} {copt(max(bav, 0), cz, 'Z')})")
            totals.append(h.reserved())
            log.append({"dispatch": rid, "size": size, "under_min": um, "over_max": om, "bavail": max(bav, 0), "kind": kind, "queued": queued, "reserved_after": h.reserved()})
            # monitor: the gate
            fits = 2 * size <= max(bav, 0) - res
            if queued != (fits and not um and not om):
                ctx.fail("C14:gate", f"pull of {size} bytes with bavail {max(bav, 0)}, reserved {res}, under_min={um}, over_max={om}: queued={queued}", {"family": "history", "log": log})
    while h.live:
        rid, r, aborted = h.finish_oldest(None)
        evs.append(f"(Finish {cn(rid)})")
        totals.append(h.reserved())
        log.append({"finish": rid, "reserved_after": h.reserved()})
    if h.reserved() != 0:
        ctx.fail("C14:leak", f"no pull queued or running, but {h.reserved()} bytes are still reserved", {"family": "history", "log": log})
    if min(totals + [0]) < 0:
        ctx.fail("C14:negative", "reserved total went negative", {"family": "history", "log": log})
    return evs, totals, log


def direct_calls(ctx, rng, base, n):
    h = Hist(base, rng)
    cases = []
    for _ in range(n):
        res = rng.choice([0, 10, 100])
        size = rng.choice([0, 1, 5, 50])
        bav = rng.choice([res + 2 * size, res + 2 * size - 1, res + 2 * size + 1, 0, 10 ** 6])
        co = rng.random() < 0.5
        h.D._reserved_bytes[h.dst.name] = res
        orig = os.statvfs
        os.statvfs = lambda p: StatVfs(bav)
        try:
            ok = h.io.reserve_bytes(size, check_only=co) if rng.random() < 0.7 else (h.io.fits(size), setattr(h, "_co", True))[0]
            if hasattr(h, "_co"):
                co = True
                del h._co
        finally:
            os.statvfs = orig
        after = h.reserved()
        ctx.count("reserve_bytes")
        cases.append(ctup(cz(size), cbool(co), copt(bav, cz, "Z"), cz(res), ctup(cbool(ok), cz(after))))
    h.D._reserved_bytes[h.dst.name] = 0
    return cases


def gate_quantities(ctx, rng, base, n):
    """real DefaultNodeIO.pull on a real node row whose free space, minimum, stored total and size limit sit on and around the
    boundaries (all GiB values are exact multiples of 2^-30, i.e. whole bytes)"""
    from vf.harness import world as w
    from alpenhorn.io import default as D

    G = float(2 ** 30)
    cases, keep = [], []
    for k in range(n):
        w.fresh_db(host="h1")
        (base / f"gq{k % 4}").mkdir(parents=True, exist_ok=True)
        b = base / f"gq{k % 4}"
        gs, gd = w.mkgroup("gs"), w.mkgroup("gd")
        src = w.mknode(b, "src", gs, stype="F")
        dst = w.mknode(b, "dst", gd, stype=rng.choice("AF"))
        acq = w.mkacq("acq")
        mx = rng.choice([None, None, 0, -1024, 1024, 2048, 4096])
        tot_parts = rng.choice([[], [1024], [1023], [1025], [1024, 1024], [2048], [2047], [4096], [4095, 1], [100]])
        mn = rng.choice([0, 1024, 2048])
        av = rng.choice([None, 0, 1023, 1024, 1025, 2047, 2048, 2049, 10 ** 6])
        size = rng.choice([0, 1, 100, 1024])
        res = rng.choice([0, 0, 10, 200])
        bav = rng.choice([res + 2 * size, res + 2 * size, max(0, res + 2 * size - 1), res + 2 * size + 1, 10 ** 7])
        for j, sz in enumerate(tot_parts):
            f = w.mkfile(acq, f"old{j}", b"")
            w.ArchiveFile.update(size_b=sz).where(w.ArchiveFile.id == f.id).execute()
            # what is on the node counts, whether it is to stay, removable or already released (and not yet deleted)
            w.mkcopy(dst, f, "Y", rng.choice("YYMN"), size_b=sz)
        # copies that do not count towards the total: suspect, corrupt, removed
        for j, hs in enumerate(rng.sample(["M", "X", "N"], rng.randint(0, 2))):
            f = w.mkfile(acq, f"nc{j}", b"")
            w.ArchiveFile.update(size_b=5000).where(w.ArchiveFile.id == f.id).execute()
            w.mkcopy(dst, f, hs, "Y", size_b=5000)
        node = w.StorageNode.get(id=dst.id)
        node.min_avail_gb = mn / G
        node.avail_gb = None if av is None else av / G
        node.max_total_gb = None if mx is None else mx / G
        node.save()
        node = w.StorageNode.get(id=dst.id)
        f = w.mkfile(acq, "new", b"")
        w.ArchiveFile.update(size_b=size).where(w.ArchiveFile.id == f.id).execute()
        f = w.ArchiveFile.get(id=f.id)
        w.mkcopy(src, f, "Y", "Y", size_b=size)
        req = w.mkreq(f, src, gd)
        queue = w.StepQueue.make()
        D._reserved_bytes.clear()
        io = D.DefaultNodeIO(node, {}, queue)
        D._reserved_bytes[node.name] = res
        orig = os.statvfs

        def statvfs(p, _b=bav):
            if _b is None:
                raise OSError("scripted: no statvfs")
            return StatVfs(_b)

        os.statvfs = statvfs
        try:
            try:
                seen_bav = io.bytes_avail()
            except OSError:
                seen_bav = "raised"
            io.pull(req)
        finally:
            os.statvfs = orig
        queued = queue.qsize == 1
        after = D._reserved_bytes[node.name]
        D._reserved_bytes.clear()
        total = sum(tot_parts)
        ctx.count("gate-quantities")
        ctx.distinct_add(("gq", mx, total, mn, av, size, res, bav))
        rp = {"family": "gate-quantities", "max_total_bytes": mx, "total_bytes": total, "min_avail_bytes": mn, "avail_bytes": av, "size": size, "reserved": res, "free_bytes": bav, "queued": queued}
        if seen_bav == "raised":
            continue
        # the property's sentence, on the quantities
        if queued and av is not None and av < mn:
            ctx.fail("C14:gate-under-min", f"a transfer was started on a node with {av} bytes free, below its minimum of {mn}", rp)
        if queued and mx is not None and mx > 0 and total >= mx:
            ctx.fail("C14:gate-at-limit", f"a transfer was started on a node holding {total} bytes with a size limit of {mx} bytes", rp)
        if queued and seen_bav is not None and 2 * size > seen_bav - res:
            ctx.fail("C14:gate-no-room", f"a transfer of {size} bytes was started with {seen_bav} bytes free and {res} reserved", rp)
        if after != res + (2 * size if queued else 0):
            ctx.fail("C14:gate-reservation", f"reserved went {res} -> {after} (queued={queued}, size {size})", rp)
        cases.append(ctup(copt(av, cz, "Z"), cz(mn), cz(total), copt(mx, cz, "Z"), cz(size), copt(seen_bav, cz, "Z"), cz(res), ctup(cbool(queued), cz(after))))
        keep.append(rp)
    return cases, keep


def transport_gate(ctx, rng, base, n):
    """the same sentence for a Transport group: the real TransportGroupIO.pull_force over one to three real transport nodes (real
    fits, real DefaultNodeIO.pull), each with its own scripted free space, reservation, minimum and size limit on the boundaries"""
    from vf.harness import world as w
    from alpenhorn.daemon import update as U
    from alpenhorn.io import default as D
    from alpenhorn.io import transport as TR

    G = float(2 ** 30)
    for k in range(n):
        w.fresh_db(host="h1")
        b = base / f"tg{k % 4}"
        b.mkdir(parents=True, exist_ok=True)
        gs, gt = w.mkgroup("gs"), w.mkgroup("gt", io_class="Transport")
        src = w.mknode(b, "src", gs, stype="F")
        acq = w.mkacq("acq")
        size = rng.choice([1, 100, 1024])
        f = w.mkfile(acq, "new", b"")
        w.ArchiveFile.update(size_b=size).where(w.ArchiveFile.id == f.id).execute()
        f = w.ArchiveFile.get(id=f.id)
        w.mkcopy(src, f, "Y", "Y", size_b=size)
        facts, free = {}, {}
        rows = []
        for j in range(rng.randint(1, 3)):
            row = w.mknode(b, f"t{j}", gt, stype="T")
            mx = rng.choice([None, None, None, 1024, 2048])
            total = rng.choice([0, 1023, 1024, 2048])
            mn = rng.choice([0, 0, 1024])
            av = rng.choice([None, 1023, 1024, 4096, 8192])
            res = rng.choice([0, 0, 10, 200])
            bav = rng.choice([res + 2 * size, max(0, res + 2 * size - 1), res + 2 * size + 1, 10 ** 7])
            if total:
                o = w.mkfile(acq, f"old{j}", b"")
                w.ArchiveFile.update(size_b=total).where(w.ArchiveFile.id == o.id).execute()
                w.mkcopy(row, o, "Y", "Y", size_b=total)
            node = w.StorageNode.get(id=row.id)
            node.min_avail_gb, node.avail_gb, node.max_total_gb = mn / G, (None if av is None else av / G), (None if mx is None else mx / G)
            node.save()
            rows.append(row)
            facts[node.name] = {"max_total_bytes": mx, "total_bytes": total, "min_avail_bytes": mn, "avail_bytes": av, "reserved": res, "free_bytes": bav}
            free[str(pathlib.Path(node.root))] = bav
        queue = w.StepQueue.make()
        D._reserved_bytes.clear()
        unodes = [U.UpdateableNode(queue, w.StorageNode.get(id=r.id)) for r in rows]
        for un in unodes:
            D._reserved_bytes[un.name] = facts[un.name]["reserved"]
        gio = TR.TransportGroupIO(w.StorageGroup.get(id=gt.id), {}, queue)
        gio.set_nodes(unodes)
        req = w.mkreq(f, src, gt)
        orig = os.statvfs

        def statvfs(p, _free=free):
            for root, bv in _free.items():
                if str(p) == root or str(p).startswith(root + "/"):
                    return StatVfs(bv)
            return orig(p)

        os.statvfs = statvfs
        try:
            gio.pull_force(w.ArchiveFileCopyRequest.get(id=req.id))
        finally:
            os.statvfs = orig
        after = dict(D._reserved_bytes)
        D._reserved_bytes.clear()
        started = [nm for nm, fa in facts.items() if after.get(nm, 0) != fa["reserved"]]
        ctx.count("transport-gate")
        ctx.distinct_add(("tg", size, repr(sorted(facts.items()))))
        rp = {"family": "transport-gate", "size": size, "nodes": facts, "reserved_after": after, "queued": queue.qsize}
        if queue.qsize != len(started) or len(started) > 1:
            ctx.fail("C14:transport-reservation", f"{queue.qsize} pull task(s) queued, reservations changed on {started}", rp)
        for nm in started:
            ctx.count("transport-gate-started")
            fa = facts[nm]
            if after[nm] != fa["reserved"] + 2 * size:
                ctx.fail("C14:transport-reservation", f"node {nm}: reserved went {fa['reserved']} -> {after[nm]} for a transfer of {size} bytes", rp)
            if fa["avail_bytes"] is not None and fa["avail_bytes"] < fa["min_avail_bytes"]:
                ctx.fail("C14:gate-under-min", f"a transfer was started on transport node {nm} with {fa['avail_bytes']} bytes free, below its minimum of {fa['min_avail_bytes']}", rp)
            if fa["max_total_bytes"] is not None and fa["total_bytes"] >= fa["max_total_bytes"]:
                ctx.fail("C14:gate-at-limit", f"a transfer was started on transport node {nm} holding {fa['total_bytes']} bytes with a size limit of {fa['max_total_bytes']} bytes", rp)
            if 2 * size > fa["free_bytes"] - fa["reserved"]:
                ctx.fail("C14:gate-no-room", f"a transfer of {size} bytes was started on transport node {nm} with {fa['free_bytes']} bytes free and {fa['reserved']} reserved", rp)
        if k == 0:
            ctx.sample(rp)


def explore(ctx):
    base = ctx.tmp()
    nh = 40 if ctx.quick() else 800
    terms, logs = [], []
    for i in range(nh):
        evs, totals, log = run_history(ctx, ctx.rng, base, ctx.rng.randint(3, 14))
        ctx.count("history")
        if any(e.get("queued") for e in log):
            ctx.distinct_add(repr(evs))
        terms.append(ctup(clist(evs, "ev"), clist([cz(t) for t in totals], "Z")))
        logs.append(log)
        if i == 0:
            ctx.sample({"history": log[:8]})
    bad = core.run_cases(ctx, "history", "Corr.C14", "case", "check", terms, shard=200, extra_imports=("Model.Reserve",))
    for i in bad[:3]:
        ctx.broke("correspondence", f"reservation history: model and implementation differ: {logs[i]}")
    explore_concurrent(ctx, 40 if ctx.quick() else 1500)
    gq, gkeep = gate_quantities(ctx, ctx.rng, base, 250 if ctx.quick() else 5000)
    bad = core.run_cases(ctx, "gateq", "Corr.C14", "gcase", "gcheck", gq, shard=1000, extra_imports=("Model.Reserve",))
    for i in bad[:3]:
        ctx.broke("correspondence", f"pull gate on quantities: model and implementation differ: {gkeep[i]}")
    transport_gate(ctx, ctx.rng, base, 150 if ctx.quick() else 3000)
    rc = direct_calls(ctx, ctx.rng, base, 300 if ctx.quick() else 5000)
    bad = core.run_cases(ctx, "reserve", "Corr.C14", "rcase", "rcheck", rc, shard=1000, extra_imports=("Model.Reserve",))
    for i in bad[:3]:
        ctx.broke("correspondence", f"reserve_bytes: model and implementation differ: {rc[i]}")


# ---- concurrent calls under the deterministic scheduler -----------------------------------------------------------
def run_concurrent(programs, bavail, choose):
    """threads call the real reserve_bytes / release_bytes of one node; the module mutex is the scheduler's lock and the
    running-total dict yields at every read and write, so an update outside the critical section can be interleaved"""
    import alpenhorn.io.default as D
    from vf.harness import sched

    S = sched.Sched(choose, max_steps=20000)
    th, mono, slp = sched.fakes(S)

    class YDict(dict):
        def __getitem__(self, k):
            S.yield_()
            return dict.__getitem__(self, k)

        def __setitem__(self, k, v):
            S.yield_()
            dict.__setitem__(self, k, v)

    class N:
        name = "n"

    saved = (D._mutex, D._reserved_bytes)
    D._mutex, D._reserved_bytes = th.Lock(), YDict(n=0)
    try:
        io = object.__new__(D.DefaultNodeIO)
        io.node = N()
        io.bytes_avail = lambda fast=False: bavail
        log = []

        def make(t, prog):
            def f():
                held = []
                for op in prog:
                    if op[0] == "reserve":
                        ok = io.reserve_bytes(op[1])
                        log.append((t, "reserve", op[1], ok))
                        if ok:
                            held.append(op[1])
                    elif op[0] == "check":
                        log.append((t, "check", op[1], io.reserve_bytes(op[1], check_only=True)))
                    elif op[0] == "release" and held:
                        sz = held.pop(0)
                        log.append((t, "release-begin", sz, None))
                        try:
                            io.release_bytes(sz)
                            log.append((t, "release", sz, True))
                        except ValueError as e:
                            log.append((t, "release", sz, repr(e)))
                return held
            return f

        for t, prog in programs.items():
            S.spawn(t, make(t, prog))
        res, stuck = S.run()
        final = dict.__getitem__(D._reserved_bytes, "n")
        return log, res, stuck, final, S.trace, S.abort
    finally:
        D._mutex, D._reserved_bytes = saved


def explore_concurrent(ctx, cap):
    from vf.harness import sched

    rng = ctx.rng
    plans = [({"A": [("reserve", 10), ("release",)], "B": [("reserve", 7), ("release",)]}, None),
             ({"A": [("reserve", 10), ("release",)], "B": [("reserve", 10), ("release",)]}, 40),
             ({"A": [("reserve", 10), ("release",)], "B": [("reserve", 10), ("release",)]}, 30),
             ({"A": [("reserve", 5), ("reserve", 3), ("release",), ("release",)], "B": [("check", 4), ("reserve", 4), ("release",)]}, 100)]
    for _ in range(6):
        progs = {}
        for t in "ABC"[: rng.randint(2, 3)]:
            n = rng.randint(1, 2)
            progs[t] = [("reserve", rng.choice([1, 5, 10])) for _ in range(n)] + ([("check", 5)] if rng.random() < 0.3 else []) + [("release",)] * n
        plans.append((progs, rng.choice([None, 20, 30, 64])))
    for programs, bavail in plans:
        ex = sched.Explorer()
        n = 0
        while n < cap and not ex.done:
            if n % 2 == 0:
                r2 = __import__("random").Random(rng.getrandbits(32))
                choose = lambda k, r2=r2: r2.randrange(k)  # noqa: E731
                log, res, stuck, final, trace, aborted = run_concurrent(programs, bavail, choose)
            else:
                log, res, stuck, final, trace, aborted = run_concurrent(programs, bavail, ex.chooser())
                ex.advance(trace)
            n += 1
            ctx.count("concurrent")
            rp = {"family": "concurrent", "programs": {t: [list(o) for o in p] for t, p in programs.items()}, "bavail": bavail, "schedule": [c for c, _ in trace][:400], "log": [list(l) for l in log]}
            if any(c for c, _ in trace):
                ctx.distinct_add(("concurrent", repr(programs), bavail, tuple(c for c, _ in trace)))
            if stuck or aborted:
                ctx.fail("C14:concurrent-stuck", f"concurrent reserve/release: threads {stuck} never returned", rp)
                break
            errs = [l for l in log if l[1] == "release" and l[3] is not True] + [r for r in res.values() if r and r[0] == "exc"]
            if errs:
                ctx.fail("C14:concurrent-release-refused", f"a release of bytes that were reserved failed: {errs[:2]}", rp)
                break
            held = sum(sum(r[1]) for r in res.values() if r and r[0] == "ok")
            if final != 2 * held:
                ctx.fail("C14:concurrent-lost-update", f"after all threads returned the node's reserved total is {final}, the transfers still in flight hold {2 * held}", rp)
                break
            # never more than the free space promised at once: successes completed minus releases begun is a lower bound of what is held
            out = 0
            over = None
            for l in log:
                if l[1] == "reserve" and l[3]:
                    out += l[2]
                    if bavail is not None and 2 * out > bavail:
                        over = (out, l)
                elif l[1] == "release-begin":
                    out -= l[2]
            if over:
                ctx.fail("C14:concurrent-overcommit", f"reservations of {over[0]} bytes (x2) are held at once on a filesystem with {bavail} free: {over[1]}", rp)
                break


def search(ctx):
    explore_concurrent(ctx, 400)
    for i in range(600):
        run_history(ctx, ctx.rng, ctx.tmp(), ctx.rng.randint(3, 14))
        if ctx.failing:
            return


def replay(ctx, rp):
    print("histories are regenerated from the seed: VERIF_SEED=%s ./check C14; the failing history is in the replay file" % rp.get("seed"))
    print(rp["replay"].get("log"))
    return 2
