(* Correspondence for the item model (C05, C08, C09): crash states of one iteration and fault-free rounds, as observed on the real daemons *)
From Coq Require Import List NArith Bool Arith.
From Alp Require Import Base.Str Base.Types Model.Pull Model.Item.
Import ListNotations.
Local Open Scope nat_scope.
(* what can be seen from outside: some temporary artefact exists *)
(* (the daemon's memory of its idle updates cannot be seen either) *)
Definition norm (i : item) : item := set_due (set_stg (set_tmp i (tmp i || stg i)) false) false.
Definition obs_eqb (a b : item) : bool := item_eqb (norm a) (norm b).
Fixpoint dedup (l : list item) : list item :=
  match l with
  | a :: ((b :: _) as t) => if obs_eqb a b then dedup t else a :: dedup t
  | _ => l
  end.
Fixpoint subseq_b (a b : list item) : bool :=
  match a, b with
  | [], _ => true
  | _ :: _, [] => false
  | x :: a', y :: b' => if obs_eqb x y then subseq_b a' b' else subseq_b a b'
  end.
Inductive case :=
| CTrace (e : env) (b : beh) (i : item) (observed : list item)
| CRounds (e : env) (i : item) (observed : list item)          (* rounds of restarted daemons from the state a kill left behind *)
| CRoundsOn (e : env) (b : beh) (i : item) (observed : list item).   (* further rounds of the same daemons after an uninterrupted first iteration *)
Definition check (c : case) : bool :=
  match c with
  | CTrace e b i obs =>
      let i := set_due i true in
      let model o := dst_trace_o o e b i ++ [dst_round e b i] in
      (subseq_b (dedup obs) (dedup (model true)) || subseq_b (dedup obs) (dedup (model false))) && obs_eqb (last obs i) (dst_round e b i) && obs_eqb (hd i obs) i
  | CRounds e i obs => list_eqb obs_eqb obs (map (fun n => rounds n e (set_due i true)) (seq 1 (length obs)))
  | CRoundsOn e b i obs => list_eqb obs_eqb obs (map (fun n => rounds n e (dst_round e b (set_due i true))) (seq 1 (length obs)))
  end.
