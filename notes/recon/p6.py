"""C01: two hosts cleaning the same file on two archive nodes; interleave at the unlink."""
from common import *
import os
tmp, sdb = setup("h1")
gs = [StorageGroup.create(name=f"g{i}") for i in range(3)]
A = mknode(tmp,"A",gs[0],host="h1"); B = mknode(tmp,"B",gs[1],host="h2"); C = mknode(tmp,"C",gs[2],host="h3")
acq = ArchiveAcq.create(name="acq"); f = ArchiveFile.create(acq=acq,name="f",size_b=3,md5sum="0"*32)
for n in (A,B,C):
    (tmp/n.name/"acq").mkdir(); (tmp/n.name/"acq"/"f").write_bytes(b"abc")
    ArchiveFileCopy.create(file=f,node=n,has_file="Y",wants_file="Y" if n is C else "N")
from alpenhorn.daemon.update import UpdateableNode
from alpenhorn.scheduler import FairMultiFIFOQueue
qa, qb = FairMultiFIFOQueue(), FairMultiFIFOQueue()
config.config["base"]["hostname"]="h1"; ua = UpdateableNode(qa, StorageNode.get(name="A")); ua.update_delete()
config.config["base"]["hostname"]="h2"; ub = UpdateableNode(qb, StorageNode.get(name="B")); ub.update_delete()
ta,ka = qa.get(timeout=0.1); tb,kb = qb.get(timeout=0.1)
real_unlink = os.unlink
state = {"nested": False}
def unlink(path, *a, **k):
    if not state["nested"] and str(path).endswith("A/acq/f"):
        state["nested"] = True
        tb(); qb.task_done(kb)          # host h2 runs its whole delete between A's count and A's unlink
        n_other = (ArchiveFileCopy.select().join(StorageNode).where(ArchiveFileCopy.file==f, ArchiveFileCopy.has_file=="Y",
                   StorageNode.storage_type=="A", StorageNode.name!="A").count())
        print("at A's unlink instant: healthy archive copies recorded elsewhere =", n_other)
    return real_unlink(path, *a, **k)
os.unlink = unlink
ta(); qa.task_done(ka)
os.unlink = real_unlink
print([(c.node.name,c.has_file) for c in ArchiveFileCopy.select()], "files left:", [n for n in "ABC" if (tmp/n/"acq"/"f").exists()])
import shutil; shutil.rmtree(tmp)
