(* T1 for C03: guards of check_async and constants of _md5sum_file, translated from /repo today. *)
From Coq Require Import List NArith ZArith Bool Lia ZifyBool.
From Alp Require Import Base.Str Base.Types Model.Check.
From Run Require Gen_check.
Open Scope Z_scope.
Lemma tie_size_mismatch rs sz : Gen_check.g_size_mismatch rs sz = size_mismatch rs sz.
Proof. unfold Gen_check.g_size_mismatch, size_mismatch. destruct rs; cbn; reflexivity. Qed.
Lemma tie_digest_match a b : Gen_check.g_digest_match a b = digest_match a b.
Proof. reflexivity. Qed.
Lemma tie_block_size_pos : 0 < Gen_check.g_block_size.
Proof. unfold Gen_check.g_block_size. lia. Qed.
Lemma tie_blocks_per_chunk_pos : 0 < Gen_check.g_blocks_per_chunk.
Proof. unfold Gen_check.g_blocks_per_chunk. lia. Qed.
Lemma tie_chunk_full c bpc : Gen_check.g_chunk_full c bpc = (bpc <=? c).
Proof. reflexivity. Qed.
