"""C02 — transfers: dispatch, search, routing, completion, failure clean-up, on real files and scripted transports."""
import ast
import hashlib
import os
import pathlib

from vf import core
from vf.core import cbool, copt, ctup
from vf.translate import core as T
from vf.harness import daemon, monitors
from vf.harness import world as w

TRUSTED = [
    "Coq 8.16.1 kernel + VM; no native_compute",
    "translator vf/translate for the guards of update_pull, group_search_async, pull_async and copy_request_done, and the exact sequence of their tests",
    "transport contract (hypothesis, not verified): rsync / bbcp / link exiting 0 have made the destination bytes equal the source bytes, and bbcp's digest is the source's; "
    "alpenhorn does not re-hash after these, so for them byte-faithfulness is the tool's; the internal copy is re-hashed",
    "the daemon simulation and the stand-in rsync/bbcp (vf/harness/tools); the harness predicts the transport and its outcome from the scenario, the model predicts everything else",
]
RULE = ("the product transport (hard link, rsync stand-in, real rsync, bbcp stand-in, internal copy, none; local and remote; route known or not) x tool outcome (ok, non-zero exit, mkstemp / write-failed, "
        "wrong digest, garbled output, source missing) x destination pre-state (absent, unregistered file, recorded N/M/X/Y with or without file) x source state x file (empty, 1 byte, nested name, wrong registered digest); "
        "one pass of the real destination daemon per case; non-trivial = a pull task ran; distinct by scenario")

HAS = {"Y": "HY", "M": "HM", "X": "HX", "N": "HN"}


LOCAL_CORRUPT = "ArchiveFileCopy.select().where(ArchiveFileCopy.file == req.file, ArchiveFileCopy.node << [node.db for node in self._nodes], ArchiveFileCopy.has_file == 'X').exists()"


def gen(ctx):
    upd = T.parse(core.REPO / "alpenhorn/daemon/update.py")
    asy = T.parse(core.REPO / "alpenhorn/io/_default_asyncs.py")
    iou = T.parse(core.REPO / "alpenhorn/io/ioutil.py")
    expect = {
        (upd, "UpdateableGroup.update_pull"): ["copy_state == 'Y'", "copy_state == 'M'", "copy_state == 'X'", "copy_state == 'N'", "not req.node_from.active", "state == 'N' or state == 'X'",
                                                "state == 'M'", "not node_from.io.pull_ready(req.file)", "copy_state == 'X' and " + LOCAL_CORRUPT],
        (asy, "group_search_async"): ["state == 'Y' or state == 'M'", "node is not None"],
        (asy, "pull_async"): ["io.node.filecopy_state(req.file) == 'Y'", "local", "not to_dir.exists()", "not to_file.exists()", "not local", "shutil.which('bbcp') is not None",
                              "shutil.which('rsync') is not None", "req.node_from.archive == io.node.archive", "ioresult is not None", "ioresult is None", "shutil.which('rsync') is not None",
                              "not ioutil.copy_request_done(req, io, check_src=ioresult.get('check_src', True), md5ok=ioresult.get('md5sum', None), start_time=start_time, stderr=ioresult.get('stderr', None), success=ioresult['ret'] == 0)",
                              "new_avail is not None"],
        (iou, "copy_request_done"): ["not success", "stderr is None", "check_src", "isinstance(md5ok, str)", "not md5ok"],
    }
    for (tree, q), want in expect.items():
        got = [ast.unparse(x.test) for x in T.if_tests(T.find_func(tree, q))]
        if got != want:
            raise T.Untranslatable(f"UNTRANSLATABLE: the tests of {q} changed: {got}")
    atoms = {"req.node_from.active": ("src_active", "bool"), "node_from.io.pull_ready(req.file)": ("src_ready", "bool"), "io.node.filecopy_state(req.file)": ("node_state", "has"),
             "req.node_from.archive": ("src_archive", "bool"), "io.node.archive": ("dst_archive", "bool"), LOCAL_CORRUPT: ("local_corrupt", "bool")}
    env = {"copy_state": "has", "state": "has", "success": "bool", "check_src": "bool", "md5ok": "bool"}
    q = "UpdateableGroup.update_pull"
    d = [
        T.nth_test(upd, q, 0, env, "g_up_dst_y"), T.nth_test(upd, q, 1, env, "g_up_dst_m"), T.nth_test(upd, q, 2, env, "g_up_dst_x"), T.nth_test(upd, q, 3, env, "g_up_dst_n"),
        T.nth_test(upd, q, 4, env, "g_up_src_inactive", atoms=atoms), T.nth_test(upd, q, 5, env, "g_up_src_gone"), T.nth_test(upd, q, 6, env, "g_up_src_m"),
        T.nth_test(upd, q, 7, env, "g_up_not_ready", atoms=atoms), T.nth_test(upd, q, 8, env, "g_up_force", ["copy_state", "local_corrupt"], atoms=atoms),
        T.nth_test(asy, "group_search_async", 0, env, "g_gs_in_group"),
        T.nth_test(asy, "pull_async", 0, env, "g_pa_present", atoms=atoms),
        T.nth_test(asy, "pull_async", 7, env, "g_pa_same_arch", ["src_archive", "dst_archive"], atoms=atoms),
        T.nth_test(iou, "copy_request_done", 0, env, "g_done_failed"), T.nth_test(iou, "copy_request_done", 2, env, "g_done_flag_source"), T.nth_test(iou, "copy_request_done", 4, env, "g_done_mismatch"),
    ]
    # the statements whose order the properties rest on
    crd = ast.unparse(T.find_func(iou, "copy_request_done"))
    for needle in ["md5ok = md5ok == req.file.md5sum", "with db.database_proxy.atomic():", "ArchiveFileCopyRequest.update(completed=True", "post_add(io.node, req.file)"]:
        if needle not in crd:
            raise T.Untranslatable(f"UNTRANSLATABLE: copy_request_done lost the statement {needle}")
    blk = crd[crd.index("with db.database_proxy.atomic():"):]
    order = [blk.find(s) for s in ("ArchiveFileCopy.insert(", "ArchiveFileCopyRequest.update(completed=True", "post_add(io.node, req.file)")]
    if -1 in order or order != sorted(order):
        raise T.Untranslatable("UNTRANSLATABLE: copy_request_done no longer records the copy, completes the request and then fires the rules in this order")
    pa = ast.unparse(T.find_func(asy, "pull_async"))
    if "to_file.unlink(missing_ok=True)" not in pa or "ArchiveFileCopyRequest.update(cancelled=1)" not in pa:
        raise T.Untranslatable("UNTRANSLATABLE: pull_async lost its failure clean-up or its cancellation")
    return {"Gen_pull": T.HEADER + "\n".join(d) + "\n"}


def proofs(ctx):
    try:
        files = gen(ctx)
    except T.Untranslatable as e:
        ctx.broke("translator", "pull chain", str(e))
        files = None
    if files:
        core.check_tie(ctx, files, ["Tie_C02"])
    core.check_property_file(ctx, "C02.v")


# ---- scenarios -----------------------------------------------------------------------------------------------------
PRE = ["absent", "stray", "rec_X", "rec_X_absent", "rec_M", "rec_Y", "rec_N_file", "rec_N_absent"]
SRC = ["ok", "ok", "ok", "file_missing", "M", "X", "N", "inactive", "none"]
TOOLS = [("both", {}), ("rsync", {}), ("bbcp", {}), ("none", {}), ("real", {}), ("both", {"rsync": "fail"}), ("both", {"bbcp": "fail"}), ("rsync", {"rsync": "mkstemp"}),
         ("rsync", {"rsync": "write_failed"}), ("both", {"bbcp": "wrong_md5"}), ("both", {"bbcp": "garbled"}), ("bbcp", {"bbcp": "wrong_md5"}), ("rsync", {"rsync": "hang"}), ("bbcp", {"bbcp": "hang"}),
         # the daemon's own internal copy (no transport tool) whose output is silently short or altered: its verification of what it wrote must catch it
         ("none", {"internal": "short"}), ("none", {"internal": "altered"})]


def gen_scenario(rng):
    return {"local": rng.random() < 0.6, "route_known": rng.random() < 0.8, "src_type": rng.choice("AF"), "dst_type": rng.choice("AF"), "tools": rng.choice(TOOLS),
            "pre": rng.choice(PRE), "src": rng.choice(SRC), "name": rng.choice(["f", "sub/f", "a/b/f"]), "size": rng.choice([0, 1, 150]), "bad_md5": rng.random() < 0.15,
            # other nodes of the destination group (on a host that is not running) and their copy records; the destination's own record may be released
            "others": rng.choice([[], [], [], ["X"], ["N"], ["X", "X"], ["M"], ["X", "N"]]), "others_first": rng.random() < 0.5, "dst_wants": rng.choice("YYYN")}


def run_scenario(ctx, base, sc):
    content = w.content_of(5, sc["size"])
    src_has = {"ok": "Y", "file_missing": "Y", "M": "M", "X": "X", "N": "N", "inactive": "Y", "none": None}[sc["src"]]
    spec = {"groups": [{"name": "gs"}, {"name": "gd"}],
            "nodes": [{"name": "s", "group": "gs", "stype": sc["src_type"], "host": "h1", "active": sc["src"] != "inactive",
                       "username": "u" if sc["route_known"] else None, "address": "h1.example" if sc["route_known"] else None},
                      {"name": "d", "group": "gd", "stype": sc["dst_type"], "host": "h1" if sc["local"] else "h2"}],
            "acqs": ["acq"], "files": [{"acq": "acq", "name": sc["name"], "size": sc["size"], "tag": 5, **({"reg_md5": "0" * 31 + "1"} if sc["bad_md5"] else {})}],
            "copies": [], "reqs": [{"file": 0, "from": "s", "to": "gd"}]}
    if src_has is not None:
        spec["copies"].append({"file": 0, "node": "s", "has": src_has, "wants": "Y", "disk": "absent" if sc["src"] in ("file_missing", "N") else "ok"})
    others, dst_wants = sc.get("others", []), sc.get("dst_wants", "Y")
    for j, st in enumerate(others):
        spec["nodes"].append({"name": f"o{j}", "group": "gd", "stype": "A", "host": "h3"})
    ocopies = [{"file": 0, "node": f"o{j}", "has": st, "wants": "Y", "disk": "absent"} for j, st in enumerate(others)]
    if sc.get("others_first"):
        spec["copies"] += ocopies
    pre = sc["pre"]
    if pre == "stray":
        spec["unregistered"] = [{"node": "d", "path": f"acq/{sc['name']}", "tag": 77, "size": 4}]
    elif pre.startswith("rec_"):
        st = pre.split("_")[1]
        disk = "absent" if pre.endswith("absent") else ("corrupt" if st in ("X", "M") else "ok")
        if pre == "rec_N_file":
            disk = "ok"
        spec["copies"].append({"file": 0, "node": "d", "has": st, "wants": dst_wants, "disk": disk})
    if not sc.get("others_first"):
        spec["copies"] += ocopies
    sim = daemon.Sim(base, spec)
    sim.set_tools(sc["tools"][0], **sc["tools"][1])
    if "hang" in sc["tools"][1].values():
        w.config.config["daemon"]["pull_timeout_base"] = 0.25  # the transport is killed after a quarter of a second
    rp = {"family": "transfer", "scenario": sc}
    mon = monitors.Monitors(sim, ctx, rp)
    try:
        src_node, dst_node = sim.nodes["s"], sim.nodes["d"]
        f = sim.files[0][0]
        rel = f"acq/{sc['name']}"
        dst_path = pathlib.Path(dst_node.root, rel)
        src_path = pathlib.Path(src_node.root, rel)
        fod = dst_path.is_file()
        if fod and src_path.is_file():
            # the worst case for a transport that compares before it copies: the file at the destination is as old as the source
            # (an earlier transfer preserved the time stamp), whatever the clock did while the world was built
            st_ = os.stat(src_path)
            os.utime(dst_path, ns=(st_.st_atime_ns, st_.st_mtime_ns))
        pre_bytes = dst_path.read_bytes() if fod else None
        nrow = w.ArchiveFileCopy.get_or_none(file=f, node=dst_node)
        nrow = nrow.has_file if nrow else None
        # the group's state: healthy beats suspect beats corrupt beats absent, whatever the order of the records
        allst = [nrow or "N"] + list(others)
        gs = next((x for x in "YMX" if x in allst), "N")
        released = nrow is not None and dst_wants == "N"
        src_exists = src_path.is_file()
        pre_disk = {"d": pre_bytes, "s": src_path.read_bytes() if src_exists else None}
        imode = sc["tools"][1].get("internal")
        import shutil as _sh
        orig_copy2 = _sh.copy2
        if imode:
            def bad_copy2(src_, dst_, *a, **k):
                out_ = orig_copy2(src_, dst_, *a, **k)
                data_ = pathlib.Path(out_).read_bytes()
                new_ = data_[: len(data_) // 2] if imode == "short" else (data_[:-1] + bytes([data_[-1] ^ 1]) if data_ else b"")
                daemon._real["builtins.open"](out_, "wb").write(new_)
                return out_
            _sh.copy2 = bad_copy2
        try:
            res = sim.iterate(dst_node.host)
        finally:
            _sh.copy2 = orig_copy2
        if res["error"]:
            ctx.fail("C02:daemon-died", f"destination daemon died: {res['error'][:300]}", rp)
        req = w.ArchiveFileCopyRequest.get(id=1)
        dcopy = w.ArchiveFileCopy.get_or_none(file=f, node=dst_node)
        scopy = w.ArchiveFileCopy.get_or_none(file=f, node=src_node)
        dfile = dst_path.is_file()
        ran = any("AFCR#" in (e.get("task") or "") for e in res["effects"]) or any(e["op"] in ("link", "open-w") and ".placeholder" in e["paths"][-1] for e in res["effects"])
        left = [p for p in w.tree_listing(pathlib.Path(dst_node.root)) if ".placeholder" in p[0] or ".alpentemp" in p[0] or ".Xstand" in p[0]]
        # ---- monitor: the property on this transfer ----
        if req.completed:
            if dcopy is None or dcopy.has_file != "Y":
                ctx.fail("C02:completed-without-healthy-copy", f"request completed, destination copy is {dcopy and dcopy.has_file}", rp)
            if not dfile or (src_exists and dst_path.read_bytes() != src_path.read_bytes()):
                ctx.fail("C02:completed-not-byte-identical", "request completed but the destination file is absent or differs from the source", rp)
            if hashlib.md5(dst_path.read_bytes()).hexdigest() != f.md5sum and sc["tools"][0] in ("bbcp", "none") and not sc["local"]:
                ctx.fail("C02:completed-digest-mismatch", "request completed although the transport's digest cannot equal the registered one", rp)
            if req.transfer_started is None or req.transfer_completed is None or req.transfer_started > req.transfer_completed:
                ctx.fail("C02:timestamps", "completed request without ordered transfer timestamps", rp)
        else:
            newly_y = dcopy is not None and dcopy.has_file == "Y" and nrow != "Y"
            if newly_y:
                ctx.fail("C02:healthy-copy-without-completion", "a healthy destination copy was recorded but the request is not completed", rp)
            if ran and dfile and not req.cancelled:
                ctx.fail("C02:partial-file-left", f"the pull failed but a file remains at the destination path ({len(dst_path.read_bytes())} bytes)", rp)
        if fod and dfile and pre_bytes != dst_path.read_bytes() and nrow != "X":
            ctx.fail("C02:blind-overwrite", f"an existing destination file (recorded state {nrow}) was overwritten without having been verified corrupt", rp)
        if left:
            ctx.fail("C02:artefacts-left", f"placeholder / temporary artefacts left at the destination: {left}", rp)
        # ---- facts for the model ----
        local = sc["local"]
        same = sc["src_type"] == sc["dst_type"] if False else ((sc["src_type"] == "A") == (sc["dst_type"] == "A"))
        which, modes = sc["tools"]
        has_bbcp = which in ("both", "bbcp")
        has_rsync = which in ("both", "rsync", "real")
        true_md5_ok = not sc["bad_md5"]
        # route as the code will take it, to predict the transport's answer
        hw = src_exists
        if local:
            t = "hardlink" if (same and hw) else ("rsync" if has_rsync else "internal")
        elif not sc["route_known"]:
            t = "noroute"
        else:
            t = "bbcp" if has_bbcp else ("rsync" if has_rsync else "notool")
        if t == "hardlink":
            out = "(TOk MTrusted)"
        elif t == "rsync":
            m = modes.get("rsync", "ok") if which != "real" else "ok"
            if which == "real" and not local:
                out = "(TFailed true)"  # the system's rsync would need ssh to the source host: it exits non-zero
            elif m == "ok":
                out = "(TOk MTrusted)" if src_exists else "(TFailed true)"
            elif m in ("fail", "hang"):
                out = "(TFailed true)"  # a time-out is a failure that may be the source's fault
            else:
                out = "(TFailed false)"
        elif t == "bbcp":
            m = modes.get("bbcp", "ok")
            if m in ("fail", "hang") or not src_exists:
                out = "(TFailed true)"
            elif m == "garbled":
                out = "(TFailed false)"
            elif m == "wrong_md5":
                out = f"(TOk (MDigest {cbool(f.md5sum == '0' * 32)}))"
            else:
                out = f"(TOk (MDigest {cbool(true_md5_ok)}))"
        elif t == "internal":
            spoiled = bool(modes.get("internal")) and sc["size"] > 0 and not (modes.get("internal") == "short" and sc["size"] == 1 and False)
            out = f"(TOk (MDigest {cbool(true_md5_ok and not spoiled)}))" if src_exists else "(TFailed true)"
        else:
            out = "(TFailed false)"
        # the monitor on the source: a pull that ran and failed in a way the source may be responsible for flags it for
        # re-verification; any other outcome leaves the source record alone
        if ran and not req.completed and not req.cancelled and src_has == "Y":
            blame = out in ("(TFailed true)", "(TOk (MDigest false))", "(TOk MMissing)")
            now = scopy.has_file if scopy else None
            if blame and now != "M":
                ctx.fail("C02:source-not-flagged", f"the pull via {t} failed ({out}) but the source copy is recorded {now!r}, not suspect: it would be retried from the same source for ever", rp)
            if not blame and now != "Y":
                ctx.fail("C02:source-flagged-wrongly", f"the pull via {t} failed for a reason on the destination side ({out}) but the source copy went from 'Y' to {now!r}", rp)
        sa = sc["src"] != "inactive"
        ss = src_has or "N"
        # copies that were suspect before the pass are verified by the check task of the same pass (if their node is
        # local to the iterating daemon, active and the verdict follows the bytes on disk)
        def verdict(path, present):
            if not present:
                return "N"
            return "Y" if (hashlib.md5(content).hexdigest() == f.md5sum and content == pre_disk[path]) else "X"
        dchk = HAS[verdict("d", fod)] if (nrow == "M" and not released) else None
        schk = HAS[verdict("s", src_exists)] if (ss == "M" and sc["local"] and sa) else None
        term = ctup(HAS[gs], cbool(sa), HAS[ss], cbool(fod), copt(nrow and HAS[nrow], lambda x: x, "has"),
                    ctup(cbool(local), cbool(sc["route_known"]), cbool(same and hw), cbool(has_bbcp), cbool(has_rsync)), out,
                    ctup(copt(dchk, lambda x: x, "has"), copt(schk, lambda x: x, "has")),
                    ctup(cbool(bool(req.completed)), cbool(bool(req.cancelled)), copt(dcopy and HAS[dcopy.has_file], lambda x: x, "has"), cbool(dfile), HAS[scopy.has_file if scopy else "N"]))
        return term, bool(req.completed), t
    finally:
        sim.shutdown()


def fault_sweep(ctx, base, sc):
    """the same transfer with a database error injected at its k-th statement, for every k: completion and the healthy destination
    record are one index transaction, so whatever the fault leaves, a completed request has its healthy copy (and vice versa)"""
    content = w.content_of(5, sc["size"])
    spec = {"groups": [{"name": "gs"}, {"name": "gd"}],
            "nodes": [{"name": "s", "group": "gs", "stype": sc["src_type"], "host": "h1", "active": True, "username": "u", "address": "h1.example"},
                      {"name": "d", "group": "gd", "stype": sc["dst_type"], "host": "h1" if sc["local"] else "h2"}],
            "acqs": ["acq"], "files": [{"acq": "acq", "name": sc["name"], "size": sc["size"], "tag": 5}],
            "copies": [{"file": 0, "node": "s", "has": "Y", "wants": "Y"}] + ([{"file": 0, "node": "d", "has": "X", "wants": "Y", "disk": "corrupt"}] if sc["pre"] == "rec_X" else []),
            "reqs": [{"file": 0, "from": "s", "to": "gd"}]}
    host = "h1" if sc["local"] else "h2"
    n = None
    k = 0
    while n is None or k <= n:
        sim = daemon.Sim(base, spec)
        sim.set_tools(*[sc["tools"][0]], **sc["tools"][1])
        try:
            res = sim.iterate(host, sql_fault_at=(k or None))
            if n is None:
                n = len(res["sql"])
                if not w.ArchiveFileCopyRequest.get(id=1).completed:
                    return 0
            req = w.ArchiveFileCopyRequest.get(id=1)
            dcopy = w.ArchiveFileCopy.get_or_none(file=sim.files[0][0], node=sim.nodes["d"])
            healthy = dcopy is not None and dcopy.has_file == "Y"
            ctx.count("transfer-db-fault")
            rp = {"family": "transfer-db-fault", "scenario": sc, "fault_at_statement": k, "statements": n}
            if bool(req.completed) != healthy:
                ctx.fail("C02:completion-and-copy-not-one-transaction", f"database error at statement {k} of {n} of the transfer: request completed={bool(req.completed)}, destination copy {dcopy and dcopy.has_file}", rp)
            if res["error"] and res["error"] != "crash" and "OperationalError" not in res["error"]:
                ctx.fail("C02:daemon-died", f"database error at statement {k}: the daemon died: {res['error'][:200]}", rp)
        finally:
            sim.shutdown()
        k += 1
    return n


def explore(ctx, n=None):
    base = ctx.tmp() / "sim"
    n = n or (260 if ctx.quick() else 6000)
    terms, keep, completed, routes = [], [], 0, {}
    corpus = [
        {"local": True, "route_known": True, "src_type": "F", "dst_type": "F", "tools": ("none", {}), "pre": "absent", "src": "ok", "name": "sub/f", "size": 150, "bad_md5": False},  # F-C02a
        {"local": True, "route_known": True, "src_type": "F", "dst_type": "A", "tools": ("none", {}), "pre": "absent", "src": "ok", "name": "a/b/f", "size": 1, "bad_md5": False},
        {"local": True, "route_known": True, "src_type": "A", "dst_type": "A", "tools": ("both", {}), "pre": "stray", "src": "ok", "name": "f", "size": 150, "bad_md5": False},
        {"local": False, "route_known": True, "src_type": "A", "dst_type": "A", "tools": ("both", {"bbcp": "wrong_md5"}), "pre": "rec_X", "src": "ok", "name": "f", "size": 150, "bad_md5": False},
        # a transport that is killed by the pull time-out, over a destination recorded corrupt
        {"local": False, "route_known": True, "src_type": "F", "dst_type": "A", "tools": ("rsync", {"rsync": "hang"}), "pre": "rec_X", "src": "ok", "name": "f", "size": 150, "bad_md5": False},
        {"local": True, "route_known": True, "src_type": "F", "dst_type": "A", "tools": ("rsync", {"rsync": "hang"}), "pre": "absent", "src": "ok", "name": "f", "size": 150, "bad_md5": False},
        {"local": False, "route_known": True, "src_type": "F", "dst_type": "A", "tools": ("bbcp", {"bbcp": "hang"}), "pre": "rec_X", "src": "ok", "name": "f", "size": 1, "bad_md5": False},
    ]
    # F-C02b: the system's rsync over a corrupt file of the same length and age as the source (its quick check would skip it)
    corpus += [{"local": True, "route_known": True, "src_type": st, "dst_type": dt, "tools": ("real", {}), "pre": "rec_X", "src": "ok", "name": nm, "size": sz, "bad_md5": False}
               for st, dt in (("A", "F"), ("F", "A")) for nm, sz in (("f", 150), ("sub/f", 1))]
    # F-C02c: a corrupt copy on ANOTHER node of the destination group, an unregistered file at the destination path on ours
    corpus += [{"local": lc, "route_known": True, "src_type": "A", "dst_type": "A", "tools": ("both", {}), "pre": "stray", "src": "ok", "name": nm, "size": 150, "bad_md5": False,
                "others": oth, "others_first": of, "dst_wants": "Y"} for lc in (True, False) for nm in ("f", "sub/f") for oth, of in ((["X"], False), (["X"], True), (["X", "N"], True))]
    # a released suspect copy on our node (never verified: checks skip released copies) next to a corrupt copy elsewhere in the group
    corpus += [{"local": True, "route_known": True, "src_type": "A", "dst_type": "A", "tools": ("both", {}), "pre": "rec_M", "src": "ok", "name": "f", "size": 150, "bad_md5": False,
                "others": ["X"], "others_first": of, "dst_wants": "N"} for of in (False, True)]
    corpus += [{"local": True, "route_known": True, "src_type": st, "dst_type": "A", "tools": ("none", {"internal": m}), "pre": pre, "src": "ok", "name": nm, "size": 150, "bad_md5": False}
               for st in ("F", "A") for m in ("short", "altered") for pre, nm in (("absent", "f"), ("rec_X", "sub/f"))]
    for c in corpus:
        c.setdefault("others", [])
        c.setdefault("others_first", False)
        c.setdefault("dst_wants", "Y")
    for k in range(n + len(corpus)):
        sc = corpus[k] if k < len(corpus) else gen_scenario(ctx.rng)
        term, done, t = run_scenario(ctx, base, sc)
        ctx.count("transfer")
        routes[t] = routes.get(t, 0) + 1
        completed += done
        ctx.distinct_add(repr(sorted(sc.items())))
        terms.append(term)
        keep.append(sc)
        if k in (0, len(corpus)):
            ctx.sample({"scenario": sc, "completed": done, "route": t})
    for sc in ({"local": True, "src_type": "A", "dst_type": "A", "tools": ("both", {}), "pre": "absent", "name": "f", "size": 150},
               {"local": False, "src_type": "F", "dst_type": "A", "tools": ("rsync", {}), "pre": "rec_X", "name": "sub/f", "size": 150},
               {"local": False, "src_type": "F", "dst_type": "A", "tools": ("bbcp", {}), "pre": "absent", "name": "f", "size": 1}):
        if fault_sweep(ctx, base, sc) == 0:
            ctx.broke("harness", "fault sweep", f"the fault-free transfer of {sc} did not complete")
    ctx.cov["routes"] = routes
    ctx.cov["requests_completed"] = completed
    bad = core.run_cases(ctx, "transfer", "Corr.C02", "case", "check", terms, shard=300, extra_imports=("Model.Pull",))
    for i in bad[:3]:
        ctx.broke("correspondence", f"transfer: model and implementation differ on scenario {keep[i]}: {terms[i][-120:]}")


def search(ctx):
    explore(ctx, 1500)


def replay(ctx, rp):
    sc = rp["replay"]["scenario"]
    sc["tools"] = (sc["tools"][0], sc["tools"][1])
    term, done, t = run_scenario(ctx, ctx.tmp() / "sim", sc)
    print("route", t, "completed", done, term[-200:])
    for f in ctx.failing:
        print(f["signature"], f["what"])
    return 1 if ctx.failing else 0
