"""KF-C19: sustained insertion ahead of the cursor starves a copy that exists throughout."""
from common import *
import shutil, math
from alpenhorn.daemon.querywalker import QueryWalker
tmp, sdb = setup("h1")
g = StorageGroup.create(name="g"); n = mknode(tmp, "n", g)
acq = ArchiveAcq.create(name="acq")
def add(i):
    f = ArchiveFile.create(acq=acq, name=f"f{i}", size_b=1, md5sum="0"*32)
    return ArchiveFileCopy.create(file=f, node=n, has_file="Y", wants_file="Y")
copies = [add(i) for i in range(6)]; x = copies[0]                      # x has the lowest id
qw = QueryWalker(ArchiveFileCopy, ArchiveFileCopy.node == n, ArchiveFileCopy.has_file != "N")
qw._id = copies[1].id                                                     # cursor just past x
k = 2; N0 = 6; calls = 0; nxt = 6; seen = False
for calls in range(1, 40):
    got = qw.get(k)
    if any(c.id == x.id for c in got): seen = True; break
    # between calls: two new copies arrive (fresh maximal ids) and two already-visited ones are removed
    for _ in range(2): add(nxt); nxt += 1
    for c in got:
        ArchiveFileCopy.update(has_file="N").where(ArchiveFileCopy.id == c.id).execute()
    live = ArchiveFileCopy.select().where(ArchiveFileCopy.node == n, ArchiveFileCopy.has_file != "N").count()
print(f"table size stays {live}, k={k}, bound ceil(N/k)+1 = {math.ceil(N0/k)+1}; x selected: {seen} after {calls} calls")
shutil.rmtree(tmp)
