(* C15: the candidate loop of UpdateableNode.update_delete (daemon/update.py). *)
From Coq Require Import List NArith ZArith Bool.
From Alp Require Import Base.Str Base.Types.
Import ListNotations.
Open Scope Z_scope.

(* one copy row of the node, with what the loop reads: sizes on the copy / on the file, and whether an
   uncompleted, uncancelled request names (file, this node) as its source *)
Record cand := { k_id : N; k_has : has; k_wants : wants; k_csize : option Z; k_fsize : option Z; k_pending : bool }.

(* guards, as in the code (tie T1 proves the translated guards equal to these) *)
Definition under_min (avail : option Z) (min : Z) : bool :=        (* GiB in 1024ths *)
  match avail with None => false | Some a => a <? min end.
Definition discretionary (under_min archive : bool) : bool := under_min && negb archive.
Definition skip_removable (w : wants) (need : Z) : bool := wants_eqb w WM && (need <=? 0).
Definition df_discretionary (w : wants) : bool := negb (wants_eqb w WY).
Definition df_released (w : wants) : bool := wants_eqb w WN.
Definition batch_full (len : Z) : bool := 10 <=? len.

Definition eligible (disc : bool) (c : cand) : bool :=
  (if disc then df_discretionary (k_wants c) else df_released (k_wants c)) && negb (has_eqb (k_has c) HN).

Definition credit (c : cand) : Z :=
  if optZ_truthy (k_csize c) then match k_csize c with Some z => z | None => 0 end
  else if optZ_truthy (k_fsize c) then match k_fsize c with Some z => z | None => 0 end else 0.

(* for copy in query.order_by(id): ...  — the copies handed to io.delete, in order *)
Fixpoint select (need : Z) (cs : list cand) : list cand :=
  match cs with
  | [] => []
  | c :: cs' =>
      if skip_removable (k_wants c) need then select need cs'
      else if k_pending c then select need cs'
      else c :: select (if 0 <? need then need - credit c else need) cs'
  end.

(* groups of ten, the partial group last (never an empty call) *)
Fixpoint batches_aux (cur : list cand) (cs : list cand) : list (list cand) :=
  match cs with
  | [] => match cur with [] => [] | _ => [rev cur] end
  | c :: cs' => if batch_full (Z.of_nat (length cur)) then rev cur :: batches_aux [c] cs' else batches_aux (c :: cur) cs'
  end.

(* shortfall in bytes: int((min - avail) * 2**30), GiB given in 1024ths (exact in binary floating point) *)
Definition shortfall (avail : option Z) (min : Z) : Z :=
  match avail with None => 0 | Some a => (min - a) * 1048576 end.

Definition selection (archive : bool) (avail : option Z) (min : Z) (cs : list cand) : list cand :=
  let disc := discretionary (under_min avail min) archive in
  select (if disc then shortfall avail min else 0) (filter (eligible disc) cs).

Definition update_delete (archive : bool) (avail : option Z) (min : Z) (cs : list cand) : list (list N) :=
  map (map k_id) (batches_aux [] (selection archive avail min cs)).
