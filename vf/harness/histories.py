"""Random multi-host worlds and operator / fault / iteration histories for the daemon simulation."""
from __future__ import annotations

import os
import re
import pathlib

from vf.harness import cliworld as cw
from vf.harness import daemon, monitors
from vf.harness import world as w

HOSTS = ["h1", "h2"]


def gen_spec(rng, rich=True):
    ngroups = rng.randint(2, 3)
    groups = [{"name": f"g{i}"} for i in range(1, ngroups + 1)]
    nodes = []
    k = 0
    for g in groups:
        for _ in range(1 if rng.random() < 0.8 else 2):
            k += 1
            nodes.append({"name": f"n{k}", "group": g["name"], "stype": rng.choice("AAAFFT"), "host": rng.choice(HOSTS), "active": rng.random() < 0.9,
                          "username": "u", "address": "addr"})
    if rng.random() < 0.15:
        nodes[-1]["marker"] = rng.choice([None, "someone-else"])
    if rng.random() < 0.25:
        rng.choice(nodes)["min_avail_gb"] = 10 ** 7  # always under min
    if rng.random() < 0.1:
        rng.choice(nodes)["max_total_gb"] = 1e-12
    if rng.random() < 0.2:
        rng.choice(nodes)["root_suffix"] = rng.choice(["/", "//", "/."])
    acqs = ["acq1", "acq2"][: rng.randint(1, 2)]
    files = []
    for i in range(rng.randint(2, 5)):
        files.append({"acq": rng.choice(acqs), "name": rng.choice([f"f{i}", f"sub/f{i}", f"f{i}.dat"]), "size": rng.choice([0, 1, 13, 150])})
    copies = []
    for fi in range(len(files)):
        for n in nodes:
            r = rng.random()
            if r < 0.45:
                copies.append({"file": fi, "node": n["name"], "has": "Y", "wants": rng.choice("YYYMN")})
            elif r < 0.55:
                copies.append({"file": fi, "node": n["name"], "has": rng.choice("MX"), "wants": rng.choice("YYN"), "disk": rng.choice(["ok", "corrupt", "absent", "truncated"])})
            elif r < 0.6:
                copies.append({"file": fi, "node": n["name"], "has": "N", "wants": rng.choice("YN"), "disk": rng.choice(["absent", "absent", "ok"])})
    reqs = []
    for _ in range(rng.randint(0, 4)):
        reqs.append({"file": rng.randrange(len(files)), "from": rng.choice(nodes)["name"], "to": rng.choice(groups)["name"], "state": rng.choice(["pending", "pending", "pending", "completed", "cancelled"])})
    rules, seen = [], set()
    for _ in range(rng.randint(0, 3)):
        a, b = rng.choice(nodes)["name"], rng.choice(groups)["name"]
        if (a, b) not in seen:
            seen.add((a, b))
            rules.append({"from": a, "to": b, "sync": rng.random() < 0.6, "clean": rng.random() < 0.4})
    unreg, ireqs = [], []
    for j in range(rng.randint(0, 3)):
        n = rng.choice(nodes)["name"]
        kind = rng.choice(["file", "file", "file", "dot", "lock", "temp", "symlink", "symdir", "placeholder", "deep"])
        acq = rng.choice(acqs)
        if kind in ("dot", "lock", "placeholder") and rng.random() < 0.5:
            acq = acq + "/" + rng.choice(["raw", "d/e"])  # the same artefacts inside a sub-directory of the acquisition
        if kind == "file":
            path = f"{acq}/new{j}"
            unreg.append({"node": n, "path": path, "tag": 800 + j, "size": 9})
        elif kind == "deep":
            path = f"{acq}/d{j}/e/new{j}"
            unreg.append({"node": n, "path": path, "tag": 810 + j, "size": 3})
        elif kind == "dot":
            path = f"{acq}/.hidden{j}"
            unreg.append({"node": n, "path": path, "tag": 820 + j})
        elif kind == "lock":
            path = f"{acq}/locked{j}"
            unreg.append({"node": n, "path": path, "tag": 830 + j})
            unreg.append({"node": n, "path": f"{acq}/.locked{j}.lock", "tag": 831 + j})
        elif kind == "temp":
            path = f"{acq}/.alpentempXYZ{j}/left{j}"
            unreg.append({"node": n, "path": path, "tag": 840 + j})
        elif kind == "placeholder":
            path = f"{acq}/.ph{j}.placeholder"
            unreg.append({"node": n, "path": path, "tag": 850 + j, "size": 0})
        elif kind == "symlink":
            path = f"{acq}/link{j}"
            unreg.append({"node": n, "path": path, "kind": "symlink", "target": "@OUT/precious"})
        else:
            path = f"{acq}/ldir{j}/precious"
            unreg.append({"node": n, "path": f"{acq}/ldir{j}", "kind": "symlink", "target": "@OUT"})
        if rng.random() < 0.7:
            scan = rng.random() < 0.4
            ireqs.append({"node": n, "path": (acq.split("/")[0] if scan else path), "recurse": scan, "register": rng.random() < 0.85})
    if rng.random() < 0.15:
        ireqs.append({"node": rng.choice(nodes)["name"], "path": rng.choice(["/abs/path", "../up", "acq1/../x", ".", "ALPENHORN_NODE"]), "recurse": rng.random() < 0.5})
    return {"groups": groups, "nodes": nodes, "acqs": acqs, "files": files, "copies": copies, "reqs": reqs, "rules": rules, "unregistered": unreg, "ireqs": ireqs}


def gen_ops(rng, spec, n):
    ops = []
    nodes = [x["name"] for x in spec["nodes"]]
    groups = [x["name"] for x in spec["groups"]]
    paths = [f"{f['acq']}/{f['name']}" for f in spec["files"]]
    for _ in range(n):
        r = rng.random()
        if r < 0.55:
            ops.append(("iter", rng.choice(HOSTS)))
        elif r < 0.8:
            c = rng.choice(["clean", "clean-now", "clean-cancel", "sync", "verify", "fsync", "fclean", "fstate", "deactivate", "activate", "scan", "import", "init", "modify-group", "fmodify"])
            node, group, path = rng.choice(nodes), rng.choice(groups), rng.choice(paths)
            if c == "clean":
                ops.append(("cli", "node clean", [node, "--force", "--archive-ok"]))
            elif c == "clean-now":
                ops.append(("cli", "node clean", [node, "--force", "--archive-ok", "--now"]))
            elif c == "clean-cancel":
                ops.append(("cli", "node clean", [node, "--force", "--cancel"]))
            elif c == "sync":
                ops.append(("cli", "node sync", [node, group, "--force"]))
            elif c == "verify":
                ops.append(("cli", "node verify", [node, "--force", "--all"]))
            elif c == "fsync":
                ops.append(("cli", "file sync", [path, f"--from={node}", f"--to={group}"]))
            elif c == "fclean":
                ops.append(("cli", "file clean", [path, f"--node={node}", "--archive-ok", rng.choice(["--now", "--now", "--cancel"])]))
            elif c == "fstate":
                ops.append(("cli", "file state", [path, node, f"--set={rng.choice(['healthy', 'corrupt', 'suspect', 'missing'])}"]))
            elif c == "deactivate":
                ops.append(("cli", "node deactivate", [node]))
            elif c == "activate":
                ops.append(("cli", "node activate", [node]))
            elif c == "scan":
                ops.append(("cli", "node scan", [node, rng.choice(spec["acqs"] + ["."])]))
            elif c == "import":
                ops.append(("cli", "file import", [rng.choice(paths + ["acq1/brandnew"]), node, "--register-new"]))
            elif c == "init":
                ops.append(("cli", "node init", [node]))
            elif c == "fmodify":
                # the operator corrects the registered size or digest of a file
                ops.append(("cli", "file modify", [path, rng.choice(["--size=4096", "--size=0", "--md5=" + "ab" * 16, "--md5=D41D8CD98F00B204E9800998ECF8427E"])] + (["--no-reverify"] if rng.random() < 0.2 else [])))
            else:
                ops.append(("cli", "node modify", [node, f"--group={group}"]))
        elif r < 0.93:
            ops.append(("fault", rng.choice(["remove", "corrupt", "plant", "plant-new"]), rng.choice(nodes), rng.choice(paths)))
        else:
            ops.append(("tools", rng.choice(["both", "rsync", "bbcp", "none", "real"]), rng.choice([{}, {}, {"rsync": "fail"}, {"bbcp": "wrong_md5"}, {"bbcp": "garbled"}, {"rsync": "mkstemp"}, {"rsync": "write_failed"}])))
    return ops


def apply_op(sim, mon, op, ctx=None):
    """run one label on the simulation; returns the result of an iteration (or None)"""
    kind = op[0]
    if kind == "iter":
        res = sim.iterate(op[1])
        return res
    if kind == "cli":
        _, cmd, args = op[:3]
        w.config.config["base"]["hostname"] = "operator"
        sim.step_no += 1
        sim.just_completed = set()
        pre_taint = set()
        if cmd == "file modify":
            # file modify re-verifies the copies that are present and not released; with --no-reverify none.  The copies it does not
            # send back to verification are recorded against metadata the operator has just replaced: an operator override
            acq_, _, name_ = args[0].partition("/")
            for c in w.ArchiveFileCopy.select().join(w.ArchiveFile).join(w.ArchiveAcq).where(w.ArchiveAcq.name == acq_, w.ArchiveFile.name == name_):
                if "--no-reverify" in args or c.wants_file == "N":
                    pre_taint.add((c.node.name, args[0]))
        # "{root:NAME}" in an argument stands for the current root of node NAME
        args = [re.sub(r"\{root:(\w+)\}", lambda m_: str(w.StorageNode.get(name=m_.group(1)).root), a) if isinstance(a, str) else a for a in args]
        code, out, exc = cw.invoke(cmd, list(args), input_="y\n")
        if code == 0:
            sim.tainted |= pre_taint
        if cmd in ("file state",) and code == 0:
            # an operator override: the copy no longer has to agree with storage
            sim.tainted.add((args[1], args[0]))
        if cmd == "node modify" and code == 0:
            sim.nodes = {n.name: n for n in w.StorageNode.select()}
        return None
    if kind == "fault":
        _, what, node, rel = op
        sim.step_no += 1
        n = w.StorageNode.get(name=node)
        p = pathlib.Path(n.root, rel)
        if what == "finish-write":
            # a writer that follows the lock protocol completes its file and removes the lock: not tampering
            with daemon._real["builtins.open"](p, "ab") as fh:
                fh.write(b"-and the rest of the data")
            lock = p.with_name("." + p.name + ".lock")
            if lock.exists():
                daemon._real.get("unlink", os.unlink)(lock)
            return None
        sim.tainted.add((node, rel))
        if what == "remove":
            if p.exists():
                daemon._real.get("unlink", os.unlink)(p)
        elif what == "corrupt":
            if p.is_file():
                # replace the file (new inode): a hard-linked copy on another node is not this copy
                data = p.read_bytes()
                tmp = p.with_name(p.name + ".harness-tmp")
                daemon._real["builtins.open"](tmp, "wb").write((data[:-1] + b"~") if data else b"~")
                daemon._real.get("replace", os.replace)(tmp, p)
        elif what == "repair":
            # the operator puts the right bytes back by hand
            good = next((data for (f, data) in sim.files if f"{f.acq.name}/{f.name}" == rel), None)
            if good is not None and p.parent.is_dir():
                tmp = p.with_name(p.name + ".harness-tmp")
                daemon._real["builtins.open"](tmp, "wb").write(good)
                daemon._real.get("replace", os.replace)(tmp, p)
        elif what in ("plant", "plant-new"):
            q = p if what == "plant" else p.with_name(p.name + ".extra")
            if what == "plant-new":
                sim.tainted.add((node, rel + ".extra"))
            q.parent.mkdir(parents=True, exist_ok=True) if not q.parent.exists() else None
            if not q.exists():
                daemon._real["builtins.open"](q, "wb").write(b"planted by the harness")
        return None
    if kind == "tools":
        if "hang" in op[2].values():
            w.config.config["daemon"]["pull_timeout_base"] = 0.25  # a stalled transport is killed after a quarter of a second
        sim.set_tools(op[1], **op[2])
        return None
    raise ValueError(op)


def run_history(ctx, base, spec, ops, rp_extra=None, checks=("wellformed", "agreement")):
    """build the world, run the labels with all monitors attached; returns (sim results, monitors)"""
    sim = daemon.Sim(base, spec)
    sim.set_tools("both")
    rp = {"family": "history", "spec": spec, "ops": [list(o) for o in ops], **(rp_extra or {})}
    mon = monitors.Monitors(sim, ctx, rp)
    results = []
    try:
        if "wellformed" in checks:
            mon.wellformed("initial state")
        for op in ops:
            res = apply_op(sim, mon, op, ctx)
            results.append(res)
            if res is not None and res["error"] and res["error"] != "crash":
                mon.fail("daemon-died", f"daemon on {op[1]} died: {res['error'][:300]}")
            if "wellformed" in checks:
                mon.wellformed(f"after step {sim.step_no} {op[:2]}")
            if "agreement" in checks and op[0] == "iter":
                mon.agreement(f"after step {sim.step_no} {op[:2]}")
        final = {"index": sim.index(), "trees": sim.trees(), "outside": sim.outside()}
    finally:
        sim.shutdown()
    return results, mon, final
