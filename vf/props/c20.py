"""C20 — HSM residency discipline: lfs output parsing, _restore_wait bookkeeping, release selection, idle alignment, open/hash gates;
end-to-end histories against a scripted Lustre-HSM file system."""
import ast
import datetime
import pathlib
import shutil

from vf import core
from vf.core import cbool, clist, cn, copt, cstr, ctup, cz
from vf.translate import core as T
from vf.harness import lustre

TRUSTED = [
    "Coq 8.16.1 kernel + VM; no native_compute",
    "translator vf/translate for the word tests and prefix stripping of LFS.hsm_state / hsm_restoring, the classification of run_lfs, the shortfall arithmetic and stop test of release_files; "
    "the if/while skeletons of _restore_wait, idle_update, open, check, ready_pull, ready_path and hsm_restore are pinned textually",
    "lfs(1) replaced by a scripted stand-in behind alpenhorn.common.util.run_command printing lfs's documented output format (one residency state per path, evolving between tasks); "
    "modelled, not verified: each _restore_wait call is atomic with respect to the other tasks of the node (with several workers two calls about one file can interleave between the "
    "membership test and the dictionary access); residency does not change during one task",
    "sqlite + peewee as the meaning of the release / idle queries (order_by last_update with distinct time stamps)",
]
RULE = ("six correspondence families evaluated in Coq: raw (exit status, stdout, stderr) triples x adversarial paths through the real LFS.hsm_state; LFS.hsm_restore; random _restore_wait call "
        "sequences over 3 files with the bookkeeping read after every call; release_files on random copy tables x shortfalls; idle_update alignment; open() per state; plus end-to-end "
        "histories (check / ready_pull / release / idle tasks, ticks, external residency changes, faults at any lfs call, node roots containing the state keywords) under monitors; "
        "non-trivial = a restore or release was issued / the state was not plain resident; distinct by full input")

HS = {"missing": "Missing", "unarchived": "Unarchived", "restored": "Restored", "restoring": "Restoring", "released": "Released"}
KEYWORDS = ["archived", "released", "RESTORE", "exists", "NOOP", "lost", ":", " ", "0x0000000d", "(", ")", ","]


def chsm(st):
    return "None" if st is None else f"(Some {HS[st]})"


# ---- T1 ---------------------------------------------------------------------------------------------------------------
SKELETONS = {
    ("lustrehsm", "LustreHSMNodeIO._restore_wait"): ["state is None", "state == self._lfs.HSM_MISSING", "state == self._lfs.HSM_RESTORING", "copy.file.id not in self._restoring",
                                                     "state != self._lfs.HSM_RELEASED", "copy.file.id not in self._restoring", "copy.file.id not in self._restoring", "result is False", "result is None"],
    ("lustrehsm", "LustreHSMNodeIO.release_files"): ["size_gib is None", "headroom_needed <= 0", "lfs.hsm_state(copy.path) != lfs.HSM_RESTORED", "total_bytes >= headroom_needed"],
    ("lustrehsm", "LustreHSMNodeIO.idle_update"): ["self._statecheck_qw is None", "state is None", "state == lfs.HSM_MISSING", "state == lfs.HSM_RELEASED or state == lfs.HSM_RESTORING", "copy.ready", "not copy.ready"],
    ("lustrehsm", "LustreHSMNodeIO.open"): ["pathlib.PurePath(path).is_absolute()", "state is None", "state != self._lfs.HSM_RESTORED and state != self._lfs.HSM_UNARCHIVED"],
    ("lustrehsm", "LustreHSMNodeIO.check"): ["not node_io.exists(copy.file.path)", "copy.has_file != 'N'", "restore_wait", "restore_wait is None", "not ArchiveFileCopy.get(id=copy.id).ready", "copy.file.id not in self._restoring"],
    ("lustrehsm", "LustreHSMNodeIO.ready_pull"): ["restore_wait", "copy.ready != ready", "req.file.id not in self._restoring"],
    ("lustrehsm", "LustreHSMNodeIO.ready_path"): ["state == self._lfs.HSM_RELEASED"],
    ("lfs", "LFS.hsm_state"): ["result['failed'] or result['timeout']", "result['missing']", "stdout.startswith(path + ':')", "'archived' not in stdout", "'released' not in stdout", "self.hsm_restoring(path)"],
    ("lfs", "LFS.hsm_restoring"): ["stdout is None", "stdout.startswith(path + ':')"],
    ("lfs", "LFS.hsm_restore"): ["state == HSMState.MISSING", "state != HSMState.RELEASED", "result['missing']", "result['timeout'] or result['failed']"],
    ("lfs", "LFS.run_lfs"): ["ret is None", "ret == 0", "stderr and 'No such file or directory' in stderr", "stderr", "stdout"],
}


def gen(ctx):
    trees = {"lfs": T.parse(core.REPO / "alpenhorn/io/lfs.py"), "lustrehsm": T.parse(core.REPO / "alpenhorn/io/lustrehsm.py")}
    for (mod, q), want in SKELETONS.items():
        got = [ast.unparse(x.test) for x in T.if_tests(T.find_func(trees[mod], q))]
        if got != want:
            raise T.Untranslatable(f"UNTRANSLATABLE: the tests of {q} changed: {got}")
    lfs, hsm = trees["lfs"], trees["lustrehsm"]
    env = {"stdout": "str", "path": "str", "stderr": "str"}
    atoms = {"int(size_gib * 2 ** 30)": ("avail", "Z"), "self._headroom": ("headroom", "Z")}
    d = [
        T.nth_test(lfs, "LFS.hsm_state", 2, env, "g_state_has_prefix", ["path", "stdout"]),
        T.nth_test(lfs, "LFS.hsm_state", 3, env, "g_unarchived", ["stdout"]),
        T.nth_test(lfs, "LFS.hsm_state", 4, env, "g_not_released", ["stdout"]),
        T.nth_test(lfs, "LFS.hsm_restoring", 1, env, "g_action_has_prefix", ["path", "stdout"]),
        T.return_expr(lfs, "LFS.hsm_restoring", dict(env), "g_restore_word", ["stdout"]),
        T.nth_test(lfs, "LFS.run_lfs", 2, env, "g_missing", ["stderr"]),
        T.assigned(hsm, "LustreHSMNodeIO.release_files", "headroom_needed", {}, "g_needed", ["headroom", "avail"], atoms=atoms),
        T.nth_test(hsm, "LustreHSMNodeIO.release_files", 1, {"headroom_needed": "Z"}, "g_enough", ["headroom_needed"]),
        T.nth_test(hsm, "LustreHSMNodeIO.release_files", 3, {"headroom_needed": "Z", "total_bytes": "Z"}, "g_stop", ["headroom_needed", "total_bytes"]),
    ]
    # the prefix is stripped by slicing off len(path) characters, in both functions, right under the startswith test
    for q, k in (("LFS.hsm_state", 2), ("LFS.hsm_restoring", 1)):
        node = T.if_tests(T.find_func(lfs, q))[k]
        body = [ast.unparse(s) for s in node.body]
        if body != ["stdout = stdout[len(path):]"]:
            raise T.Untranslatable(f"UNTRANSLATABLE: {q} no longer strips the path by slicing: {body}")
    rel = ast.unparse(T.find_func(hsm, "LustreHSMNodeIO.release_files"))
    for frag in ("ArchiveFileCopy.select().where(ArchiveFileCopy.node == node, ArchiveFileCopy.has_file == 'Y', ArchiveFileCopy.ready == True).order_by(ArchiveFileCopy.last_update)",
                 "lfs.hsm_release(copy.path)", "total_bytes += copy.file.size_b", "ArchiveFileCopy.update(ready=False, last_update=utcnow())"):
        if frag not in rel:
            raise T.Untranslatable(f"UNTRANSLATABLE: release_files no longer contains `{frag}`")
    headroom = [ast.unparse(x) for x in ast.walk(T.find_func(hsm, "LustreHSMNodeIO.__init__")) if isinstance(x, ast.Assign) and ast.unparse(x.targets[0]) == "self._headroom"]
    if headroom != ["self._headroom = config['headroom'] * 2 ** 10"]:
        raise T.Untranslatable(f"UNTRANSLATABLE: headroom conversion changed: {headroom}")
    if "ready = True if restore_wait is False else False" not in ast.unparse(T.find_func(hsm, "LustreHSMNodeIO.ready_pull")):
        raise T.Untranslatable("UNTRANSLATABLE: ready_pull no longer records ready exactly when _restore_wait answered False")
    pr = ast.unparse(T.find_func(hsm, "LustreHSMNodeRemote.pull_ready"))
    if "return copy.ready" not in pr or "ArchiveFileCopy.get(file=file, node=self.node)" not in pr:
        raise T.Untranslatable("UNTRANSLATABLE: LustreHSMNodeRemote.pull_ready no longer answers with the recorded ready flag")
    return {"Gen_hsm": T.HEADER + "\n".join(d) + "\n"}


def proofs(ctx):
    try:
        files = gen(ctx)
    except T.Untranslatable as e:
        ctx.broke("translator", "io/lfs.py, io/lustrehsm.py", str(e))
        files = None
    if files:
        core.check_tie(ctx, files, ["Tie_C20"])
    core.check_property_file(ctx, "C20.v")


# ---- the world ---------------------------------------------------------------------------------------------------------
class Clock:
    def __init__(self):
        self.now = 1000.0

    def __call__(self):
        self.now += 0.0005
        return self.now


class World:
    """one HSM node (plus an ordinary node), nf files with copies on the HSM node"""

    def __init__(self, base, root_name, nf, sizes, headroom_kib=0, ncheck=100, restore_wait=5):
        from vf.harness import world as w
        from alpenhorn.io import lustrehsm as L
        from alpenhorn.scheduler import queue as Q
        import json

        self.w, self.L = w, L
        w.fresh_db()
        d = base / "c20"
        shutil.rmtree(d, ignore_errors=True)
        d.mkdir(parents=True)
        self.g, self.g2 = w.mkgroup("ghsm"), w.mkgroup("gother")
        self.node = lustre.hsm_node(w, d, "hsm", self.g, root_name=root_name, headroom_kib=headroom_kib, restore_wait=restore_wait, ncheck=ncheck)
        self.other = w.mknode(d, "other", self.g2, stype="F")
        self.acq = w.mkacq("acq")
        self.files, self.copies, self.paths = [], [], []
        # file ids and copy ids must not coincide by construction (the bookkeeping is keyed by file id): a few file records without copies come first
        for j in range(3):
            w.mkfile(self.acq, f"zz_unused{j}", b"")
        for i in range(nf):
            content = w.content_of(i + 1, sizes[i])
            f = w.mkfile(self.acq, f"f{i}", content)
            w.put_on_disk(self.node, f, content)
            self.files.append(f)
        self.queue = w.StepQueue.make()
        self.clock = Clock()
        self._qmono, self.Q = Q.monotonic, Q
        Q.monotonic = self.clock
        self.io = L.LustreHSMNodeIO(w.StorageNode.get(id=self.node.id), json.loads(self.node.io_config), self.queue)

    def add_copy(self, i, has="Y", wants="Y", ready=False, last_update=None):
        kw = {"ready": ready}
        if last_update is not None:
            kw["last_update"] = last_update
        c = self.w.mkcopy(self.node, self.files[i], has, wants, size_b=self.files[i].size_b, **kw)
        self.copies.append(c)
        self.paths.append(str(c.path))
        return c

    def drain(self, limit=400):
        """run queued (not deferred) tasks through the real Worker.run; returns False after an abort"""
        from alpenhorn.scheduler import pool

        for _ in range(limit):
            if self.queue.qsize == 0:
                # expired deferrals are moved by get(); give it one look
                if self.queue.deferred_size == 0 or self.queue.get(timeout=0.001) is None:
                    break
                raise RuntimeError("unexpected: get() returned a task outside a worker")
            wk = pool.Worker(self.queue, 0)
            orig_get = self.queue.get

            def get(timeout=None, _w=wk, _orig=orig_get):
                r = _orig(timeout=timeout)
                if r is None:
                    _w._worker_stop.set()
                return r

            wk._queue = type("QProxy", (), {"get": staticmethod(get), "task_done": self.queue.task_done})()
            wk.run()
            if pool.global_abort.is_set():
                pool.global_abort.clear()
                return False
        return True

    def close(self):
        self.Q.monotonic = self._qmono


def drain_due(world):
    """run every task that is queued or whose deferral has expired"""
    from alpenhorn.scheduler import pool

    ok = True
    for _ in range(200):
        wk = pool.Worker(world.queue, 0)
        ran = []
        orig_get = world.queue.get

        def get(timeout=None, _w=wk, _orig=orig_get):
            r = _orig(timeout=timeout)
            if r is None:
                _w._worker_stop.set()
            else:
                ran.append(1)
            return r

        wk._queue = type("QProxy", (), {"get": staticmethod(get), "task_done": world.queue.task_done})()
        wk.run()
        if pool.global_abort.is_set():
            pool.global_abort.clear()
            ok = False
        if not ran:
            break
    return ok


# ---- family: parse -----------------------------------------------------------------------------------------------------
def gen_path(rng):
    parts = []
    for _ in range(rng.randint(1, 4)):
        r = rng.random()
        if r < 0.45:
            parts.append(rng.choice(["data", "f0", "acq", "x.h5", "mnt"]))
        else:
            parts.append("".join(rng.choice(KEYWORDS + ["a", "_"]) for _ in range(rng.randint(1, 3))).replace("/", ""))
    return "/" + "/".join(p for p in parts if p not in ("", ".", ".."))


def gen_cmd(rng, path, kind):
    """(rc, stdout, stderr) for a state or action query"""
    r = rng.random()
    if r < 0.08:
        return (None, "", "")
    if r < 0.16:
        return (rng.choice([1, 2, 255]), rng.choice(["", "partial"]), rng.choice(["", "lfs: Input/output error", "Cannot send after transport endpoint shutdown"]))
    if r < 0.24:
        return (rng.choice([1, 2]), "", f"lfs: cannot get state for '{path}': No such file or directory")
    if r < 0.34:  # malformed: the well-formed grammar always starts with "<path>:"
        return (0, rng.choice(["", "archived released", path, path + " archived", "x" + path + ": (0x00000009) exists archived", path[:-1] + ": released exists archived", "RESTORE"]), "")
    if kind == "state":
        st = rng.choice(["unarchived", "restored", "released", "released"])
        return (0, lustre.state_line(path, st, rng.choice(lustre.EXTRA_WORDS)), rng.choice(["", "", "warning: slow OST"]))
    return (0, rng.choice([lustre.action_line(path, "restoring"), lustre.action_line(path, "released"), f"{path}: ARCHIVE running\n", f"{path}: RESTORE waiting\n", f"{path}: \n"]), "")


def ccmd(t):
    rc, out, err = t
    return ctup(copt(None if rc is None else cz(rc), ty="Z"), cstr(out), cstr(err))


def explore_parse(ctx, n):
    from alpenhorn.common import util
    from alpenhorn.io.lfs import LFS, HSMState

    code = {None: None, HSMState.MISSING: "missing", HSMState.UNARCHIVED: "unarchived", HSMState.RESTORED: "restored", HSMState.RESTORING: "restoring", HSMState.RELEASED: "released"}
    orig = util.run_command
    terms, keep = [], []
    try:
        lfs = LFS("grp", "group", lfs="true")
        for k in range(n):
            path = gen_path(ctx.rng)
            rs, ra = gen_cmd(ctx.rng, path, "state"), gen_cmd(ctx.rng, path, "action")
            asked = []

            def run(cmd, timeout=None, _rs=rs, _ra=ra, _asked=asked, **kw):
                _asked.append(cmd[1])
                return _rs if cmd[1] == "hsm_state" else _ra

            util.run_command = run
            got = code[lfs.hsm_state(path)]
            ctx.count("parse")
            if any(kw in path for kw in ("archived", "released", "RESTORE")):
                ctx.distinct_add(("parse", path, rs, ra))
            # the statement itself, for well-formed output: the answer depends on the text after "<path>:" only
            if rs[0] == 0 and rs[1].startswith(path + ":"):
                flags = rs[1][len(path) + 1:]
                want = "unarchived" if "archived" not in flags else "restored" if "released" not in flags else None
                if want is None:
                    act = ra[1][len(path) + 1:] if (ra[0] == 0 and ra[1].startswith(path + ":")) else (ra[1] if ra[0] == 0 else "")
                    want = "restoring" if (ra[0] == 0 and "RESTORE" in act) else "released"
                if got != want:
                    ctx.fail("C20:state-misread", f"hsm_state({path!r}) = {got} for output {rs[1]!r} / action {ra[1]!r}; the flags say {want}",
                             {"family": "parse", "path": path, "state_result": rs, "action_result": ra})
            terms.append(f"(CParse {cstr(path)} {ccmd(rs)} {ccmd(ra)} {chsm(got)})")
            keep.append((path, rs, ra, got))
            if k == 0:
                ctx.sample({"parse": {"path": path, "hsm_state_result": rs, "hsm_action_result": ra, "answer": got}})
        # hsm_restore: (state seen, outcome of the restore command)
        rrn = {True: "RTrue", False: "RFalse", None: "RNone"}
        for st in (None, "missing", "unarchived", "restored", "restoring", "released"):
            for res in ((None, "", ""), (1, "", "boom"), (2, "", "x: No such file or directory"), (0, "", "")):
                lfs2 = LFS("grp", "group", lfs="true")
                lfs2.hsm_state = lambda p, _st=st: {v: k for k, v in code.items()}[_st]
                util.run_command = lambda cmd, timeout=None, _r=res, **kw: _r
                got = lfs2.hsm_restore("/x")
                ctx.count("hsm_restore")
                terms.append(f"(CRestore {chsm(st)} {ccmd(res)} {rrn[got]})")
                keep.append(("restore", st, res, got))
    finally:
        util.run_command = orig
    return terms, keep


# ---- family: _restore_wait sequences --------------------------------------------------------------------------------
RET = {True: "WaitMore", False: "Ready", None: "Failed"}


def explore_wait(ctx, base, n):
    from alpenhorn.io.lfs import HSMState

    enum = {None: None, "missing": HSMState.MISSING, "unarchived": HSMState.UNARCHIVED, "restored": HSMState.RESTORED, "restoring": HSMState.RESTORING, "released": HSMState.RELEASED}
    terms, keep = [], []
    W = World(base, "hsm", 3, [5, 6, 7])
    try:
        for i in range(3):
            W.add_copy(i)
        for k in range(n):
            W.io._restoring.clear()
            W.io._restore_start.clear()
            steps, obs = [], []
            for _ in range(ctx.rng.randint(1, 10)):
                i = ctx.rng.randrange(3)
                st = ctx.rng.choice([None, "missing", "unarchived", "restored", "restoring", "restoring", "released", "released", "released"])
                res = ctx.rng.choice([True, True, False, None])
                W.io._lfs.hsm_state = lambda p, _s=st: enum[_s]
                W.io._lfs.hsm_restore = lambda p, _r=res: _r
                try:
                    r = RET[W.io._restore_wait(W.copies[i])]
                except KeyError:
                    r = "KeyErr"
                fid = W.files[i].id
                steps.append((fid, st, res))
                obs.append((r, sorted(W.io._restoring), sorted(W.io._restore_start)))
                # the statement: same keys; a final answer clears the file
                if set(W.io._restoring) != set(W.io._restore_start) or r == "KeyErr" or (r in ("Ready", "Failed") and fid in W.io._restoring):
                    ctx.fail("C20:bookkeeping", f"after _restore_wait(file {fid}) -> {r}: _restoring={sorted(W.io._restoring)} _restore_start keys={sorted(W.io._restore_start)}",
                             {"family": "wait", "steps": steps})
            ctx.count("restore_wait-sequence")
            if any(s[1] == "released" for s in steps):
                ctx.distinct_add(("wait", repr(steps)))
            rrn = {True: "RTrue", False: "RFalse", None: "RNone"}
            terms.append("(CWait " + clist([f"(K {cn(f)} {chsm(st)} {rrn[res]})" for f, st, res in steps], "call") + " "
                         + clist([ctup(r, clist([cn(x) for x in a], "N"), clist([cn(x) for x in b], "N")) for r, a, b in obs], "(ret * list N * list N)") + ")")
            keep.append(("wait", steps, obs))
            if k == 0:
                ctx.sample({"restore_wait_steps": steps, "observed": obs})
    finally:
        W.close()
    return terms, keep


# ---- family: release_files ------------------------------------------------------------------------------------------------
def explore_release(ctx, base, n):
    from alpenhorn.io.lfs import HSMState

    enum = {None: None, "missing": HSMState.MISSING, "unarchived": HSMState.UNARCHIVED, "restored": HSMState.RESTORED, "restoring": HSMState.RESTORING, "released": HSMState.RELEASED}
    terms, keep = [], []
    for k in range(n):
        rng = ctx.rng
        nf = rng.randint(2, 7)
        sizes = [rng.choice([0, 1, 10, 100, 300, 1024]) for _ in range(nf)]
        headroom_kib = rng.choice([0, 1, 1, 2, 3])
        W = World(base, "hsm", nf, sizes, headroom_kib=headroom_kib)
        try:
            w = W.w
            order = list(range(nf))
            rng.shuffle(order)
            t0 = datetime.datetime(2024, 1, 1)
            rows = {}
            for rank, i in enumerate(order):
                has, ready = rng.choice("YYYYMXN"), rng.random() < 0.8
                st = rng.choice(["restored", "restored", "restored", "released", "unarchived", "restoring", None, "missing"])
                c = W.add_copy(i, has=has, ready=ready, last_update=t0 + datetime.timedelta(seconds=rank * 7))
                rows[i] = (c, has, ready, st)
            # a copy of the first file elsewhere must never be touched
            w.put_on_disk(W.other, W.files[0], w.content_of(1, sizes[0]))
            oc = w.mkcopy(W.other, W.files[0], "Y", "Y", ready=True, last_update=t0 - datetime.timedelta(days=1))
            short = rng.choice([None, -5, 0, 1, 50, 150, 400, 1024, 5000])
            avail_b = None if short is None else max(0, headroom_kib * 1024 - short)
            # avail_gb is a float of GiB; keep it exactly representable
            avail_b = None if avail_b is None else (avail_b // 4) * 4
            if avail_b is None:
                w.StorageNode.update(avail_gb=None).where(w.StorageNode.id == W.node.id).execute()
            else:
                # the free space reaches the node record the way the daemon records it (UpdateableNode.update_free_space -> StorageNode.update_avail_gb),
                # over an older, comfortable value: the shortfall is what the file system reports now, 0 bytes free included
                w.StorageNode.update(avail_gb=1.0).where(w.StorageNode.id == W.node.id).execute()
                w.StorageNode.get(id=W.node.id).update_avail_gb(avail_b)
            W.io.node = w.StorageNode.get(id=W.node.id)
            by_path = {str(c.path): st for (c, _, _, st) in rows.values()}
            W.io._lfs.hsm_state = lambda p: enum[by_path.get(str(p), "missing")]
            released = []
            W.io._lfs.hsm_release = lambda p: released.append(str(p)) or True
            W.io.release_files()
            W.drain()
            pid = {str(c.path): c.id for (c, _, _, _) in rows.values()}
            pid[str(oc.path)] = oc.id
            got = [pid[p] for p in released]
            cands = [rows[i] for i in order]
            seen_avail = None if W.io.node.avail_gb is None else int(W.io.node.avail_gb * 2 ** 30)
            if seen_avail != avail_b:
                ctx.fail("C20:free-space-not-recorded", f"the file system reported {avail_b} bytes free; the node record says {seen_avail} (release_files computes the headroom shortfall from it)",
                         {"family": "release", "headroom_kib": headroom_kib, "avail_bytes": avail_b, "recorded_avail_bytes": seen_avail})
            ctx.count("release_files")
            if got:
                ctx.distinct_add(("release", repr((headroom_kib, avail_b, [(h, r, s, sizes[i]) for i, (c, h, r, s) in zip(order, cands)]))))
            # the statement: only healthy, ready, restored; oldest first; minimal
            info = {c.id: (h, r, s, W.files[i].size_b, rank) for rank, (i, (c, h, r, s)) in enumerate(zip(order, cands))}
            rp = {"family": "release", "headroom_kib": headroom_kib, "avail_bytes": avail_b, "copies_in_last_update_order": [(c.id, h, r, s, W.files[i].size_b) for i, (c, h, r, s) in zip(order, cands)]}
            needed = None if avail_b is None else headroom_kib * 1024 - avail_b
            for cid in got:
                if cid not in info or info[cid][:3] != ("Y", True, "restored"):
                    ctx.fail("C20:released-not-releasable", f"release_files released copy {cid}: {info.get(cid, 'on another node')}", rp)
            if [info[c][4] for c in got if c in info] != sorted(info[c][4] for c in got if c in info):
                ctx.fail("C20:release-order", f"release order {got} is not by last_update", rp)
            if got and (needed is None or needed <= 0):
                ctx.fail("C20:released-without-need", f"released {got} although the headroom was met / free space unknown", rp)
            if needed is not None and needed > 0:
                tot = sum(info[c][3] for c in got if c in info)
                if got and tot - info[got[-1]][3] >= needed:
                    ctx.fail("C20:released-too-much", f"released {got}: the shortfall {needed} was already met before the last one", rp)
                all_rel = [c.id for (c, h, r, s) in cands if (h, r, s) == ("Y", True, "restored")]
                if tot < needed and got != all_rel:
                    ctx.fail("C20:released-too-little", f"released {got} ({tot} bytes) for a shortfall of {needed} although {all_rel} were releasable", rp)
            for cid in got:
                if w.ArchiveFileCopy.get(id=cid).ready:
                    ctx.fail("C20:released-still-ready", f"copy {cid} was released but is still recorded ready", rp)
            terms.append(f"(CRelease {copt(None if avail_b is None else cz(avail_b), ty='Z')} {cz(headroom_kib * 1024)} "
                         + clist([f"(RC {cn(c.id)} {cz(W.files[i].size_b)} {cbool(h == 'Y')} {cbool(r)} {chsm(s)})" for i, (c, h, r, s) in zip(order, cands)], "rcand")
                         + " " + clist([cn(x) for x in got], "N") + ")")
            keep.append(rp | {"released": got})
            if k == 0:
                ctx.sample(rp | {"released": got})
        finally:
            W.close()
    return terms, keep


# ---- family: idle alignment and open ---------------------------------------------------------------------------------------
def explore_idle(ctx, base, n):
    from alpenhorn.io.lfs import HSMState

    enum = {None: None, "missing": HSMState.MISSING, "unarchived": HSMState.UNARCHIVED, "restored": HSMState.RESTORED, "restoring": HSMState.RESTORING, "released": HSMState.RELEASED}
    terms, keep = [], []
    for k in range(n):
        rng = ctx.rng
        nf = rng.randint(1, 6)
        ncheck = rng.randint(1, 4)
        W = World(base, "hsm", nf, [3] * nf, ncheck=ncheck)
        try:
            w = W.w
            rows = []
            for i in range(nf):
                has, ready = rng.choice("YYYYMN"), rng.random() < 0.5
                st = rng.choice(["restored", "released", "unarchived", "restoring", None, "missing"])
                rows.append((W.add_copy(i, has=has, ready=ready), has, ready, st))
            by_path = {str(c.path): st for (c, _, _, st) in rows}
            W.io._lfs.hsm_state = lambda p: enum[by_path.get(str(p), "missing")]
            for _ in range(nf // ncheck + 2):
                W.io.idle_update(False)
                W.drain()
            after = [w.ArchiveFileCopy.get(id=c.id) for (c, _, _, _) in rows]
            ctx.count("idle_update")
            rp = {"family": "idle", "check_count": ncheck, "copies": [(c.id, h, r, s) for (c, h, r, s) in rows]}
            cases, got = [], []
            for (c, h, r, s), a in zip(rows, after):
                if h != "Y":
                    if (a.has_file, a.ready) != (h, r):
                        ctx.fail("C20:idle-touched-other", f"idle_update changed copy {c.id} with has_file={h}: now ({a.has_file}, ready={a.ready})", rp)
                    continue
                cases.append(ctup(chsm(s), cbool(r)))
                got.append(ctup(cbool(a.has_file == "N"), cbool(bool(a.ready))))
                if s is not None and s != "missing" and bool(a.ready) != (s in lustre.RESIDENT):
                    ctx.fail("C20:ready-not-aligned", f"after the idle refresh copy {c.id} is ready={a.ready} while the file system says {s}", rp)
                if s == "missing" and a.has_file != "N":
                    ctx.fail("C20:ready-not-aligned", f"after the idle refresh the missing copy {c.id} is still has_file={a.has_file}", rp)
            if any(s in ("released", "restoring") and r or s in lustre.RESIDENT and not r for (_, h, r, s) in rows if h == "Y"):
                ctx.distinct_add(("idle", repr(rp)))
            terms.append(f"(CIdle {clist(cases, '(option hsm * bool)')} {clist(got, '(bool * bool)')})")
            keep.append(rp)
            # ready_path() (the gate of imports on HSM nodes): true only for a resident file; a released one gets exactly one restore request;
            # an unknown answer (lfs failed, timed out, file missing) is NOT "resident"
            for (c, h, r, s) in rows:
                issued = []
                orig_restore = W.io._lfs.hsm_restore
                W.io._lfs.hsm_restore = lambda p_, _i=issued: _i.append(str(p_)) or True
                try:
                    rdy = W.io.ready_path(c.file.path)
                finally:
                    W.io._lfs.hsm_restore = orig_restore
                ctx.count("ready_path")
                if bool(rdy) != (s in lustre.RESIDENT):
                    ctx.fail("C20:ready-path", f"ready_path() answered {rdy} for a file the file system reports as {s}: an import would {'hash a non-resident file' if rdy else 'wait for ever'}", rp)
                if (len(issued) == 1) != (s == "released") or len(issued) > 1:
                    ctx.fail("C20:ready-path", f"ready_path() issued {len(issued)} restore request(s) for a file in state {s}", rp)
            # open(): only while resident
            for (c, h, r, s) in rows[:2]:
                try:
                    W.io.open(c.file.path).close()
                    opened = True
                except OSError:
                    opened = False
                ctx.count("open")
                if opened and s not in lustre.RESIDENT:
                    ctx.fail("C20:opened-not-resident", f"open() succeeded on a file the file system reports as {s}", rp)
                terms.append(f"(COpen {chsm(s)} {cbool(opened)})")
                keep.append(("open", s, opened))
        finally:
            W.close()
    return terms, keep


# ---- family: end-to-end histories -------------------------------------------------------------------------------------------
ROOTS = ["hsm", "RESTORE", "released_archived", "x RESTORE archived released", "arch:ived"]


def gen_history(rng):
    nf = rng.randint(1, 4)
    spec = {"root": rng.choice(ROOTS), "nf": nf, "sizes": [rng.choice([1, 40, 200, 700]) for _ in range(nf)], "headroom_kib": rng.choice([0, 0, 1, 2]),
            "copies": [{"has": rng.choice("YYYYM"), "ready": rng.random() < 0.5, "state": rng.choice(["restored", "released", "released", "unarchived", "restoring"])} for _ in range(nf)],
            "fault_rate": rng.choice([0, 0, 0.1, 0.3]), "ncheck": rng.randint(1, 5), "fault_seed": rng.randrange(10 ** 6)}
    ops = []
    for _ in range(rng.randint(4, 14)):
        r = rng.random()
        if r < 0.25:
            ops.append(("check", rng.randrange(nf)))
        elif r < 0.5:
            ops.append(("ready_pull", rng.randrange(nf)))
        elif r < 0.6:
            ops.append(("release", rng.choice([None, 0, 100, 500, 2000])))
        elif r < 0.72:
            ops.append(("idle",))
        elif r < 0.9:
            ops.append(("tick",))
        elif r < 0.96:
            ops.append(("external", rng.randrange(nf), rng.choice(["released", "restored", "restoring", "missing"])))
        else:
            ops.append(("fault", rng.choice(["fail", "timeout", "timeout-done"]), rng.randint(0, 3)))
    return spec, ops


def run_history(ctx, base, spec, ops):
    import builtins

    W = World(base, spec["root"], spec["nf"], spec["sizes"], headroom_kib=spec["headroom_kib"], ncheck=spec["ncheck"])
    w = W.w
    import random

    fl = lustre.FakeLustre(random.Random(spec["fault_seed"]))
    rp = {"family": "history", "spec": spec, "ops": [list(o) for o in ops]}
    issued = {"restore": 0, "release": 0}
    fails = []
    cur = {"task": None}
    orig_call = None

    def fail(sig, what):
        fails.append(sig)
        ctx.fail(sig, what, rp)

    try:
        t0 = datetime.datetime(2024, 1, 1)
        for i, c in enumerate(spec["copies"]):
            W.add_copy(i, has=c["has"], ready=c["ready"], last_update=t0 + datetime.timedelta(seconds=11 * i))
            fl.state[W.paths[i]] = c["state"]
        stale = set(range(spec["nf"]))  # copies whose recorded flag has not been set by alpenhorn from an observation yet
        root = str(pathlib.Path(W.node.root))
        fl.install()
        real_open = builtins.open

        def spy_open(file, *a, **k):
            p = str(file) if not isinstance(file, int) else ""
            if p in fl.state and fl.state[p] not in lustre.RESIDENT:
                fail("C20:read-while-not-resident", f"{p.replace(root, '<root>')} opened for reading while the file system reports it {fl.state[p]}")
            return real_open(file, *a, **k)

        def on_call(sub, path, fault, st):
            if sub == "hsm_restore":
                issued["restore"] += 1
                if st not in ("released", None) and fault in ("ok", "timeout-done"):
                    pass  # harmless: lfs ignores it
            if sub == "hsm_release" and fault in ("ok", "timeout-done"):
                issued["release"] += 1
                i = W.paths.index(path) if path in W.paths else None
                row = None if i is None else w.ArchiveFileCopy.get(id=W.copies[i].id)
                task = cur["task"] or ""
                if "HSM release" in task:
                    # reclaiming space: healthy, recorded ready, fully restored
                    if i is None or st != "restored" or row.has_file != "Y" or not row.ready:
                        fail("C20:released-not-releasable", f"{task}: lfs hsm_release issued for {path.replace(root, '<root>')} in state {st}, has_file={getattr(row, 'has_file', None)}, ready={getattr(row, 'ready', None)}")
                elif task.startswith("Check file"):
                    # a check puts a copy it had to restore back: only the checked copy, only when it is recorded not ready
                    if i is None or row.ready or f"f{i} " not in task:
                        fail("C20:released-not-releasable", f"{task}: lfs hsm_release issued for {path.replace(root, '<root>')} (ready={getattr(row, 'ready', None)})")
                else:
                    fail("C20:released-not-releasable", f"{task or 'main loop'}: lfs hsm_release issued for {path.replace(root, '<root>')}")

        fl.on_call = on_call
        builtins.open = spy_open
        from alpenhorn.scheduler.task import Task

        orig_call = Task.__call__

        def traced_call(self_):
            cur["task"] = self_._name
            try:
                return orig_call(self_)
            finally:
                cur["task"] = None

        Task.__call__ = traced_call

        def after_tasks(label):
            # bookkeeping: same keys; a file is marked only while some task for it is still alive
            io = W.io
            if set(io._restoring) != set(io._restore_start):
                fail("C20:bookkeeping", f"{label}: _restoring={sorted(io._restoring)} but _restore_start has {sorted(io._restore_start)}")
            if W.queue.qsize == 0 and W.queue.deferred_size == 0 and W.queue.inprogress_size == 0 and io._restoring:
                fail("C20:bookkeeping-left-behind", f"{label}: no task is left but files {sorted(io._restoring)} are still marked as being restored: later requests for them are skipped for ever")
            for i, c in enumerate(W.copies):
                row = w.ArchiveFileCopy.get(id=c.id)
                if row.ready and i not in stale and row.has_file == "Y" and fl.state.get(W.paths[i]) not in lustre.RESIDENT:
                    fail("C20:ready-but-not-resident", f"{label}: copy of f{i} is recorded ready (offered as a transfer source) while the file system reports {fl.state.get(W.paths[i])} and nothing outside alpenhorn changed it")

        for op in ops:
            fl.fault_rate = spec["fault_rate"]
            if op[0] == "check":
                c = w.ArchiveFileCopy.get(id=W.copies[op[1]].id)
                W.io.check(c)
            elif op[0] == "ready_pull":
                i = op[1]
                c = w.ArchiveFileCopy.get(id=W.copies[i].id)
                if c.has_file == "Y":
                    # update(): ready the source only when it is not already offered
                    remote = W.L.LustreHSMNodeRemote(W.io.node, {})
                    offered = remote.pull_ready(W.files[i])
                    if offered != bool(c.ready):
                        fail("C20:offered-not-recorded", f"pull_ready says {offered} for a copy recorded ready={c.ready}")
                    if not offered:
                        req = w.mkreq(W.files[i], W.node, W.g2)
                        W.io.ready_pull(req)
            elif op[0] == "release":
                avail = op[1]
                w.StorageNode.update(avail_gb=None if avail is None else ((avail // 4) * 4) / 2 ** 30).where(w.StorageNode.id == W.node.id).execute()
                W.io.node = w.StorageNode.get(id=W.node.id)
                W.io.before_update(True)
            elif op[0] == "idle":
                W.io.idle_update(False)
            elif op[0] == "tick":
                W.clock.now += 6
                fl.tick()
            elif op[0] == "external":
                _, i, st = op
                stale.add(i)
                if st == "missing":
                    fl.state.pop(W.paths[i], None)
                elif W.paths[i] in fl.state:
                    fl.state[W.paths[i]] = st
            elif op[0] == "fault":
                fl.faults = ["ok"] * op[2] + [op[1]]
            n_before = len(fl.calls)
            if not drain_due(W):
                fail("C20:daemon-abort", f"a task of {op} raised: the daemon would abort")
            # once alpenhorn has looked at a path and its flag agrees with the file system, the flag is alpenhorn's responsibility
            for i, c in enumerate(W.copies):
                seen = any(cl[1] == W.paths[i] and cl[0] == "hsm_state" and cl[2] == "ok" for cl in fl.calls[n_before:])
                if seen and bool(w.ArchiveFileCopy.get(id=c.id).ready) == (fl.state.get(W.paths[i]) in lustre.RESIDENT):
                    stale.discard(i)
            after_tasks(f"after {op}")
        # quiescence: with a healthy file system every restore completes and every task ends
        fl.fault_rate, fl.faults = 0, []
        for _ in range(8):
            W.clock.now += 6
            fl.tick(1.0)
            drain_due(W)
            if W.queue.qsize == 0 and W.queue.deferred_size == 0:
                break
        if W.queue.qsize or W.queue.deferred_size:
            waiting = sorted(W.io._restoring)
            stuck = [i for i, f in enumerate(W.files) if f.id in waiting]
            fail("C20:restore-never-completes", f"tasks are still waiting for files {waiting} after the file system went quiet (states: {[fl.state.get(W.paths[i]) for i in stuck]}, restore requests seen: {fl.restore_requests})")
        after_tasks("at quiescence")
    finally:
        builtins.open = real_open
        if orig_call is not None:
            Task.__call__ = orig_call
        fl.remove()
        W.close()
    return issued, fails


def explore_history(ctx, base, n):
    tot = {"restore": 0, "release": 0}
    for k in range(n):
        spec, ops = gen_history(ctx.rng)
        issued, _ = run_history(ctx, base, spec, ops)
        ctx.count("history")
        for a in tot:
            tot[a] += issued[a]
        if issued["restore"] or issued["release"]:
            ctx.distinct_add(("history", repr(spec), repr(ops)))
        if k == 0:
            ctx.sample({"history_spec": spec, "ops": [list(o) for o in ops], "lfs_commands_issued": issued})
    ctx.cov["lfs_restore_commands_in_histories"] = tot["restore"]
    ctx.cov["lfs_release_commands_in_histories"] = tot["release"]


def explore(ctx):
    base = ctx.tmp()
    q = ctx.quick()
    terms, keep = [], []
    for t, k in (explore_parse(ctx, 400 if q else 8000), explore_wait(ctx, base, 150 if q else 3000), explore_release(ctx, base, 60 if q else 1500), explore_idle(ctx, base, 50 if q else 1000)):
        terms += t
        keep += k
    bad = core.run_cases(ctx, "hsm", "Corr.C20", "case", "check", terms, shard=400, extra_imports=("Model.Hsm",))
    for i in bad[:3]:
        ctx.broke("correspondence", f"HSM: model and implementation differ on {keep[i]}")
    explore_history(ctx, base, 80 if q else 2500)


def search(ctx):
    explore(ctx)


def replay(ctx, rp):
    r = rp["replay"]
    if r.get("family") == "history":
        run_history(ctx, ctx.tmp(), r["spec"], [tuple(o) for o in r["ops"]])
        for f in ctx.failing:
            print(f["signature"], f["what"])
        return 1 if ctx.failing else 0
    print(r)
    return 2
