"""C08 — index well-formedness and index/storage agreement over all histories."""
import ast
import calendar
import pathlib

from vf import core
from vf.core import cbool, clist, cn, copt, cstr, ctup, cz
from vf.translate import core as T
from vf.harness import histories, itemrun as ir, itemworld as iw
from vf.harness import world as w

TRUSTED = [
    "Coq 8.16.1 kernel + VM; no native_compute",
    "the index model (Model/Sys.v) is hand-written: rows as lists, the writers as operations (upsert with the INSERT / IntegrityError / UPDATE shape, keyed UPDATEs, completion, cancellation, "
    "request creation, the import gate); tie: every snapshot of the real index after every step of the histories is abstracted to a Coq term and judged by the model's boolean "
    "well-formedness check (proved sound), which must agree with the harness's own verdict, on real and on deliberately malformed snapshots; the enum lists, db_value's validation and "
    "every has_file / wants_file / storage_type literal written anywhere in /repo/alpenhorn are re-read from the source on every run",
    "modelled, not verified: sqlite's unique indexes (file,node), (acq,name) and primary keys as the reason an INSERT raises IntegrityError; op_ok: a pull completes on a node of the request's "
    "destination group and time.time() does not go backwards between the two reads; agreement with storage rests on the item model (tied by the C09/C05 correspondence, re-run here on a sample) "
    "and on the history monitors for copies not touched by tracked tampering or operator overrides",
]
RULE = ("random multi-host histories (CLI commands, iterations on every host, imports, transfers with failing transports, deletions, tracked external faults, daemon restarts by kill): after every "
        "step the whole index is dumped, judged by wf_b in Coq and by the monitors (uniqueness, legal letters, completed requests, temp names; healthy => on disk with the registered size, "
        "removed by the daemon => gone); malformed variants of the snapshots (duplicate rows, completion without copy, reversed time stamps, temp names) must be rejected by both; "
        "non-trivial = the history changed the index; distinct by full input")

HAS = {"Y": "HY", "M": "HM", "X": "HX", "N": "HN"}
WANTS = {"Y": "WY", "M": "WM", "N": "WN"}
LEGAL = {"has_file": set("YMXN"), "wants_file": set("YMN"), "storage_type": set("ATF")}


# ---- T1 -----------------------------------------------------------------------------------------------------------------
def gen(ctx):
    arch = T.parse(core.REPO / "alpenhorn/db/archive.py")
    stor = T.parse(core.REPO / "alpenhorn/db/storage.py")
    found = {}
    for tree in (arch, stor):
        for n in ast.walk(tree):
            if isinstance(n, ast.Assign) and isinstance(n.value, ast.Call) and ast.unparse(n.value.func) == "EnumField" and n.value.args and isinstance(n.value.args[0], ast.List):
                found[ast.unparse(n.targets[0])] = {e.value for e in n.value.args[0].elts}
    for k, v in LEGAL.items():
        if found.get(k) != v:
            raise T.Untranslatable(f"UNTRANSLATABLE: enum list of {k} is {found.get(k)}, the model has {sorted(v)}")
    base = T.parse(core.REPO / "alpenhorn/db/_base.py")
    dbv = T.find_func(base, "EnumField.db_value")
    tests = [ast.unparse(x.test) for x in T.if_tests(dbv)]
    if tests != ["self.native or val in self.enum_list or val is None"] or "raise ValueError" not in ast.unparse(dbv):
        raise T.Untranslatable(f"UNTRANSLATABLE: EnumField.db_value no longer validates against the enum list: {tests}")
    # every literal written to one of the enum columns, anywhere in the package, is a legal letter
    bad = []
    for p in sorted((core.REPO / "alpenhorn").rglob("*.py")):
        for n in ast.walk(ast.parse(p.read_text())):
            if isinstance(n, ast.keyword) and n.arg in LEGAL and isinstance(n.value, ast.Constant) and isinstance(n.value.value, str) and n.value.value not in LEGAL[n.arg]:
                bad.append((str(p.relative_to(core.REPO)), n.value.lineno, n.arg, n.value.value))
            if isinstance(n, ast.Assign) and len(n.targets) == 1 and isinstance(n.targets[0], ast.Attribute) and n.targets[0].attr in LEGAL \
                    and isinstance(n.value, ast.Constant) and isinstance(n.value.value, str) and n.value.value not in LEGAL[n.targets[0].attr]:
                bad.append((str(p.relative_to(core.REPO)), n.lineno, n.targets[0].attr, n.value.value))
    if bad:
        raise T.Untranslatable(f"UNTRANSLATABLE: illegal state letters are written: {bad[:5]}")
    # copy upsert and completion share one transaction; the index of a deleted copy is updated after the unlink
    crd = ast.unparse(T.find_func(T.parse(core.REPO / "alpenhorn/io/ioutil.py"), "copy_request_done"))
    i0, i1, i2 = crd.find("with db.database_proxy.atomic():"), crd.find("ArchiveFileCopy.insert("), crd.find("ArchiveFileCopyRequest.update(completed=True")
    if -1 in (i0, i1, i2) or not (i0 < i1 < i2):
        raise T.Untranslatable("UNTRANSLATABLE: copy_request_done no longer upserts the copy and completes the request inside one atomic block")
    return {}


def proofs(ctx):
    ctx.attempted.append("enum-lists-and-literals")
    try:
        gen(ctx)
        ctx.obligations.append("enum-lists-and-literals")
    except T.Untranslatable as e:
        ctx.broke("translator", "enum lists / literals / completion transaction", str(e))
    core.check_property_file(ctx, "C08.v")


# ---- snapshots ------------------------------------------------------------------------------------------------------------
def is_temp(name):
    parts = pathlib.PurePath(name).parts
    return parts[-1].startswith(".") or any(p.startswith(".alpentemp") for p in parts)


def snapshot():
    """the whole index as plain data"""
    def ts(d):
        return None if d is None else calendar.timegm(d.timetuple())

    return {
        "groups": [(n.id, n.group_id) for n in w.StorageNode.select().order_by(w.StorageNode.id)],
        "copies": [(c.file_id, c.node_id, c.has_file, c.wants_file) for c in w.ArchiveFileCopy.select().order_by(w.ArchiveFileCopy.id)],
        "files": [(f.id, f.acq_id, f.name) for f in w.ArchiveFile.select().order_by(w.ArchiveFile.id)],
        "reqs": [(r.id, r.file_id, r.node_from_id, r.group_to_id, bool(r.completed), bool(r.cancelled), ts(r.transfer_started), ts(r.transfer_completed))
                 for r in w.ArchiveFileCopyRequest.select().order_by(w.ArchiveFileCopyRequest.id)],
    }


def py_wf(s, by_daemon=None):
    """the statement, restated on a snapshot (independent of the Coq definition)"""
    if len({(c[0], c[1]) for c in s["copies"]}) != len(s["copies"]):
        return False
    if len({(f[1], f[2]) for f in s["files"]}) != len(s["files"]):
        return False
    if len({r[0] for r in s["reqs"]}) != len(s["reqs"]):
        return False
    if any(c[2] not in "YMXN" or c[3] not in "YMN" or len(c[2]) != 1 or len(c[3]) != 1 for c in s["copies"]):
        return False
    if any(is_temp(f[2]) for f in s["files"]):
        return False
    grp = dict(s["groups"])
    for r in s["reqs"]:
        if r[4] and (by_daemon is None or r[0] in by_daemon):
            if r[6] is None or r[7] is None or r[6] > r[7]:
                return False
            if not any(c[0] == r[1] and grp.get(c[1]) == r[3] for c in s["copies"]):
                return False
    return True


def csnap(s, expect, by_daemon=None):
    reqs = []
    for r in s["reqs"]:
        completed = r[4] and (by_daemon is None or r[0] in by_daemon)  # completions written by the setup or by an operator carry no obligation
        reqs.append(f"(RR {cn(r[0])} {cn(r[1])} {cn(r[2])} {cn(r[3])} {cbool(completed)} {cbool(r[5])} {copt(None if r[6] is None else cz(r[6]), ty='Z')} {copt(None if r[7] is None else cz(r[7]), ty='Z')})")
    legal = all(c[2] in HAS and c[3] in WANTS for c in s["copies"])
    if not legal:
        return None
    return ("(CSnap " + clist([ctup(cn(a), cn(b)) for a, b in s["groups"]], "(N * N)") + " {| copies := "
            + clist([f"(CR {cn(c[0])} {cn(c[1])} {HAS[c[2]]} {WANTS[c[3]]})" for c in s["copies"]], "crow") + "; files := "
            + clist([f"(FR {cn(f[0])} {cn(f[1])} {cstr(f[2])} {cbool(is_temp(f[2]))})" for f in s["files"]], "frow") + "; reqs := "
            + clist(reqs, "rrow") + f" |}} {cbool(expect)})")


def malform(rng, s):
    """a snapshot broken in one way"""
    s = {k: list(v) for k, v in s.items()}
    kind = rng.choice(["dup-copy", "dup-file", "temp-name", "completed-no-copy", "reversed-stamps", "no-stamps", "dup-req"])
    if kind == "dup-copy" and s["copies"]:
        c = rng.choice(s["copies"])
        s["copies"].append((c[0], c[1], rng.choice("YMXN"), rng.choice("YMN")))
    elif kind == "dup-file" and s["files"]:
        f = rng.choice(s["files"])
        s["files"].append((max(x[0] for x in s["files"]) + 1, f[1], f[2]))
    elif kind == "temp-name" and s["files"]:
        f = s["files"][0]
        s["files"].append((max(x[0] for x in s["files"]) + 1, f[1], rng.choice([".hidden", "sub/.f.placeholder", ".alpentempAB/f", "d/.x.lock"])))
    elif kind == "completed-no-copy" and s["files"] and s["groups"]:
        g = max(b for _, b in s["groups"]) + 1
        s["reqs"].append((max([r[0] for r in s["reqs"]] + [0]) + 1, s["files"][0][0], s["groups"][0][0], g, True, False, 10, 20))
    elif kind in ("reversed-stamps", "no-stamps") and s["copies"]:
        c = s["copies"][0]
        g = dict(s["groups"])[c[1]]
        s["reqs"].append((max([r[0] for r in s["reqs"]] + [0]) + 1, c[0], c[1], g, True, False, 30 if kind == "reversed-stamps" else None, 20))
    elif kind == "dup-req" and s["reqs"]:
        s["reqs"].append(s["reqs"][0])
    else:
        return None
    return s


def run_history(ctx, base, spec, ops, terms, keep):
    from vf.harness import daemon, monitors

    sim = daemon.Sim(base / "hist", spec)
    sim.set_tools("both")
    rp = {"family": "history", "spec": spec, "ops": [list(o) for o in ops]}
    mon = monitors.Monitors(sim, ctx, rp)
    first = sim.index()
    try:
        mon.wellformed("initial state")
        for op in ops:
            if op[0] == "kill":
                res = sim.iterate(op[1], crash_at=op[2])
            else:
                res = histories.apply_op(sim, mon, op)
            if res is not None and res["error"] and res["error"] != "crash":
                mon.fail("daemon-died", f"daemon on {op[1]} died: {res['error'][:300]}")
            before = len(mon.fired)
            mon.wellformed(f"after step {sim.step_no} {op[:2]}")
            if op[0] == "iter":
                mon.agreement(f"after step {sim.step_no} {op[:2]}")
            s = snapshot()
            ok = py_wf(s, sim.just_completed)  # a completion is judged when it happens: an operator may move the node to another group later
            if not ok and len(mon.fired) == before:
                ctx.fail("C08:malformed-index", f"after step {sim.step_no} {op[:2]} the index is not well formed: {s}", rp)
            t = csnap(s, ok, sim.just_completed)
            if t is not None:
                terms.append(t)
                keep.append(("snapshot", spec, [list(o) for o in ops], sim.step_no))
        return sim.index() != first, snapshot()
    finally:
        sim.shutdown()


def gen_ops(rng, spec):
    ops = histories.gen_ops(rng, spec, rng.randint(4, 12))
    for k in range(len(ops)):
        if ops[k][0] == "iter" and rng.random() < 0.12:
            ops[k] = ("kill", ops[k][1], rng.randint(1, 12))
    return ops


def _modify_corpus():
    """the operator corrects a file's registered size or digest: every copy that stays recorded healthy must still agree with storage"""
    out = []
    for wants in ("Y", "M"):
        for stype in ("A", "F"):
            for opt in ("--size=4096", "--md5=" + "ab" * 16):
                spec = {"groups": [{"name": "g1"}, {"name": "g2"}],
                        "nodes": [{"name": "n1", "group": "g1", "stype": stype, "host": "h1", "active": True, "username": "u", "address": "addr"},
                                  {"name": "n2", "group": "g2", "stype": "A", "host": "h2", "active": True, "username": "u", "address": "addr"}],
                        "acqs": ["acq1"], "files": [{"acq": "acq1", "name": "f0.dat", "size": 13}, {"acq": "acq1", "name": "sub/f1", "size": 150}],
                        "copies": [{"file": 0, "node": "n1", "has": "Y", "wants": wants}, {"file": 0, "node": "n2", "has": "Y", "wants": "Y"}, {"file": 1, "node": "n1", "has": "Y", "wants": "Y"}],
                        "reqs": [], "rules": [], "unregistered": [], "ireqs": []}
                out.append((spec, [("iter", "h1"), ("cli", "file modify", ["acq1/f0.dat", opt]), ("iter", "h1"), ("iter", "h2"), ("iter", "h1")]))
    # a pending transfer whose source copy the daemon has recorded corrupt (over bytes that are indeed wrong)
    for local in (True, False):
        for disk in ("truncated", "corrupt"):
            spec = {"groups": [{"name": "g1"}, {"name": "g2"}],
                    "nodes": [{"name": "n1", "group": "g1", "stype": "A", "host": "h1", "active": True, "username": "u", "address": "addr"},
                              {"name": "n2", "group": "g2", "stype": "A", "host": "h1" if local else "h2", "active": True, "username": "u", "address": "addr"}],
                    "acqs": ["acq1"], "files": [{"acq": "acq1", "name": "data.dat", "size": 150}],
                    "copies": [{"file": 0, "node": "n1", "has": "X", "wants": "Y", "disk": disk}],
                    "reqs": [{"file": 0, "from": "n1", "to": "g2", "state": "pending"}], "rules": [], "unregistered": [], "ireqs": []}
            out.append((spec, [("iter", "h1"), ("iter", "h2"), ("iter", "h1"), ("iter", "h2")]))
    # a transport that stalls and is killed by the pull time-out, over a destination copy recorded corrupt: nothing becomes healthy
    for tool in ("rsync", "bbcp"):
        spec = {"groups": [{"name": "g1"}, {"name": "g2"}],
                "nodes": [{"name": "n1", "group": "g1", "stype": "F", "host": "h1", "active": True, "username": "u", "address": "addr"},
                          {"name": "n2", "group": "g2", "stype": "A", "host": "h2", "active": True, "username": "u", "address": "addr"}],
                "acqs": ["acq1"], "files": [{"acq": "acq1", "name": "data.bin", "size": 150}],
                "copies": [{"file": 0, "node": "n1", "has": "Y", "wants": "Y"}, {"file": 0, "node": "n2", "has": "X", "wants": "Y", "disk": "truncated"}],
                "reqs": [{"file": 0, "from": "n1", "to": "g2", "state": "pending"}], "rules": [], "unregistered": [], "ireqs": []}
        out.append((spec, [("tools", tool, {tool: "hang"}), ("iter", "h2"), ("iter", "h2")]))
    # a file still being written under the lock protocol (.NAME.lock beside it) is left alone until the writer is done
    for name in ("data.h5", "run.7.raw", "plain"):
        spec = {"groups": [{"name": "g1"}], "nodes": [{"name": "n1", "group": "g1", "stype": "A", "host": "h1", "active": True, "username": "u", "address": "addr"}],
                "acqs": ["acq1"], "files": [], "copies": [], "reqs": [], "rules": [],
                "unregistered": [{"node": "n1", "path": f"acq1/{name}", "tag": 860, "size": 9}, {"node": "n1", "path": f"acq1/.{name}.lock", "tag": 861, "size": 0}],
                "ireqs": [{"node": "n1", "path": f"acq1/{name}", "recurse": False, "register": True}]}
        out.append((spec, [("iter", "h1"), ("fault", "finish-write", "n1", f"acq1/{name}"), ("cli", "file import", [f"acq1/{name}", "n1", "--register-new"]), ("iter", "h1"), ("iter", "h1")]))
    # an import request for a path whose copy is already known --- corrupt, suspect, released or not --- must not make it healthy unchecked
    for has, wants in (("X", "M"), ("X", "N"), ("X", "Y"), ("M", "N"), ("N", "N")):
        for disk in ("truncated", "corrupt"):
            spec = {"groups": [{"name": "g1"}], "nodes": [{"name": "n1", "group": "g1", "stype": "F", "host": "h1", "active": True, "username": "u", "address": "addr"}],
                    "acqs": ["acq1"], "files": [{"acq": "acq1", "name": "f0.dat", "size": 150}, {"acq": "acq1", "name": "sub/f1", "size": 13}],
                    "copies": [{"file": 0, "node": "n1", "has": has, "wants": wants, "disk": disk}, {"file": 1, "node": "n1", "has": "Y", "wants": "Y"}],
                    "reqs": [], "rules": [], "unregistered": [], "ireqs": []}
            out.append((spec, [("cli", "file import", ["acq1/f0.dat", "n1"]), ("iter", "h1"), ("iter", "h1"), ("cli", "file import", ["acq1/f0.dat", "n1", "--register-new"]), ("iter", "h1"), ("iter", "h1")]))
    # discretionary cleaning: a removable copy on a field node short of space, two archive copies elsewhere; what is unlinked must be recorded removed
    for wants in ("M", "N"):
        for name in ("f0.dat", "sub/deep/f1"):
            spec = {"groups": [{"name": "g1"}, {"name": "g2"}, {"name": "g3"}],
                    "nodes": [{"name": "n1", "group": "g1", "stype": "F", "host": "h1", "active": True, "username": "u", "address": "addr", "min_avail_gb": 1e9},
                              {"name": "n2", "group": "g2", "stype": "A", "host": "h2", "active": True, "username": "u", "address": "addr"},
                              {"name": "n3", "group": "g3", "stype": "A", "host": "h2", "active": True, "username": "u", "address": "addr"}],
                    "acqs": ["acq1"], "files": [{"acq": "acq1", "name": name, "size": 150}, {"acq": "acq1", "name": "keep", "size": 13}],
                    "copies": [{"file": 0, "node": "n1", "has": "Y", "wants": wants}, {"file": 0, "node": "n2", "has": "Y", "wants": "Y"}, {"file": 0, "node": "n3", "has": "Y", "wants": "Y"},
                               {"file": 1, "node": "n1", "has": "Y", "wants": "Y"}],
                    "reqs": [], "rules": [], "unregistered": [], "ireqs": []}
            out.append((spec, [("iter", "h1"), ("iter", "h1"), ("iter", "h2")]))
    return out


def explore(ctx):
    base = ctx.tmp()
    q = ctx.quick()
    terms, keep = [], []
    last = None
    corpus = _modify_corpus()
    for k in range((60 if q else 2000) + len(corpus)):
        if k < len(corpus):
            spec, ops = corpus[k]
        else:
            spec = histories.gen_spec(ctx.rng)
            ops = gen_ops(ctx.rng, spec)
        changed, snap = run_history(ctx, base, spec, ops, terms, keep)
        ctx.count("history")
        ctx.count("snapshots", len(ops))
        if changed:
            ctx.distinct_add(("hist", repr(spec), repr(ops)))
        if k == 0:
            ctx.sample({"history_ops": [list(o) for o in ops], "final_snapshot": {a: len(b) for a, b in snap.items()}})
        # malformed variants: both judges must reject them
        for _ in range(2):
            m = malform(ctx.rng, snap)
            if m is None:
                continue
            if py_wf(m):
                raise RuntimeError(f"harness: the malformed snapshot is accepted by py_wf: {m}")
            t = csnap(m, False)
            if t is not None:
                terms.append(t)
                keep.append(("malformed snapshot", m))
                ctx.count("malformed-snapshot")
    bad = core.run_cases(ctx, "snap", "Corr.C08", "case", "check", terms, shard=150, extra_imports=("Model.Sys",))
    for b in bad[:3]:
        ctx.broke("correspondence", f"wf_b and the harness disagree on {str(keep[b])[:1500]}")
    # the agreement half rests on the item model: keep its tie alive in this run too
    it, ik = [], []
    for (i, e, mode) in ir.CORE[:6] + [ir.gen_case(ctx.rng) for _ in range(6 if q else 200)]:
        sim = iw.build(base, i, e, mode)
        try:
            res = sim.iterate("h2")
            st = iw.project(sim)
        finally:
            sim.shutdown()
        ctx.count("item-iteration")
        it.append(ir.trace_term(i, e, mode, [i, st]))
        ik.append((i, e, mode, st))
        if i["req"] == "pending" and st["req"] == "completed" and not (st["dst_row"] is not None and st["dst_row"][0] == "Y" and st["dst_disk"] == "good"):
            ctx.fail("C08:completed-without-copy", f"one iteration completed the request from {i}, but the destination copy is {st['dst_row']} with bytes {st['dst_disk']}", {"family": "item", "item": i, "env": e, "mode": mode})
        if st["dst_row"] is not None and st["dst_row"][0] == "N" and st["dst_disk"] is not None and (i["dst_disk"] is None or (i["dst_row"] is not None and i["dst_row"][0] != "N")):
            ctx.fail("C08:removed-still-on-disk", f"one iteration took {i} to {st}: the destination copy is recorded absent but a file is there", {"family": "item", "item": i, "env": e, "mode": mode})
        if not ir.backed(i) and ir.backed(st):
            ctx.fail("C08:agreement-lost", f"one uninterrupted iteration took {i} to {st}: {ir.backed(st)}", {"family": "item", "item": i, "env": e, "mode": mode})
    bad = core.run_cases(ctx, "itemc08", "Corr.Item", "case", "check", it, shard=250, extra_imports=("Model.Item", "Model.Pull"))
    for b in bad[:3]:
        ctx.broke("correspondence", f"item model and implementation differ on {ik[b]}")


def search(ctx):
    explore(ctx)


def replay(ctx, rp):
    r = rp["replay"]
    if r.get("family") == "history":
        run_history(ctx, ctx.tmp(), r["spec"], [tuple(o) for o in r["ops"]], [], [])
        for f in ctx.failing:
            print(f["signature"], f["what"])
        return 1 if ctx.failing else 0
    print(r)
    return 2
