From Coq Require Import List NArith Arith Bool.
From Alp Require Import Base.Str Base.Types Model.Cli.
From Run Require Gen_cli.
Import ListNotations.
Lemma tie_check_then_update dc du c : Gen_cli.g_check_then_update dc du c = check_then_update dc du c.
Proof. destruct dc, du, c; reflexivity. Qed.
Lemma tie_check_if_from_stdin (p ch f : bool) : Gen_cli.g_check_if_from_stdin (if p then (45%N :: nil) else (120%N :: nil)) ch f = check_if_from_stdin p ch f.
Proof. destruct p, ch, f; reflexivity. Qed.
