"""C03 — verification verdicts: check_async, the hash loop, the CLI's digest validation."""
import hashlib
import inspect
import os
import pathlib
import shutil
import re

from vf import core
from vf.core import cbool, clist, cn, cnat, copt, cstr, ctup, cz
from vf.translate import core as T

TRUSTED = [
    "Coq 8.16.1 kernel + VM; no native_compute",
    "translator vf/translate for check_async's two guards and the constants / chunk test of _md5sum_file",
    "hashlib.md5 as an incremental hash with update(a); update(b) == update(a + b) and a 32-digit lower-case hexdigest (hypotheses of C03_hash_loop_correct / canonical_digest)",
    "modelled, not verified: a hash time-out (md5 returns None) is outside the verdict theorem's premise; peewee storing the digest string unchanged; click option parsing",
]
RULE = ("digest spellings (edits of a true digest over 0-9a-fA-FxX_+- and blanks) through the real `file create`/`file modify`; real files of boundary sizes with every damage kind "
        "checked by the real check_async on a real DefaultNodeIO; the hash loop with recording hash objects on boundary sizes (real constants) and with scaled constants "
        "substituted into the real source; non-trivial = accepted digest or existing file; distinct by (spelling) / (size,damage,registered values)")

HAS = {"Y": "HY", "M": "HM", "X": "HX", "N": "HN"}


def gen(ctx):
    asy = T.parse(core.REPO / "alpenhorn/io/_default_asyncs.py")
    utl = T.parse(core.REPO / "alpenhorn/common/util.py")
    d = [
        T.nth_test(asy, "check_async", 1, {"copy_file_size_b": "optZ", "size": "Z"}, "g_size_mismatch", ["copy_file_size_b", "size"], expect_count=3),
        T.nth_test(asy, "check_async", 2, {"md5sum": "optstr", "copy_file_md5sum": "optstr"}, "g_digest_match", ["md5sum", "copy_file_md5sum"]),
        T.assigned(utl, "_md5sum_file", "block_size", {}, "g_block_size"),
        T.assigned(utl, "_md5sum_file", "blocks_per_chunk", {}, "g_blocks_per_chunk"),
        T.nth_test(utl, "_md5sum_file._md5_chunk", 0, {"block_count": "Z", "blocks_per_chunk": "Z"}, "g_chunk_full", ["block_count", "blocks_per_chunk"], expect_count=1),
    ]
    # letters written by check_async, in source order
    import ast

    # which copies the daemon sends to verification: every suspect copy that is not released
    upd = T.parse(core.REPO / "alpenhorn/daemon/update.py")
    uq = [ast.unparse(x) for x in ast.walk(T.find_func(upd, "UpdateableNode.update")) if isinstance(x, ast.Call) and isinstance(x.func, ast.Attribute) and x.func.attr == "where"
          and "has_file == 'M'" in ast.unparse(x)]
    if uq != ["ArchiveFileCopy.select().where(ArchiveFileCopy.node == self.db, ArchiveFileCopy.has_file == 'M', ArchiveFileCopy.wants_file != 'N')"] \
            or "self.io.check(copy)" not in ast.unparse(T.find_func(upd, "UpdateableNode.update")):
        raise T.Untranslatable(f"UNTRANSLATABLE: the dispatch of checks in UpdateableNode.update changed: {uq}")

    fn = T.find_func(asy, "check_async")
    letters = [(x.lineno, x.value.value) for x in ast.walk(fn) if isinstance(x, ast.Assign) and ast.unparse(x.targets[0]) == "copy.has_file" and isinstance(x.value, ast.Constant)]
    letters.sort()
    if [l for _, l in letters] != ["X", "Y", "X", "N"]:
        raise T.Untranslatable(f"UNTRANSLATABLE: verdict letters of check_async changed: {letters}")
    return {"Gen_check": T.HEADER + "\n".join(d) + "\n"}


def proofs(ctx):
    try:
        files = gen(ctx)
    except T.Untranslatable as e:
        ctx.broke("translator", "check_async / _md5sum_file", str(e))
        files = None
    if files:
        core.check_tie(ctx, files, ["Tie_C03"])
    core.check_property_file(ctx, "C03.v")


# ---- digest spellings through the real CLI -----------------------------------------------------------------
def spellings(rng, true_digest, n):
    out = [true_digest, true_digest.upper(), true_digest.capitalize(), "0x" + true_digest[2:], "0X" + true_digest[2:], "+" + true_digest[1:], "-" + true_digest[1:],
           " " + true_digest[1:], true_digest[:-1] + " ", true_digest[:15] + "_" + true_digest[16:], true_digest[:-1], true_digest + "0", "", "g" + true_digest[1:],
           true_digest[:31] + "\n", "0" * 32, "f" * 32, "F" * 32, true_digest.swapcase(), "１" + true_digest[1:], true_digest[:16] + "  " + true_digest[18:]]
    alpha = "0123456789abcdefABCDEFxX_+- gG"
    for _ in range(n):
        s = list(true_digest if rng.random() < 0.8 else "".join(rng.choice("0123456789abcdef") for _ in range(32)))
        for _ in range(rng.randint(0, 3)):
            k = rng.random()
            i = rng.randrange(len(s)) if s else 0
            if k < 0.6 and s:
                s[i] = rng.choice(alpha)
            elif k < 0.75 and s:
                del s[i]
            elif k < 0.9:
                s.insert(i, rng.choice(alpha))
            elif s:
                s[i] = s[i].upper()
        out.append("".join(s))
    return out


class World:
    def __init__(self, base):
        from vf.harness import world as w
        from alpenhorn.io.default import DefaultNodeIO
        from alpenhorn.scheduler import FairMultiFIFOQueue

        self.w = w
        w.fresh_db()
        self.base = base
        self.g = w.mkgroup("g")
        self.node = w.mknode(base, "n", self.g, stype="F")
        self.acq = w.ArchiveAcq.create(name="acq")
        (pathlib.Path(self.node.root) / "acq").mkdir(exist_ok=True)
        self.io = DefaultNodeIO(self.node, {}, FairMultiFIFOQueue())
        self.k = 0

    def cli(self, cmd, args):
        from click.testing import CliRunner

        r = CliRunner().invoke(cmd, args, catch_exceptions=True)
        return r


def run_cli_digest(ctx, wd, typed, via):
    """register a digest through the real command; returns the stored string or None (refused)"""
    from alpenhorn.cli.file.create import create
    from alpenhorn.cli.file.modify import modify

    w = wd.w
    wd.k += 1
    name = f"d{wd.k}"
    if via == "create":
        r = wd.cli(create, [name, "acq", f"--md5={typed}", "--size=3"])
    else:
        w.ArchiveFile.create(acq=wd.acq, name=name, size_b=3, md5sum="0" * 32)
        r = wd.cli(modify, [f"acq/{name}", f"--md5={typed}", "--no-reverify"])
    if r.exception is not None and not isinstance(r.exception, SystemExit):
        ctx.fail("C03:cli-crash", f"file {via} --md5={typed!r} raised {r.exception!r}", {"family": "digest", "typed": typed, "via": via})
        return None, name
    f = w.ArchiveFile.get_or_none(name=name, acq=wd.acq)
    if r.exit_code != 0:
        if via == "create" and f is not None:
            ctx.fail("C03:refused-but-stored", f"file create --md5={typed!r} failed but a record exists", {"family": "digest", "typed": typed, "via": via})
        return None, name
    return f.md5sum, name


def digest_value(s):
    return int(s, 16) if re.fullmatch(r"[0-9a-fA-F]{32}", s) else None


def check_copy(wd, name, content, patch_stat=False):
    """create/overwrite the file on disk (None = absent), mark the copy suspect, run the real check_async"""
    from alpenhorn.io import _default_asyncs as A

    w = wd.w
    f = w.ArchiveFile.get(name=name, acq=wd.acq)
    path = pathlib.Path(wd.node.root) / "acq" / name
    if content is None:
        if path.exists():
            path.unlink()
    else:
        path.write_bytes(content)
    c, _ = w.ArchiveFileCopy.get_or_create(file=f, node=wd.node, defaults=dict(has_file="M", wants_file="Y"))
    w.ArchiveFileCopy.update(has_file="M", size_b=None).where(w.ArchiveFileCopy.id == c.id).execute()
    c = w.ArchiveFileCopy.get(id=c.id)
    before = None
    if content is not None:
        st = path.stat()
        before = (st.st_mtime_ns, st.st_size, path.read_bytes())
    orig = A.timeout_call
    if patch_stat:
        def boom(func, timeout, *a, **k):
            raise OSError("stat failed (harness)")
        A.timeout_call = boom
    try:
        A.check_async(None, wd.io, c)
    finally:
        A.timeout_call = orig
    after = None
    if path.exists():
        st = path.stat()
        after = (st.st_mtime_ns, st.st_size, path.read_bytes())
    got = w.ArchiveFileCopy.get(id=c.id).has_file
    return got, before, after


def explore_digests(ctx, wd, n):
    content = b"abc"
    true = hashlib.md5(content).hexdigest()
    acases, vcases = [], []
    for i, typed in enumerate(spellings(ctx.rng, true, n)):
        via = "create" if i % 2 == 0 else "modify"
        if "\x00" in typed:
            continue
        stored, name = run_cli_digest(ctx, wd, typed, via)
        ctx.count("digest-spelling")
        acases.append(ctup(cstr(typed), copt(stored, cstr, "str")))
        val = digest_value(typed)
        if stored is not None:
            ctx.distinct_add(typed)
            if val is None:
                ctx.fail("C03:validator-accepts-non-digest", f"file {via} accepted --md5={typed!r}, which is not 32 hex digits (stored {stored!r})",
                         {"family": "digest", "typed": typed, "via": via, "stored": stored})
                continue
            # the accepted digest against a file whose true digest has the same / a different value
            got, before, after = check_copy(wd, name, content)
            expect = "Y" if val == int(true, 16) else "X"
            vcases.append(ctup("true", "true", cz(len(content)), copt(true, cstr), copt(3, cz), copt(stored, cstr), copt(HAS[got], lambda x: x)))
            if got != expect or before != after:
                ctx.fail("C03:verdict-vs-accepted-digest", f"digest typed as {typed!r} (stored {stored!r}): file with md5 {true} judged {got}, expected {expect}",
                         {"family": "digest", "typed": typed, "via": via, "stored": stored, "verdict": got, "expected": expect})
        elif val is not None:
            ctx.fail("C03:validator-refuses-digest", f"file {via} refused the well-formed digest {typed!r}", {"family": "digest", "typed": typed, "via": via})
        if i in (1, 3):
            ctx.sample({"digest_typed": typed, "via": via, "stored": stored})
    bad = core.run_cases(ctx, "digest", "Corr.C03", "acase", "acheck", acases, shard=500, extra_imports=("Model.Check",))
    for i in bad[:3]:
        ctx.broke("correspondence", f"digest validation: model and implementation differ on case #{i}: {acases[i][:200]}")
    return vcases


DAMAGE = ["none", "truncate", "extend", "flip", "replace", "delete", "empty"]


def damaged(rng, content, kind):
    if kind == "none":
        return content
    if kind == "truncate":
        return content[: max(0, len(content) - rng.choice([1, 2, len(content) // 2 + 1]))]
    if kind == "extend":
        return content + bytes(rng.choice([1, 3]))
    if kind == "flip":
        if not content:
            return b"\x01"
        i = rng.randrange(len(content))
        return content[:i] + bytes([content[i] ^ 0x40]) + content[i + 1:]
    if kind == "replace":
        return bytes(rng.getrandbits(8) for _ in range(len(content)))
    if kind == "empty":
        return b""
    return None


def explore_checks(ctx, wd, sizes, per_size):
    w = wd.w
    vcases = []
    for sz in sizes:
        content = bytes((i * 7 + sz) & 0xFF for i in range(sz)) if sz < 70000 else os.urandom(sz)
        true = hashlib.md5(content).hexdigest()
        for j in range(per_size):
            rng = ctx.rng
            kind = DAMAGE[j % len(DAMAGE)] if j < len(DAMAGE) else rng.choice(DAMAGE)
            reg_size = rng.choice([sz, sz, sz, None, 0, sz + 1, max(0, sz - 1)]) if j >= 2 else [sz, None][j]
            reg_md5 = rng.choice([true, true, true, hashlib.md5(content + b"x").hexdigest(), None]) if j >= 2 else true
            stat_fail = rng.random() < 0.05 and j > 3
            if j >= per_size - 3:
                # fixed boundary cases for every size: an intact file whose digest matches against a registered size of 0, size + 1 and size - 1
                kind, reg_md5, stat_fail = "none", true, False
                reg_size = [0, sz + 1, max(0, sz - 1)][per_size - 1 - j]
            wd.k += 1
            name = f"c{wd.k}"
            w.ArchiveFile.create(acq=wd.acq, name=name, size_b=reg_size, md5sum=reg_md5)
            disk = damaged(rng, content, kind)
            got, before, after = check_copy(wd, name, disk, patch_stat=stat_fail and disk is not None)
            ctx.count("check_async")
            ctx.distinct_add((sz, kind, reg_size, reg_md5 == true, stat_fail))
            exists = disk is not None
            so = not (stat_fail and exists)
            dsize = len(disk) if exists else 0
            dmd5 = hashlib.md5(disk).hexdigest() if exists else None
            recorded = None if got == "M" else got
            vcases.append(ctup(cbool(exists), cbool(so), cz(dsize), copt(dmd5, cstr, "str"), copt(reg_size, cz, "Z"), copt(reg_md5, cstr, "str"), copt(recorded and HAS[recorded], lambda x: x, "has")))
            # monitor: the property's sentence
            if not exists:
                exp = "N"
            elif not so:
                exp = "M"
            elif dmd5 == reg_md5 and (reg_size is None or dsize == reg_size):
                exp = "Y"
            else:
                exp = "X"
            if got != exp:
                ctx.fail("C03:verdict", f"{sz}-byte file, damage={kind}, registered size={reg_size}, digest {'true' if reg_md5 == true else reg_md5}: recorded {got}, expected {exp}",
                         {"family": "check", "size": sz, "damage": kind, "reg_size": reg_size, "reg_md5_is_true": reg_md5 == true, "reg_md5_none": reg_md5 is None, "stat_fail": stat_fail, "verdict": got, "expected": exp})
            if before != after:
                ctx.fail("C03:file-modified", f"verification changed the file (size {sz}, damage {kind})", {"family": "check", "size": sz, "damage": kind})
            (pathlib.Path(wd.node.root) / "acq" / name).unlink(missing_ok=True)
            if j == 3 and sz == sizes[1]:
                ctx.sample({"check": {"size": sz, "damage": kind, "registered_size": reg_size, "recorded": got}})
    return vcases


# ---- the hash loop -----------------------------------------------------------------------------------------------
class RecHash:
    def __init__(self):
        self.blocks = []
        self.h = hashlib.md5()

    def update(self, b):
        self.blocks.append(len(b))
        self.h.update(b)

    def hexdigest(self):
        return self.h.hexdigest()


def loop_with(bs, bpc, path):
    """the real source of util._md5sum_file with the two constants substituted, and a recording hash"""
    import asyncio
    from alpenhorn.common import util

    src = inspect.getsource(util._md5sum_file)
    if bs is not None:
        src2 = src.replace("block_size = 256 * 128", f"block_size = {bs}").replace("blocks_per_chunk = 1024", f"blocks_per_chunk = {bpc}")
        if src2 == src:
            raise core.Broken("correspondence", "cannot substitute the constants of _md5sum_file (source shape changed)")
        src = src2
    rec = RecHash()

    class H:
        @staticmethod
        def md5():
            return rec

    ns = dict(util.__dict__)
    ns["hashlib"] = H
    exec(compile("from __future__ import annotations\n" + src, "<_md5sum_file>", "exec"), ns)
    digest = asyncio.run(ns["_md5sum_file"](path))
    return digest, rec.blocks


def explore_loop(ctx, base):
    from alpenhorn.common import util

    lcases = []
    p = base / "blob"
    # scaled constants: loop structure against the model on every small length
    for bs, bpc in [(1, 1), (2, 1), (3, 2), (4, 3), (5, 1)]:
        for n in range(0, 4 * bs * bpc + 3):
            data = bytes((i * 31 + 7) & 0xFF for i in range(n))
            p.write_bytes(data)
            digest, blocks = loop_with(bs, bpc, p)
            ctx.count("hash-loop-scaled")
            ctx.distinct_add(("scaled", bs, bpc, n))
            lcases.append(ctup(cnat(bs), cnat(bpc), cn(n), clist([cn(b) for b in blocks], "N")))
            if digest != hashlib.md5(data).hexdigest() or sum(blocks) != n or 0 in blocks:
                ctx.fail("C03:hash-loop", f"_md5sum_file with block_size={bs}, blocks_per_chunk={bpc} on {n} bytes: digest {digest}, blocks {blocks}",
                         {"family": "loop", "bs": bs, "bpc": bpc, "n": n, "blocks": blocks})
    # real constants around the block boundary (model evaluated by Coq on the same lengths)
    for n in [0, 1, 32767, 32768, 32769, 65536, 65537]:
        data = bytes((i * 13 + 5) & 0xFF for i in range(n))
        p.write_bytes(data)
        digest, blocks = loop_with(None, None, p)
        ctx.count("hash-loop-real")
        ctx.distinct_add(("real", n))
        lcases.append(ctup(cnat(32768), cnat(1024), cn(n), clist([cn(b) for b in blocks], "N")))
        if digest != hashlib.md5(data).hexdigest():
            ctx.fail("C03:hash-loop", f"md5 of {n} bytes wrong", {"family": "loop", "n": n})
    # chunk boundary with the real function (monitor only: too large for lists in Coq)
    big = [32 * 2 ** 20 - 1, 32 * 2 ** 20, 32 * 2 ** 20 + 1] + ([64 * 2 ** 20 + 1] if not ctx.quick() else [])
    for n in big:
        data = os.urandom(n)
        p.write_bytes(data)
        d = util.md5sum_file(p)
        ctx.count("hash-loop-chunk-boundary")
        ctx.distinct_add(("big", n))
        if d != hashlib.md5(data).hexdigest():
            ctx.fail("C03:hash-loop", f"md5sum_file of {n} bytes (chunk boundary) is {d}", {"family": "loop-big", "n": n})
    p.unlink()
    ctx.sample({"hash_loop": {"block_size": 4, "blocks_per_chunk": 3, "length": 14, "blocks_fed": loop_with_sample(base)}})
    bad = core.run_cases(ctx, "loop", "Corr.C03", "lcase", "lcheck", lcases, shard=60, extra_imports=("Model.Md5",))
    for i in bad[:3]:
        ctx.broke("correspondence", f"hash loop: model and implementation feed different blocks: {lcases[i][:200]}")


def loop_with_sample(base):
    p = base / "blob2"
    p.write_bytes(bytes(14))
    r = loop_with(4, 3, p)[1]
    p.unlink()
    return r


def explore(ctx):
    base = ctx.tmp()
    wd = World(base)
    v1 = explore_digests(ctx, wd, 150 if ctx.quick() else 3000)
    sizes = [0, 1, 5, 32767, 32768, 32769] + ([] if ctx.quick() else [65536, 100000, 1 << 20])
    v2 = explore_checks(ctx, wd, sizes, 14 if ctx.quick() else 60)
    bad = core.run_cases(ctx, "verdict", "Corr.C03", "vcase", "vcheck", v1 + v2, shard=40, extra_imports=("Model.Check",))
    allv = v1 + v2
    for i in bad[:3]:
        ctx.broke("correspondence", f"verdict: model and implementation differ: {allv[i][:300]}")
    explore_loop(ctx, base)
    explore_dispatch(ctx, base / "dispatch", 4 if ctx.quick() else 150)
    explore_imported(ctx, base / "imported")


def explore_dispatch(ctx, base, n):
    """the daemon's own dispatch: one real UpdateableNode.update() over suspect copies in every wanted state (kept, removable, released)
    with intact / damaged / missing files; every suspect copy that is not released must carry the exact verdict afterwards"""
    from alpenhorn.daemon import update as U

    rng = ctx.rng
    for k in range(n):
        shutil.rmtree(base, ignore_errors=True)
        w = __import__("vf.harness.world", fromlist=["x"])
        w.fresh_db(host="h1")
        g = w.mkgroup("g")
        node = w.mknode(base, "n", g, stype=rng.choice("AF"), host="h1")
        acq = w.mkacq("acq")
        (pathlib.Path(node.root) / "acq").mkdir(exist_ok=True)
        plan = []
        for i, (wants, dmg) in enumerate([(wt, d) for wt in "YMN" for d in ("none", "flip", "delete", "directory", "link-good", "link-short", "link-dangling")]):
            content = bytes((j * 13 + i) & 0xFF for j in range(rng.choice([1, 50, 40000])))
            f = w.mkfile(acq, f"c{i}", content)
            if dmg.startswith("link-"):
                # the copy's path is a symbolic link: existence, length and digest are those of what it points to
                store = pathlib.Path(node.root) / "store"
                store.mkdir(exist_ok=True)
                tgt = store / f"t{i}"
                if dmg == "link-good":
                    tgt.write_bytes(content)
                    disk = content
                elif dmg == "link-short":
                    tgt.write_bytes(content[:-1] + b"")
                    disk = content[:-1] if len(content) > 1 else b"\x00" + content
                    tgt.write_bytes(disk)
                else:
                    disk = None
                os.symlink(tgt, pathlib.Path(node.root) / "acq" / f"c{i}")
            elif dmg == "directory":
                # something else sits at the copy's path: it exists and differs
                (pathlib.Path(node.root) / "acq" / f"c{i}").mkdir()
                (pathlib.Path(node.root) / "acq" / f"c{i}" / "inside").write_bytes(content)
                disk = b"<directory>"
            else:
                disk = damaged(rng, content, dmg)
                if disk is not None:
                    (pathlib.Path(node.root) / "acq" / f"c{i}").write_bytes(disk)
            w.mkcopy(node, f, "M", wants, size_b=len(content))
            plan.append((f"c{i}", wants, dmg, "N" if disk is None else ("Y" if disk == content else "X")))
        queue = w.StepQueue.make()
        un = U.UpdateableNode(queue, w.StorageNode.get(id=node.id))
        un.update()
        exits, aborted = w.drain_with_workers(queue)
        ctx.count("dispatch", len(plan))
        ctx.distinct_add(("dispatch", k))
        for name, wants, dmg, exp in plan:
            c = w.ArchiveFileCopy.select().join(w.ArchiveFile).where(w.ArchiveFile.name == name).get()
            want = exp if wants != "N" else "M"
            if c.has_file != want or aborted:
                ctx.fail("C03:dispatch", f"suspect copy of {name} (wants_file={wants}, file on disk: {dmg}) after one node update: recorded {c.has_file!r}, expected {want!r}"
                         + (" (released copies are not verified)" if wants == "N" else ""), {"family": "dispatch", "wants": wants, "damage": dmg, "recorded": c.has_file, "expected": want})
    shutil.rmtree(base, ignore_errors=True)


def explore_imported(ctx, base):
    """'for every size an import accepted and stored': files of many lengths are registered by the real import task, then marked suspect and
    verified by the real node update; intact ones must come out healthy, altered ones corrupt, removed ones missing, and no file is modified"""
    from alpenhorn.daemon import auto_import as AI
    from alpenhorn.daemon import update as U

    w = __import__("vf.harness.world", fromlist=["x"])
    shutil.rmtree(base, ignore_errors=True)
    w.fresh_db(host="h1")
    g = w.mkgroup("g")
    node = w.mknode(base, "n", g, stype="F", host="h1")
    root = pathlib.Path(node.root)
    (root / "acq").mkdir(exist_ok=True)
    sizes = [0, 1, 511, 512, 513, 1000, 4095, 4096, 4097, 32769, 100001]
    plan = {}
    for i, sz in enumerate(sizes):
        for dmg in ("none", "flip", "delete"):
            if sz == 0 and dmg == "flip":
                continue
            content = bytes((j * 7 + i) & 0xFF for j in range(sz))
            (root / "acq" / f"s{sz}_{dmg}").write_bytes(content)
            plan[f"s{sz}_{dmg}"] = (sz, dmg, content)
    queue = w.StepQueue.make()
    un = U.UpdateableNode(queue, w.StorageNode.get(id=node.id))
    for name in plan:
        AI.import_file(un, queue, pathlib.PurePath("acq") / name, True, None)
    exits, aborted = w.drain_with_workers(queue)
    reg = {f.name: (f.size_b, f.md5sum) for f in w.ArchiveFile.select()}
    for name, (sz, dmg, content) in plan.items():
        pth = root / "acq" / name
        if dmg == "flip":
            pth.write_bytes(content[:-1] + bytes([content[-1] ^ 0x40]))
        elif dmg == "delete":
            pth.unlink()
    w.ArchiveFileCopy.update(has_file="M").execute()
    before = {name: ((root / "acq" / name).read_bytes() if (root / "acq" / name).exists() else None) for name in plan}
    un = U.UpdateableNode(queue, w.StorageNode.get(id=node.id))
    un.update()
    exits2, aborted2 = w.drain_with_workers(queue)
    for name, (sz, dmg, content) in plan.items():
        ctx.count("imported-then-verified")
        ctx.distinct_add(("imported", sz, dmg))
        c = w.ArchiveFileCopy.select().join(w.ArchiveFile).where(w.ArchiveFile.name == name).get_or_none()
        exp = {"none": "Y", "flip": "X", "delete": "N"}[dmg]
        rp = {"family": "imported-then-verified", "size": sz, "damage": dmg, "registered": reg.get(name), "recorded": c and c.has_file, "expected": exp}
        if c is None or aborted or aborted2:
            ctx.fail("C03:imported", f"the {sz}-byte file {name} was not imported (abort={aborted or aborted2})", rp)
        elif c.has_file != exp:
            ctx.fail("C03:imported", f"a {sz}-byte file imported as {reg.get(name)} and then left {'intact' if dmg == 'none' else dmg} was judged {c.has_file!r}, expected {exp!r}", rp)
        now = (root / "acq" / name).read_bytes() if (root / "acq" / name).exists() else None
        if now != before[name]:
            ctx.fail("C03:file-modified", f"verification changed the {sz}-byte file {name}", rp)
    shutil.rmtree(base, ignore_errors=True)


def search(ctx):
    wd = World(ctx.tmp() / "search")
    explore_digests(ctx, wd, 4000)
    if not ctx.failing:
        explore_checks(ctx, wd, [0, 1, 2, 100, 32768], 200)


def replay(ctx, rp):
    r = rp["replay"]
    wd = World(ctx.tmp())
    if r.get("family") == "digest":
        stored, name = run_cli_digest(ctx, wd, r["typed"], r["via"])
        print("typed", repr(r["typed"]), "stored", repr(stored))
        if stored is not None:
            got, _, _ = check_copy(wd, name, b"abc")
            print("file b'abc' (md5 900150983cd24fb0d6963f7d28e17f72) judged", got)
            val = digest_value(r["typed"])
            return 0 if val is not None and got == ("Y" if val == int(hashlib.md5(b"abc").hexdigest(), 16) else "X") else 1
        return 0 if digest_value(r["typed"]) is None else 1
    print("re-run ./check C03 with VERIF_SEED=%s" % rp.get("seed"))
    return 2
