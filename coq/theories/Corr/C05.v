(* Correspondence for C05 (transport groups): the node the real pull_force handed the request to *)
From Coq Require Import List NArith ZArith Bool.
From Alp Require Import Base.Str Base.Types Model.Transport.
Import ListNotations.
Definition TN (i : N) (a : option Z) (um om f : bool) : tnode := {| t_id := i; t_avail := a; t_under_min := um; t_over_max := om; t_fits := f |}.
Definition case := (bool * list tnode * option N)%type.
Definition check (c : case) : bool := let '(local, nodes, got) := c in optN_eqb (choose local nodes) got.
