(* C16: how the autosync / autoclean rules are configured (CLI `group autosync GROUP NODE [--remove]`, `node autoclean NODE GROUP
   [--remove]`): the StorageTransferAction table as a list of rows, one command = one step.  No proofs here. *)
From Coq Require Import List NArith Bool.
Import ListNotations.
Open Scope N_scope.

Record rule := { r_node : N; r_group : N; r_sync : bool; r_clean : bool }.
Definition table := list rule.
Inductive flag := FSync | FClean.
Definition get_flag (f : flag) (r : rule) : bool := match f with FSync => r_sync r | FClean => r_clean r end.
Definition set_flag (f : flag) (b : bool) (r : rule) : rule :=
  match f with
  | FSync => {| r_node := r_node r; r_group := r_group r; r_sync := b; r_clean := r_clean r |}
  | FClean => {| r_node := r_node r; r_group := r_group r; r_sync := r_sync r; r_clean := b |}
  end.
Definition is_row (n g : N) (r : rule) : bool := N.eqb (r_node r) n && N.eqb (r_group r) g.
(* StorageTransferAction.get(node_from=node, group_to=group): the first matching row *)
Fixpoint lookup (n g : N) (t : table) : option rule :=
  match t with [] => None | r :: t' => if is_row n g r then Some r else lookup n g t' end.
(* the flag post_add reads for (node, group): absent row = off *)
Definition eff (f : flag) (n g : N) (t : table) : bool := match lookup n g t with Some r => get_flag f r | None => false end.
(* UPDATE ... WHERE id == action.id: the row that was looked up, and only that one *)
Fixpoint update_first (n g : N) (f : flag) (b : bool) (t : table) : table :=
  match t with [] => [] | r :: t' => if is_row n g r then set_flag f b r :: t' else r :: update_first n g f b t' end.
Definition new_row (n g : N) (f : flag) : rule :=
  match f with FSync => {| r_node := n; r_group := g; r_sync := true; r_clean := false |}
             | FClean => {| r_node := n; r_group := g; r_sync := false; r_clean := true |} end.

Inductive outcome := Refused | NoChange | Changed.
Record cmd := { c_flag : flag; c_node : N; c_group : N; c_enable : bool }.
(* group_of n: the group node n belongs to *)
Definition step (group_of : N -> N) (t : table) (c : cmd) : table * outcome :=
  let n := c_node c in let g := c_group c in let f := c_flag c in
  if c_enable c && N.eqb (group_of n) g then (t, Refused)              (* no rule from a node into its own group *)
  else match lookup n g t with
       | Some r => if Bool.eqb (get_flag f r) (c_enable c) then (t, NoChange) else (update_first n g f (c_enable c) t, Changed)
       | None => if c_enable c then (t ++ [new_row n g f], Changed) else (t, NoChange)
       end.
Definition run (group_of : N -> N) (cs : list cmd) (t : table) : table := fold_left (fun t c => fst (step group_of t c)) cs t.
