(* Correspondence for C03 *)
From Coq Require Import List NArith ZArith Bool Arith.
From Alp Require Import Base.Str Base.Types Model.Md5 Model.Check.
Import ListNotations.
Definition opthas_eqb (a b : option has) : bool :=
  match a, b with None, None => true | Some x, Some y => has_eqb x y | _, _ => false end.
(* (exists, stat ok, size on disk, digest of the bytes on disk, registered size, registered digest, recorded verdict) *)
Definition vcase := (bool * bool * Z * option str * option Z * option str * option has)%type.
Definition vcheck (c : vcase) : bool :=
  let '(e, so, sz, dm, rs, rm, v) := c in opthas_eqb (verdict e so sz dm rs rm) v.
(* (digest as typed, digest as stored or None when the CLI refused) *)
Definition acase := (str * option str)%type.
Definition acheck (c : acase) : bool := optstr_eqb (accept_md5 (fst c)) (snd c).
(* (block size, blocks per chunk, content length, lengths of the blocks the implementation fed to update) *)
Definition lcase := (nat * nat * N * list N)%type.
Definition lcheck (c : lcase) : bool :=
  let '(bs, bpc, n, lens) := c in
  list_eqb N.eqb (map (fun b => N.of_nat (length b)) (blocks_fed bs bpc (repeat 0%N (N.to_nat n)))) lens.
