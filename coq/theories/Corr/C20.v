(* Correspondence for C20: the implementation's answers on the same inputs *)
From Coq Require Import List NArith ZArith Bool.
From Alp Require Import Base.Str Base.Types Model.Hsm.
Import ListNotations.
Definition ohsm_eqb (a b : option hsm) : bool := match a, b with Some x, Some y => hsm_eqb x y | None, None => true | _, _ => false end.
Definition rr_eqb (a b : rr) : bool := match a, b with RFalse, RFalse | RNone, RNone | RTrue, RTrue => true | _, _ => false end.
Definition ret_eqb (a b : ret) : bool := match a, b with WaitMore, WaitMore | Ready, Ready | Failed, Failed | KeyErr, KeyErr => true | _, _ => false end.
Fixpoint insert (x : N) (l : list N) : list N := match l with [] => [x] | y :: l' => if N.leb x y then x :: l else y :: insert x l' end.
Definition sort (l : list N) : list N := fold_right insert [] l.
Definition RC (i : N) (sz : Z) (h r : bool) (st : option hsm) : rcand := {| rc_id := i; rc_size := sz; rc_healthy := h; rc_ready := r; rc_state := st |}.
Definition K (i : N) (st : option hsm) (res : rr) : call := {| k_id := i; k_now := 0; k_state := st; k_res := res |}.

Fixpoint wait_trace (b : bk) (cs : list call) : list (ret * list N * list N) :=
  match cs with
  | [] => []
  | c :: cs' => let b' := do_call b c in (answer b c, sort (restoring b'), sort (map fst (start b'))) :: wait_trace b' cs'
  end.
Definition obs_eqb (a b : ret * list N * list N) : bool :=
  let '(r1, s1, d1) := a in let '(r2, s2, d2) := b in ret_eqb r1 r2 && list_eqb N.eqb s1 s2 && list_eqb N.eqb d1 d2.

Inductive case :=
| CParse (path : str) (rs ra : option Z * str * str) (got : option hsm)
| CRestore (st : option hsm) (r : option Z * str * str) (got : rr)
| CWait (steps : list call) (got : list (ret * list N * list N))
| CRelease (avail : option Z) (headroom : Z) (cands : list rcand) (got : list N)
| CIdle (rows : list (option hsm * bool)) (got : list (bool * bool))
| COpen (st : option hsm) (opened : bool).

Definition idle_expected (row : option hsm * bool) : bool * bool :=
  match idle_align (fst row) (snd row) with Some p => p | None => (false, snd row) end.
Definition bb_eqb (a b : bool * bool) : bool := Bool.eqb (fst a) (fst b) && Bool.eqb (snd a) (snd b).
Definition check (c : case) : bool :=
  match c with
  | CParse path rs ra got => ohsm_eqb (lfs_hsm_state path (run_lfs rs) (run_lfs ra)) got
  | CRestore st r got => rr_eqb (lfs_hsm_restore st (run_lfs r)) got
  | CWait steps got => list_eqb obs_eqb (wait_trace empty_bk steps) got
  | CRelease avail headroom cands got => list_eqb N.eqb (release_files avail headroom cands) got
  | CIdle rows got => list_eqb bb_eqb (map idle_expected rows) got
  | COpen st opened => Bool.eqb (may_open st) opened
  end.
