(* C16 — Autosync and autoclean rules fire exactly as configured. *)
From Coq Require Import List NArith ZArith Bool.
From Alp Require Import Base.Str Base.Types Model.PostAdd Proofs.PostAddProofs.
Import ListNotations.

(* For all rule graphs, copy tables and existing requests: the requests after post_add are the old ones followed by
   exactly one new request (f, n, g) per rule n -> g that is autosync, leaves n's group and whose group g has no healthy copy *)
Theorem C16_requests_exact : forall groups rules n f cs rs,
  snd (post_add groups rules n f cs rs) =
    rs ++ map (fun u => {| r_file := f; r_from := n; r_to := u_to u |}) (filter (sync_edge groups cs n f) rules).
Proof. exact requests_exact. Qed.
Print Assumptions C16_requests_exact.
Theorem C16_sync_edge_iff : forall groups cs n f u, sync_edge groups cs n f u = true <->
  u_from u = n /\ u_to u <> group_of groups n /\ u_sync u = true /\ state_on_group groups cs (u_to u) f <> HY.
Proof. exact sync_edge_iff. Qed.
Print Assumptions C16_sync_edge_iff.

(* every copy is left unchanged except those released, which only have wants := N *)
Theorem C16_copies_exact : forall groups rules n f cs rs,
  Forall2 (fun c c' => (released groups rules n f c = false -> c' = c) /\ (released groups rules n f c = true -> c' = release c))
          cs (fst (post_add groups rules n f cs rs)).
Proof. exact copies_exact. Qed.
Print Assumptions C16_copies_exact.
(* ... and a copy is released exactly when it is a healthy, wanted copy of the file on the source node of an
   autoclean rule into the receiving group whose source is outside that group *)
Theorem C16_released_iff : forall groups rules n f c, released groups rules n f c = true <->
  c_file c = f /\ c_has c = HY /\ c_wants c = WY /\
  exists u, In u rules /\ u_clean u = true /\ u_to u = group_of groups n /\ u_from u = c_node c /\ c_node c <> n /\
            group_of groups (c_node c) <> group_of groups n.
Proof. exact released_iff. Qed.
Print Assumptions C16_released_iff.

(* self-loops are ignored by both halves *)
Theorem C16_self_loop_never_syncs : forall groups cs n f u, group_of groups (u_from u) = u_to u -> sync_edge groups cs n f u = false.
Proof. exact self_loop_never_syncs. Qed.
Print Assumptions C16_self_loop_never_syncs.
Theorem C16_self_loop_never_cleans : forall groups n u, group_of groups (u_from u) = u_to u -> clean_edge groups n u = false.
Proof. exact self_loop_never_cleans. Qed.
Print Assumptions C16_self_loop_never_cleans.

(* "lacks a healthy copy": a group's state is Y iff some copy of the file in the group is healthy, N iff all are absent *)
Theorem C16_state_priority : forall groups cs g f,
  let st := state_on_group groups cs g f in
  (st = HY <-> exists c, In c cs /\ in_group groups g f c = true /\ c_has c = HY) /\
  (st = HN <-> forall c, In c cs -> in_group groups g f c = true -> c_has c = HN).
Proof. exact state_priority. Qed.
Print Assumptions C16_state_priority.

Example C16_example :
  map c_wants (fst (post_add ex_groups ex_rules 1 7 ex_copies [])) = [WY; WY; WN; WY] /\
  snd (post_add ex_groups ex_rules 1 7 ex_copies []) = [].
Proof. exact example_post_add. Qed.

(* ---- "exactly as configured": how the rule table comes about (Model/Rules.v: `group autosync` / `node autoclean`, with --remove) ---- *)
From Alp Require Model.Rules Proofs.RulesProofs.
(* one command leaves every flag it does not name --- the other flag of the same rule, and both flags of every other (node, group)
   pair, in particular the same node's rules towards other groups --- exactly as it was *)
Theorem C16_configuring_one_rule_leaves_the_others : forall group_of t c f n g,
  RulesProofs.same_target c f n g = false -> Rules.eff f n g (fst (Rules.step group_of t c)) = Rules.eff f n g t.
Proof. exact RulesProofs.step_frame. Qed.
Print Assumptions C16_configuring_one_rule_leaves_the_others.
Theorem C16_unaddressed_flags_keep_their_value : forall group_of cs t f n g,
  forallb (fun c => negb (RulesProofs.same_target c f n g)) cs = true -> Rules.eff f n g (Rules.run group_of cs t) = Rules.eff f n g t.
Proof. exact RulesProofs.run_frame. Qed.
Print Assumptions C16_unaddressed_flags_keep_their_value.
(* an accepted command sets the flag it names; a refused one (switching on a rule from a node into its own group) changes nothing *)
Theorem C16_accepted_command_takes_effect : forall group_of t c,
  snd (Rules.step group_of t c) <> Rules.Refused -> Rules.eff (Rules.c_flag c) (Rules.c_node c) (Rules.c_group c) (fst (Rules.step group_of t c)) = Rules.c_enable c.
Proof. exact RulesProofs.step_own. Qed.
Print Assumptions C16_accepted_command_takes_effect.
Theorem C16_refused_command_changes_nothing : forall group_of t c, snd (Rules.step group_of t c) = Rules.Refused ->
  fst (Rules.step group_of t c) = t /\ Rules.c_enable c = true /\ group_of (Rules.c_node c) = Rules.c_group c.
Proof. exact RulesProofs.step_refused. Qed.
Print Assumptions C16_refused_command_changes_nothing.
(* a rule from a node into its own group (a self-loop) is never switched on by these commands *)
Theorem C16_no_self_loop_configured : forall group_of c t, group_of (Rules.c_node c) = Rules.c_group c ->
  Rules.eff (Rules.c_flag c) (Rules.c_node c) (Rules.c_group c) t = false ->
  Rules.eff (Rules.c_flag c) (Rules.c_node c) (Rules.c_group c) (fst (Rules.step group_of t c)) = false.
Proof. exact RulesProofs.no_self_loop. Qed.
Print Assumptions C16_no_self_loop_configured.
Example C16_rules_example :
  let go := fun n : N => n in
  let cs := [ {| Rules.c_flag := Rules.FSync; Rules.c_node := 1; Rules.c_group := 2; Rules.c_enable := true |};
              {| Rules.c_flag := Rules.FSync; Rules.c_node := 1; Rules.c_group := 3; Rules.c_enable := true |};
              {| Rules.c_flag := Rules.FClean; Rules.c_node := 1; Rules.c_group := 3; Rules.c_enable := true |} ]%N in
  Rules.eff Rules.FClean 1 2 (Rules.run go cs []) = false /\ Rules.eff Rules.FClean 1 3 (Rules.run go cs []) = true /\ Rules.eff Rules.FSync 1 2 (Rules.run go cs []) = true.
Proof. vm_compute. repeat split. Qed.
