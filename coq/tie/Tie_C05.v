From Coq Require Import List NArith ZArith Bool.
From Alp Require Import Base.Str Base.Types Model.Transport.
From Run Require Gen_transport.
Lemma tie_eligible n : eligible n =
  negb (Gen_transport.g_skip_under_min (t_under_min n)) && negb (Gen_transport.g_skip_over_max (t_over_max n)) && negb (Gen_transport.g_skip_no_room (t_fits n)).
Proof. unfold eligible, Gen_transport.g_skip_under_min, Gen_transport.g_skip_over_max, Gen_transport.g_skip_no_room. destruct (t_under_min n), (t_over_max n), (t_fits n); reflexivity. Qed.
Lemma tie_local l nodes : Gen_transport.g_not_local l = true -> choose l nodes = None.
Proof. unfold Gen_transport.g_not_local. destruct l; [discriminate | reflexivity]. Qed.
