(* C09: ioutil.remove_filedir as a walk up a chain of directories, and its retry after a kill.
   A chain lists the directories from the innermost (the deleted file's parent) to the outermost (just below the node root).
   Each level: is the directory there, and does it hold anything besides the next inner directory of the chain.
   rmdir fails with ENOENT on a missing directory (the walk goes on: an earlier, interrupted run may have removed it), with ENOTEMPTY on a
   non-empty one (the walk stops), and otherwise removes it.  No proofs here. *)
From Coq Require Import List Bool Arith.
Import ListNotations.

Record lvl := { present : bool; others : bool }.
Definition dir_gone : lvl := {| present := false; others := false |}.

(* [inner]: is the next inner directory of the chain (still) there *)
Fixpoint walk (inner : bool) (l : list lvl) : list lvl :=
  match l with
  | [] => []
  | d :: up =>
      if negb (present d) then d :: walk false up                  (* ENOENT: pass *)
      else if others d || inner then d :: up                        (* ENOTEMPTY: break *)
      else dir_gone :: walk false up                                    (* removed *)
  end.

(* the same walk killed after [k] successful rmdirs *)
Fixpoint walk_k (k : nat) (inner : bool) (l : list lvl) : list lvl :=
  match l with
  | [] => []
  | d :: up =>
      if negb (present d) then d :: walk_k k false up
      else if others d || inner then d :: up
      else match k with O => d :: up | S k' => dir_gone :: walk_k k' false up end
  end.

(* a directory that is missing holds nothing: every level inside a missing level is missing too (innermost first: once a level is
   present, all outer levels are present) *)
Fixpoint wf (l : list lvl) : bool :=
  match l with
  | [] => true
  | d :: up => (if present d then forallb present up else negb (others d)) && wf up
  end.

(* the walk of the unrepaired variant that stops at the first missing directory *)
Fixpoint walk_stop (inner : bool) (l : list lvl) : list lvl :=
  match l with
  | [] => []
  | d :: up =>
      if negb (present d) then d :: up
      else if others d || inner then d :: up
      else dir_gone :: walk_stop false up
  end.
