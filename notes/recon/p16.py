import sys; sys.path.insert(0,"/repo")
from unittest.mock import patch
import shutil
from alpenhorn.io import lfs as L
from alpenhorn.common import util
def fake_run(state):
    def run(cmd, timeout=None, **kw):
        sub, path = cmd[1], cmd[-1]
        if sub == "hsm_state":
            words = {"released": "(0x0000000d) released exists archived, archive_id:1", "restored": "(0x00000009) exists archived, archive_id:1", "unarchived": "(0x00000000)"}[state]
            return 0, f"{path}: {words}\n", ""
        if sub == "hsm_action": return 0, f"{path}: NOOP\n", ""
        return 0, "", ""
    return run
with patch("shutil.which", lambda *a, **k: "/usr/bin/lfs"):
    l = L.LFS("grp", "group")
for path in ["/lustre/data/f", "/lustre/RESTORE_2024/f", "/lustre/archived/f", "/lustre/released/f", "/lustre/x: (0x0) released archived/f"]:
    for st in ("released", "restored", "unarchived"):
        with patch("alpenhorn.common.util.run_command", fake_run(st)):
            print(f"{path!r:45s} true={st:10s} parsed={l.hsm_state(path)}")
