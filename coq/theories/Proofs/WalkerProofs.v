From Coq Require Import List NArith ZArith Bool Lia Arith Sorted.
From Alp Require Import Model.Walker.
Import ListNotations.
Open Scope N_scope.

Definition sorted := StronglySorted N.lt.

Lemma filter_all {A} (p : A -> bool) l : (forall x, In x l -> p x = true) -> filter p l = l.
Proof. induction l as [|a l IH]; cbn; intros H; [reflexivity|]. rewrite H by (left; reflexivity). f_equal. apply IH. intros; apply H; right; assumption. Qed.
Lemma filter_none {A} (p : A -> bool) l : (forall x, In x l -> p x = false) -> filter p l = [].
Proof. induction l as [|a l IH]; cbn; intros H; [reflexivity|]. rewrite H by (left; reflexivity). apply IH. intros; apply H; right; assumption. Qed.

Lemma sorted_app_inv l1 l2 : sorted (l1 ++ l2) -> sorted l1 /\ sorted l2 /\ (forall a b, In a l1 -> In b l2 -> a < b).
Proof.
  induction l1 as [|x l1 IH]; cbn; intros S.
  - repeat split; [constructor | exact S | intros a b []].
  - inversion S as [|? ? S' F]; subst. destruct (IH S') as (S1 & S2 & O).
    rewrite Forall_app in F. destruct F as [F1 F2]. repeat split.
    + constructor; assumption.
    + exact S2.
    + intros a b [<-|Ha] Hb; [rewrite Forall_forall in F2; apply F2, Hb | apply O; assumption].
Qed.

Lemma ge_after P y S : sorted (P ++ y :: S) -> ge (1 + y) (P ++ y :: S) = S.
Proof.
  intros H. apply sorted_app_inv in H as (SP & SyS & O). inversion SyS as [|? ? SS F]; subst.
  unfold ge. rewrite filter_app. cbn [filter].
  rewrite (filter_none _ P) by (intros x Hx; specialize (O x y Hx (or_introl eq_refl)); apply N.leb_gt; lia).
  destruct (N.leb_spec (1 + y) y); [lia|]. cbn [app].
  apply filter_all. intros x Hx. rewrite Forall_forall in F. specialize (F x Hx). apply N.leb_le. lia.
Qed.
Lemma lt_upto P y S : sorted (P ++ y :: S) -> lt (1 + y) (P ++ y :: S) = P ++ [y].
Proof.
  intros H. apply sorted_app_inv in H as (SP & SyS & O). inversion SyS as [|? ? SS F]; subst.
  unfold lt. rewrite filter_app. cbn [filter].
  rewrite (filter_all _ P) by (intros x Hx; specialize (O x y Hx (or_introl eq_refl)); apply N.ltb_lt; lia).
  destruct (N.ltb_spec y (1 + y)); [|lia].
  rewrite (filter_none _ S); [reflexivity|]. intros x Hx. rewrite Forall_forall in F. specialize (F x Hx). apply N.ltb_ge. lia.
Qed.

Lemma sorted_split cur l : sorted l -> l = lt cur l ++ ge cur l.
Proof.
  intros S. induction S as [|x l S IH Hx]; [reflexivity|].
  unfold lt, ge in *. cbn [filter]. rewrite Forall_forall in Hx.
  destruct (N.ltb_spec x cur) as [Hlt|Hge].
  - destruct (N.leb_spec cur x); [lia|]. cbn [app]. f_equal. exact IH.
  - destruct (N.leb_spec cur x); [|lia].
    rewrite (filter_none (fun i => i <? cur) l) by (intros y Hy; specialize (Hx y Hy); apply N.ltb_ge; lia).
    rewrite (filter_all (fun i => cur <=? i) l) by (intros y Hy; specialize (Hx y Hy); apply N.leb_le; lia).
    reflexivity.
Qed.

Lemma turn_length cur l : length (turn cur l) = length l.
Proof.
  unfold turn, ge, lt. rewrite app_length. induction l as [|x l IH]; [reflexivity|]. cbn [filter].
  destruct (N.leb_spec cur x), (N.ltb_spec x cur); cbn [length]; lia.
Qed.
Lemma turn_in cur l x : In x (turn cur l) <-> In x l.
Proof.
  unfold turn, ge, lt. rewrite in_app_iff, !filter_In. split.
  - intros [[H _]|[H _]]; exact H.
  - intros H. destruct (N.leb_spec cur x); [left | right]; split; auto. apply N.ltb_lt; lia.
Qed.

Lemma rotate_in_B A B n y :
  sorted (A ++ B) ->
  (1 <= n <= length B)%nat -> nth_error B (n - 1) = Some y ->
  turn (1 + y) (A ++ B) = skipn n (B ++ A) ++ firstn n (B ++ A).
Proof.
  intros HS Hn Hy.
  assert (HB : B = firstn (n - 1) B ++ y :: skipn n B).
  { rewrite <- (firstn_skipn (n - 1) B) at 1. f_equal.
    replace n with (Datatypes.S (n - 1))%nat at 2 by lia.
    clear - Hy. revert B Hy. induction (n - 1)%nat as [|m IH]; intros [|b B] Hy; cbn in *; try discriminate.
    - injection Hy as ->. reflexivity.
    - apply IH, Hy. }
  set (P := firstn (n - 1) B) in *. set (T := skipn n B) in *.
  assert (E : A ++ B = (A ++ P) ++ y :: T) by (rewrite HB at 1; rewrite app_assoc; reflexivity).
  unfold turn. rewrite E. rewrite E in HS. rewrite ge_after, lt_upto by exact HS.
  assert (LP : length P = (n - 1)%nat) by (unfold P; rewrite firstn_length; lia).
  rewrite skipn_app, firstn_app.
  replace (n - length B)%nat with 0%nat by lia. cbn [skipn firstn]. rewrite app_nil_r.
  fold T.
  assert (FB : firstn n B = P ++ [y]).
  { rewrite HB at 1. rewrite firstn_app, LP. replace (n - (n - 1))%nat with 1%nat by lia.
    rewrite (firstn_all2 P) by lia. reflexivity. }
  rewrite FB, <- !app_assoc. reflexivity.
Qed.

Lemma nth_split (L : list N) m y : nth_error L m = Some y -> L = firstn m L ++ y :: skipn (Datatypes.S m) L.
Proof.
  revert L; induction m as [|m IH]; intros [|b L] Hy; cbn in *; try discriminate.
  - injection Hy as ->. reflexivity.
  - f_equal. apply IH, Hy.
Qed.

Lemma rotate_in_A A B r y :
  sorted (A ++ B) ->
  (1 <= r <= length A)%nat -> nth_error A (r - 1) = Some y ->
  turn (1 + y) (A ++ B) = skipn (length B + r) (B ++ A) ++ firstn (length B + r) (B ++ A).
Proof.
  intros HS Hr Hy.
  pose proof (nth_split A (r - 1) y Hy) as HA. replace (Datatypes.S (r - 1)) with r in HA by lia.
  set (P := firstn (r - 1) A) in *. set (T := skipn r A) in *.
  assert (E : A ++ B = P ++ y :: (T ++ B)) by (rewrite HA at 1; rewrite <- app_assoc; reflexivity).
  unfold turn. rewrite E. rewrite E in HS. rewrite ge_after, lt_upto by exact HS.
  assert (LP : length P = (r - 1)%nat) by (unfold P; rewrite firstn_length; lia).
  rewrite skipn_app, firstn_app.
  rewrite (skipn_all2 B) by lia. rewrite (firstn_all2 B) by lia.
  replace (length B + r - length B)%nat with r by lia. cbn [app]. fold T.
  assert (FA : firstn r A = P ++ [y]).
  { rewrite HA at 1. rewrite firstn_app, LP. replace (r - (r - 1))%nat with 1%nat by lia.
    rewrite (firstn_all2 P) by lia. reflexivity. }
  rewrite FA, <- !app_assoc. reflexivity.
Qed.

(* the turn that starts just after the n-th id of the current turn is the current turn rotated by n *)
Lemma turn_rotates l cur n y :
  sorted l -> (1 <= n <= length l)%nat -> nth_error (turn cur l) (n - 1) = Some y ->
  turn (1 + y) l = skipn n (turn cur l) ++ firstn n (turn cur l).
Proof.
  intros HS Hn Hy.
  pose proof (sorted_split cur l HS) as E. set (A := lt cur l) in *. set (B := ge cur l) in *.
  assert (HS' : sorted (A ++ B)) by (rewrite <- E; exact HS).
  assert (T : turn cur l = B ++ A) by reflexivity.
  rewrite T in Hy |- *. clear T.
  replace (turn (1 + y) l) with (turn (1 + y) (A ++ B)) by (rewrite <- E; reflexivity).
  destruct (Nat.le_gt_cases n (length B)) as [Le|Gt].
  - apply rotate_in_B; try assumption; [lia|]. rewrite nth_error_app1 in Hy by lia. exact Hy.
  - rewrite nth_error_app2 in Hy by lia.
    assert (LA : (length A + length B = length l)%nat) by (rewrite <- app_length; f_equal; symmetry; exact E).
    replace n with (length B + (n - length B))%nat by lia.
    apply rotate_in_A; try assumption; [lia|].
    replace (n - length B - 1)%nat with (n - 1 - length B)%nat by lia. exact Hy.
Qed.

(* ---- what one call returns ---- *)
Lemma wrap_length fuel need l : l <> [] -> (need <= fuel)%nat -> length (wrap fuel need l) = need.
Proof.
  intros Hl. revert need; induction fuel as [|f IH]; intros need Hn; cbn [wrap].
  - cbn. lia.
  - destruct need as [|m]; [reflexivity|]. rewrite app_length, firstn_length.
    assert (1 <= length l)%nat by (destruct l; [congruence | cbn; lia]).
    rewrite IH by lia. lia.
Qed.

Lemma get_none l cur n : get l cur n = None <-> l = [].
Proof. unfold get. destruct l; split; congruence. Qed.

Lemma get_length l cur n items cur' : get l cur n = Some (items, cur') -> length items = n.
Proof.
  unfold get. destruct l as [|a l]; [discriminate|]. intros H; injection H as <- _.
  rewrite app_length, wrap_length by (try discriminate; lia). rewrite firstn_length. lia.
Qed.

Lemma get_cursor l cur n items cur' : get l cur n = Some (items, cur') -> cur' = 1 + last items 0.
Proof. unfold get. destruct l; [discriminate|]. intros H; injection H as <- <-. reflexivity. Qed.

(* n <= table size: exactly the first n ids of the turn, no duplicates, one wrap at most *)
Lemma get_small l cur n items cur' :
  sorted l -> (n <= length l)%nat -> get l cur n = Some (items, cur') -> items = firstn n (turn cur l).
Proof.
  intros HS Hn. unfold get. destruct l as [|a l0] eqn:El; [discriminate|]. rewrite <- El in *.
  intros H; injection H as <- _. clear El a l0.
  pose proof (sorted_split cur l HS) as E.
  assert (LL : (length (lt cur l) + length (ge cur l) = length l)%nat) by (rewrite <- app_length, <- E; reflexivity).
  unfold turn. rewrite firstn_app. f_equal.
  rewrite firstn_length.
  destruct (Nat.le_gt_cases n (length (ge cur l))) as [Le|Gt].
  - replace (n - Nat.min n (length (ge cur l)))%nat with 0%nat by lia.
    replace (n - length (ge cur l))%nat with 0%nat by lia. reflexivity.
  - replace (Nat.min n (length (ge cur l))) with (length (ge cur l)) by lia.
    set (m := (n - length (ge cur l))%nat). assert (1 <= m <= length (lt cur l))%nat by lia.
    destruct m as [|m'] eqn:Em; [lia|]. cbn [wrap].
    rewrite E at 1 2. rewrite firstn_app. replace (S m' - length (lt cur l))%nat with 0%nat by lia.
    rewrite firstn_O, app_nil_r. rewrite firstn_length.
    replace (S m' - Nat.min (S m') (length (lt cur l)))%nat with 0%nat by lia.
    destruct m'; cbn [wrap]; rewrite ?app_nil_r; reflexivity.
Qed.

(* n > table size: the whole turn comes first (then the walk goes round again) *)
Lemma get_big l cur n items cur' :
  sorted l -> (length l < n)%nat -> get l cur n = Some (items, cur') -> exists more, items = turn cur l ++ more.
Proof.
  intros HS Hn. unfold get. destruct l as [|a l0] eqn:El; [discriminate|]. rewrite <- El in *.
  intros H; injection H as <- _. clear El a l0.
  pose proof (sorted_split cur l HS) as E.
  assert (LL : (length (lt cur l) + length (ge cur l) = length l)%nat) by (rewrite <- app_length, <- E; reflexivity).
  rewrite firstn_all2 by lia. unfold turn.
  set (m := (n - length (ge cur l))%nat). assert (length (lt cur l) < m)%nat by lia.
  destruct m as [|m'] eqn:Em; [lia|]. cbn [wrap].
  set (L := lt cur l) in *. set (G := ge cur l) in *.
  assert (F : firstn (S m') l = L ++ firstn (S m' - length L) G).
  { rewrite E. rewrite firstn_app. rewrite (firstn_all2 L) by lia. reflexivity. }
  rewrite F. eexists. rewrite <- !app_assoc. reflexivity.
Qed.

(* ---- index_of ---- *)
Lemma index_of_lt x l : In x l -> (index_of x l < length l)%nat.
Proof. induction l as [|y l IH]; cbn; [intros []|]. intros H. destruct (N.eqb_spec x y); [lia|]. destruct H; [congruence|]. specialize (IH H). lia. Qed.
Lemma index_of_nth x l : In x l -> nth_error l (index_of x l) = Some x.
Proof. induction l as [|y l IH]; cbn; [intros []|]. intros H. destruct (N.eqb_spec x y); [subst; reflexivity|]. destruct H; [congruence|]. cbn. auto. Qed.
Lemma mem_in x l : mem x l = true <-> In x l.
Proof. induction l as [|y l IH]; cbn; [split; [discriminate | intros []]|]. rewrite orb_true_iff, N.eqb_eq, IH. split; intros [H|H]; auto. Qed.
Lemma in_firstn_index x l n : In x l -> (index_of x l < n)%nat -> In x (firstn n l).
Proof.
  revert n; induction l as [|y l IH]; cbn; intros n H Hn; [destruct H|].
  destruct n; [lia|]. cbn. destruct (N.eqb_spec x y); [left; congruence|]. right. destruct H; [congruence|]. apply IH; [assumption | lia].
Qed.
Lemma index_split x l : In x l -> exists A B, l = A ++ x :: B /\ ~ In x A /\ index_of x l = length A.
Proof.
  induction l as [|y l IH]; cbn; [intros []|]. intros H. destruct (N.eqb_spec x y) as [->|Ne].
  - exists [], l. repeat split; auto.
  - destruct H as [?|H]; [congruence|]. destruct (IH H) as (A & B & -> & HA & E).
    exists (y :: A), B. repeat split; [| cbn; rewrite E; reflexivity]. intros [?|?]; [congruence | tauto].
Qed.
Lemma index_of_app_notin x P Q : ~ In x P -> index_of x (P ++ x :: Q) = length P.
Proof.
  induction P as [|y P IH]; cbn; intros H; [rewrite N.eqb_refl; reflexivity|].
  destruct (N.eqb_spec x y); [subst; tauto|]. f_equal. apply IH. tauto.
Qed.
Lemma in_skipn {A} (x : A) n l : In x (skipn n l) -> In x l.
Proof. revert l; induction n; intros l; [exact (fun H => H)|]. destruct l; cbn; [tauto|]. intros H; right; apply IHn, H. Qed.
Lemma index_of_rotate x l n : In x l -> (n <= index_of x l)%nat ->
  index_of x (skipn n l ++ firstn n l) = (index_of x l - n)%nat.
Proof.
  intros H Hn. destruct (index_split x l H) as (A & B & -> & HA & E). rewrite E in *.
  rewrite skipn_app, firstn_app. replace (n - length A)%nat with 0%nat by lia. cbn [skipn firstn].
  rewrite app_nil_r, <- app_assoc. cbn [app]. rewrite index_of_app_notin.
  - rewrite skipn_length. reflexivity.
  - intros Hin. apply HA. eapply in_skipn, Hin.
Qed.

(* ---- one call: either x is returned, or the walk is k rows closer to x ---- *)
Lemma one_call l cur k x items cur' :
  sorted l -> In x l -> (1 <= k)%nat -> get l cur k = Some (items, cur') ->
  ((pos cur x l < k)%nat -> In x items) /\
  ((k <= pos cur x l)%nat -> pos cur' x l = (pos cur x l - k)%nat).
Proof.
  intros HS Hx Hk Hg. unfold pos.
  assert (HxT : In x (turn cur l)) by (apply turn_in; exact Hx).
  pose proof (index_of_lt _ _ HxT) as Hlt. rewrite turn_length in Hlt.
  split.
  - intros Hp. destruct (Nat.le_gt_cases k (length l)) as [Le|Gt].
    + rewrite (get_small _ _ _ _ _ HS Le Hg). apply in_firstn_index; assumption.
    + destruct (get_big _ _ _ _ _ HS Gt Hg) as [more ->]. apply in_or_app; left; exact HxT.
  - intros Hp. assert (Le : (k <= length l)%nat) by lia.
    pose proof (get_small _ _ _ _ _ HS Le Hg) as Hi.
    pose proof (get_cursor _ _ _ _ _ Hg) as Hc.
    assert (Hy : nth_error (turn cur l) (k - 1) = Some (last items 0)).
    { rewrite Hi. clear - Le Hk. pose proof (turn_length cur l) as TL. revert TL Le Hk.
      generalize (turn cur l) as T. intros T TL Le Hk.
      assert (Hk' : (1 <= k <= length T)%nat) by lia. clear - Hk'. revert k Hk'.
      induction T as [|a T IH]; intros k Hk; cbn in Hk; [lia|].
      destruct k as [|[|k]]; [lia | reflexivity |].
      replace (S (S k) - 1)%nat with (S k) by lia. cbn [nth_error].
      specialize (IH (S k) ltac:(cbn; lia)). replace (S k - 1)%nat with k in IH by lia.
      change (firstn (S (S k)) (a :: T)) with (a :: firstn (S k) T).
      destruct T as [|b T]; [cbn in Hk; lia|]. rewrite IH.
      change (firstn (S k) (b :: T)) with (b :: firstn k T). reflexivity. }
    rewrite Hc, (turn_rotates l cur k _ HS ltac:(lia) Hy).
    apply index_of_rotate; assumption.
Qed.

(* ---- runs over changing tables ---- *)
Definition table_ok (x : N) (l : list N) : Prop := sorted l /\ In x l.

Lemma not_selected_cost k x : (1 <= k)%nat -> forall tables cur,
  tables <> [] -> Forall (table_ok x) tables ->
  selected_within k x cur tables = false ->
  (length tables * k <= pos cur x (hd [] tables) + ins_total k x cur tables)%nat.
Proof.
  intros Hk. induction tables as [|l rest IH]; intros cur Hne HF Hsel; [congruence|].
  inversion HF as [|? ? [HS Hx] HF']; subst.
  cbn [selected_within] in Hsel. cbn [hd].
  destruct (get l cur k) as [[items cur']|] eqn:Hg; [|apply get_none in Hg; subst; destruct Hx].
  destruct (mem x items) eqn:Hm; [discriminate|].
  destruct (one_call l cur k x items cur' HS Hx Hk Hg) as [Ha Hb].
  assert (Hp : (k <= pos cur x l)%nat).
  { destruct (Nat.le_gt_cases k (pos cur x l)); [assumption|]. apply Ha, mem_in in H. congruence. }
  specialize (Hb Hp).
  destruct rest as [|l' rest'].
  - cbn. lia.
  - specialize (IH cur' ltac:(discriminate) HF' Hsel). cbn [hd] in IH.
    change (ins_total k x cur (l :: l' :: rest')) with
      (match get l cur k with Some (_, c) => (pos c x l' - pos c x l) + ins_total k x c (l' :: rest') | None => 0 end)%nat.
    rewrite Hg. set (I := ins_total k x cur' (l' :: rest')) in *.
    change (length (l :: l' :: rest')) with (S (length (l' :: rest'))).
    set (n := length (l' :: rest')) in *. nia.
Qed.

(* removals (of rows other than x) never lengthen the way to x *)
Lemma filter_turn p cur l : turn cur (filter p l) = filter p (turn cur l).
Proof.
  unfold turn, ge, lt. rewrite filter_app. f_equal.
  - induction l as [|a l IH]; cbn; [reflexivity|]. destruct (p a) eqn:Pa, (cur <=? a) eqn:Ca; cbn; rewrite ?Pa, ?Ca, IH; reflexivity.
  - induction l as [|a l IH]; cbn; [reflexivity|]. destruct (p a) eqn:Pa, (a <? cur) eqn:Ca; cbn; rewrite ?Pa, ?Ca, IH; reflexivity.
Qed.
Lemma index_of_filter p x l : p x = true -> (index_of x (filter p l) <= index_of x l)%nat.
Proof.
  intros Px. induction l as [|a l IH]; cbn; [lia|].
  destruct (N.eqb_spec x a) as [->|Ne].
  - rewrite Px. cbn. rewrite N.eqb_refl. lia.
  - destruct (p a); cbn; [destruct (N.eqb_spec x a); [congruence | lia] | lia].
Qed.
Lemma pos_filter p cur x l : p x = true -> (pos cur x (filter p l) <= pos cur x l)%nat.
Proof. intros Px. unfold pos. rewrite filter_turn. apply index_of_filter, Px. Qed.

(* ---- the coverage bound ---- *)
Lemma coverage_bound k x tables cur :
  (1 <= k)%nat -> tables <> [] -> Forall (table_ok x) tables ->
  (pos cur x (hd [] tables) + ins_total k x cur tables < length tables * k)%nat ->
  selected_within k x cur tables = true.
Proof.
  intros Hk Hne HF Hlt. destruct (selected_within k x cur tables) eqn:E; [reflexivity|].
  pose proof (not_selected_cost k x Hk tables cur Hne HF E). lia.
Qed.

(* a run in which rows other than x are only removed *)
Inductive removal_chain (x : N) : list (list N) -> Prop :=
| rc_one l : removal_chain x [l]
| rc_cons l p rest : p x = true -> removal_chain x (filter p l :: rest) -> removal_chain x (l :: filter p l :: rest).

Lemma ins_total_removals k x tables : removal_chain x tables -> forall cur, ins_total k x cur tables = 0%nat.
Proof.
  induction 1 as [l | l p rest Px HR IH]; intros cur; [reflexivity|].
  change (ins_total k x cur (l :: filter p l :: rest)) with
    (match get l cur k with Some (_, c) => (pos c x (filter p l) - pos c x l) + ins_total k x c (filter p l :: rest) | None => 0 end)%nat.
  destruct (get l cur k) as [[items c]|]; [|reflexivity].
  rewrite IH. pose proof (pos_filter p c x l Px). lia.
Qed.

Lemma coverage_removals k x tables cur l0 :
  (1 <= k)%nat -> hd [] tables = l0 -> removal_chain x tables -> Forall (table_ok x) tables ->
  (length l0 <= length tables * k)%nat ->
  selected_within k x cur tables = true.
Proof.
  intros Hk Hhd HR HF Hlen.
  assert (Hne : tables <> []) by (destruct HR; discriminate).
  apply coverage_bound; try assumption.
  rewrite ins_total_removals by exact HR. rewrite Hhd.
  assert (Hx : In x l0). { destruct tables; [congruence|]. cbn in Hhd; subst. inversion HF as [|? ? [_ ?] _]; assumption. }
  unfold pos. pose proof (index_of_lt x (turn cur l0) (proj2 (turn_in cur l0 x) Hx)) as Hi.
  rewrite turn_length in Hi. lia.
Qed.

Lemma too_new_spec now upd d : too_new now upd d = false <-> (d * 86400 < now - upd)%Z.
Proof. unfold too_new. rewrite Z.leb_gt. reflexivity. Qed.

(* KF-C19 witness: k rows entering ahead of the cursor per call, table size constant *)
Definition kf_tables : list (list N) :=
  [[1;10;11;12;13;14]; [1;12;13;14;15;16]; [1;14;15;16;17;18]; [1;16;17;18;19;20]; [1;18;19;20;21;22]; [1;20;21;22;23;24]].
Lemma starvation_witness :
  exists k x cur tables, Forall (table_ok x) tables /\ Forall (fun l => length l = 6%nat) tables /\
    length tables = 6%nat /\ selected_within k x cur tables = false.
Proof.
  exists 2%nat, 1, 10, kf_tables. repeat split.
  - unfold kf_tables. repeat constructor; cbn; auto; try lia; repeat (constructor; try (cbn; lia)).
  - repeat constructor.
Qed.
Lemma coverage_example : selected_within 2 5 4 [[1;4;5;9]; [1;5;9]; [1;5;9;12]] = true
  /\ Forall (table_ok 5) [[1;4;5;9]; [1;5;9]; [1;5;9;12]].
Proof. split; [vm_compute; reflexivity|]. repeat constructor; cbn; auto; lia. Qed.
