(* C19 sketch, part 2: one call of QueryWalker.get consumes the first n ids of the cyclic turn that starts at the
   cursor, and the next turn is the rotation by n.  From this the coverage bound follows by counting. *)
From Coq Require Import List NArith Bool Lia Arith Sorted.
Import ListNotations.
Open Scope N_scope.

Definition ge (cur : N) (l : list N) : list N := filter (fun i => cur <=? i) l.
Definition lt (cur : N) (l : list N) : list N := filter (fun i => i <? cur) l.
Definition turn (cur : N) (l : list N) : list N := ge cur l ++ lt cur l.
Definition sorted := StronglySorted N.lt.

Lemma filter_all {A} (p : A -> bool) l : (forall x, In x l -> p x = true) -> filter p l = l.
Proof. induction l as [|a l IH]; cbn; intros H; [reflexivity|]. rewrite H by (left; reflexivity). f_equal. apply IH. intros; apply H; right; assumption. Qed.
Lemma filter_none {A} (p : A -> bool) l : (forall x, In x l -> p x = false) -> filter p l = [].
Proof. induction l as [|a l IH]; cbn; intros H; [reflexivity|]. rewrite H by (left; reflexivity). apply IH. intros; apply H; right; assumption. Qed.

Lemma sorted_app_inv l1 l2 : sorted (l1 ++ l2) -> sorted l1 /\ sorted l2 /\ (forall a b, In a l1 -> In b l2 -> a < b).
Proof.
  induction l1 as [|x l1 IH]; cbn; intros S.
  - repeat split; [constructor | exact S | intros a b []].
  - inversion S as [|? ? S' F]; subst. destruct (IH S') as (S1 & S2 & O).
    rewrite Forall_app in F. destruct F as [F1 F2]. repeat split.
    + constructor; assumption.
    + exact S2.
    + intros a b [<-|Ha] Hb; [rewrite Forall_forall in F2; apply F2, Hb | apply O; assumption].
Qed.

(* split of a sorted list around a pivot element y: everything before is < y+1, everything after is >= y+1 *)
Lemma ge_after P y S : sorted (P ++ y :: S) -> ge (1 + y) (P ++ y :: S) = S.
Proof.
  intros H. apply sorted_app_inv in H as (SP & SyS & O). inversion SyS as [|? ? SS F]; subst.
  unfold ge. rewrite filter_app. cbn [filter].
  rewrite (filter_none _ P) by (intros x Hx; specialize (O x y Hx (or_introl eq_refl)); apply N.leb_gt; lia).
  destruct (N.leb_spec (1 + y) y); [lia|]. cbn [app].
  apply filter_all. intros x Hx. rewrite Forall_forall in F. specialize (F x Hx). apply N.leb_le. lia.
Qed.
Lemma lt_upto P y S : sorted (P ++ y :: S) -> lt (1 + y) (P ++ y :: S) = P ++ [y].
Proof.
  intros H. apply sorted_app_inv in H as (SP & SyS & O). inversion SyS as [|? ? SS F]; subst.
  unfold lt. rewrite filter_app. cbn [filter].
  rewrite (filter_all _ P) by (intros x Hx; specialize (O x y Hx (or_introl eq_refl)); apply N.ltb_lt; lia).
  destruct (N.ltb_spec y (1 + y)); [|lia].
  rewrite (filter_none _ S); [reflexivity|]. intros x Hx. rewrite Forall_forall in F. specialize (F x Hx). apply N.ltb_ge. lia.
Qed.

(* a sorted list is (ids below cur) ++ (ids from cur on) *)
Lemma sorted_split cur l : sorted l -> l = lt cur l ++ ge cur l.
Proof.
  intros S. induction S as [|x l S IH Hx]; [reflexivity|].
  unfold lt, ge in *. cbn [filter]. rewrite Forall_forall in Hx.
  destruct (N.ltb_spec x cur) as [Hlt|Hge].
  - destruct (N.leb_spec cur x); [lia|]. cbn [app]. f_equal. exact IH.
  - destruct (N.leb_spec cur x); [|lia].
    rewrite (filter_none (fun i => i <? cur) l) by (intros y Hy; specialize (Hx y Hy); apply N.ltb_ge; lia).
    rewrite (filter_all (fun i => cur <=? i) l) by (intros y Hy; specialize (Hx y Hy); apply N.leb_le; lia).
    reflexivity.
Qed.

(* rotation: after consuming the first n ids of the turn (1 <= n <= length), the turn that starts just after the
   n-th id is the old turn rotated by n *)
Lemma rotate_in_B A B n y :
  sorted (A ++ B) -> (forall a b, In a A -> In b B -> a < b) ->
  (1 <= n <= length B)%nat -> nth_error B (n - 1) = Some y ->
  turn (1 + y) (A ++ B) = skipn n (B ++ A) ++ firstn n (B ++ A).
Proof.
  intros HS O Hn Hy.
  assert (HB : B = firstn (n - 1) B ++ y :: skipn n B).
  { rewrite <- (firstn_skipn (n - 1) B) at 1. f_equal.
    replace n with (Datatypes.S (n - 1))%nat at 2 by lia.
    clear - Hy. revert B Hy. induction (n - 1)%nat as [|m IH]; intros [|b B] Hy; cbn in *; try discriminate.
    - injection Hy as ->. reflexivity.
    - apply IH, Hy. }
  set (P := firstn (n - 1) B) in *. set (T := skipn n B) in *.
  assert (E : A ++ B = (A ++ P) ++ y :: T) by (rewrite HB at 1; rewrite app_assoc; reflexivity).
  unfold turn. rewrite E. rewrite E in HS. rewrite ge_after, lt_upto by exact HS.
  assert (LP : length P = (n - 1)%nat) by (unfold P; rewrite firstn_length; lia).
  rewrite skipn_app, firstn_app.
  replace (n - length B)%nat with 0%nat by lia. cbn [skipn firstn]. rewrite app_nil_r.
  fold T.
  assert (FB : firstn n B = P ++ [y]).
  { rewrite HB at 1. rewrite firstn_app, LP. replace (n - (n - 1))%nat with 1%nat by lia.
    rewrite (firstn_all2 P) by lia. reflexivity. }
  rewrite FB, <- !app_assoc. reflexivity.
Qed.

Lemma nth_split (L : list N) m y : nth_error L m = Some y -> L = firstn m L ++ y :: skipn (Datatypes.S m) L.
Proof.
  revert L; induction m as [|m IH]; intros [|b L] Hy; cbn in *; try discriminate.
  - injection Hy as ->. reflexivity.
  - f_equal. apply IH, Hy.
Qed.

Lemma rotate_in_A A B r y :
  sorted (A ++ B) ->
  (1 <= r <= length A)%nat -> nth_error A (r - 1) = Some y ->
  turn (1 + y) (A ++ B) = skipn (length B + r) (B ++ A) ++ firstn (length B + r) (B ++ A).
Proof.
  intros HS Hr Hy.
  pose proof (nth_split A (r - 1) y Hy) as HA. replace (Datatypes.S (r - 1)) with r in HA by lia.
  set (P := firstn (r - 1) A) in *. set (T := skipn r A) in *.
  assert (E : A ++ B = P ++ y :: (T ++ B)) by (rewrite HA at 1; rewrite <- app_assoc; reflexivity).
  unfold turn. rewrite E. rewrite E in HS. rewrite ge_after, lt_upto by exact HS.
  assert (LP : length P = (r - 1)%nat) by (unfold P; rewrite firstn_length; lia).
  rewrite skipn_app, firstn_app.
  rewrite (skipn_all2 B) by lia. rewrite (firstn_all2 B) by lia.
  replace (length B + r - length B)%nat with r by lia. cbn [app]. fold T.
  assert (FA : firstn r A = P ++ [y]).
  { rewrite HA at 1. rewrite firstn_app, LP. replace (r - (r - 1))%nat with 1%nat by lia.
    rewrite (firstn_all2 P) by lia. reflexivity. }
  rewrite FA, <- !app_assoc. reflexivity.
Qed.

(* the general rotation lemma on the turn of a sorted list *)
Theorem turn_rotates l cur n y :
  sorted l -> (1 <= n <= length l)%nat -> nth_error (turn cur l) (n - 1) = Some y ->
  turn (1 + y) l = skipn n (turn cur l) ++ firstn n (turn cur l).
Proof.
  intros HS Hn Hy.
  pose proof (sorted_split cur l HS) as E. set (A := lt cur l) in *. set (B := ge cur l) in *.
  assert (HS' : sorted (A ++ B)) by (rewrite <- E; exact HS).
  destruct (sorted_app_inv _ _ HS') as (_ & _ & O).
  assert (T : turn cur l = B ++ A) by reflexivity.
  rewrite T in Hy |- *. clear T.
  replace (turn (1 + y) l) with (turn (1 + y) (A ++ B)) by (rewrite <- E; reflexivity).
  destruct (Nat.le_gt_cases n (length B)) as [Le|Gt].
  - apply rotate_in_B; try assumption; [lia|]. rewrite nth_error_app1 in Hy by lia. exact Hy.
  - rewrite nth_error_app2 in Hy by lia.
    assert (LA : (length A + length B = length l)%nat) by (rewrite <- app_length; f_equal; symmetry; exact E).
    replace n with (length B + (n - length B))%nat by lia.
    apply rotate_in_A; try assumption; [lia|].
    replace (n - length B - 1)%nat with (n - 1 - length B)%nat by lia. exact Hy.
Qed.
Print Assumptions turn_rotates.
