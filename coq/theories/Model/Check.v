(* C03: check_async's verdict and the CLI's digest validation (repaired forms). *)
From Coq Require Import List NArith ZArith Bool.
From Alp Require Import Base.Str Base.Types.
Import ListNotations.
Open Scope N_scope.

Definition is_digit (c : N) : bool := (48 <=? c) && (c <=? 57).
Definition is_lower_hex (c : N) : bool := (97 <=? c) && (c <=? 102).
Definition is_upper_hex (c : N) : bool := (65 <=? c) && (c <=? 70).
Definition is_hex (c : N) : bool := is_digit c || is_lower_hex c || is_upper_hex c.     (* string.hexdigits *)
Definition is_canon_hex (c : N) : bool := is_digit c || is_lower_hex c.
Definition lower (c : N) : N := if (65 <=? c) && (c <=? 90) then c + 32 else c.         (* str.lower on ASCII *)

(* cli.options.validate_md5 followed by .lower() in file create / file modify:
   None = rejected, Some d = the digest as stored *)
Definition accept_md5 (d : str) : option str :=
  if Nat.eqb (length d) 32 && forallb is_hex d then Some (map lower d) else None.

Definition canonical_digest (d : str) : Prop := length d = 32%nat /\ forallb is_canon_hex d = true.

(* value of a hex digit / a hex string *)
Definition dig (c : N) : N :=
  if is_digit c then c - 48 else if is_lower_hex c then c - 87 else if is_upper_hex c then c - 55 else 0.
Definition hexval (d : str) : N := fold_left (fun acc c => acc * 16 + dig c) d 0.

(* guards of check_async *)
Definition size_mismatch (reg_size : option Z) (size : Z) : bool :=
  negb (is_none reg_size) && negb (match reg_size with Some s => Z.eqb size s | None => true end).
Definition digest_match (md5sum reg : option str) : bool := optstr_eqb md5sum reg.

(* None = the check was abandoned (stat failed), the row is left untouched *)
Definition verdict (exists_ stat_ok : bool) (disk_size : Z) (disk_md5 : option str)
                   (reg_size : option Z) (reg_md5 : option str) : option has :=
  if exists_ then
    if stat_ok then
      if size_mismatch reg_size disk_size then Some HX
      else if digest_match disk_md5 reg_md5 then Some HY else Some HX
    else None
  else Some HN.
