(* C16 — Autosync and autoclean rules fire exactly as configured. *)
From Coq Require Import List NArith ZArith Bool.
From Alp Require Import Base.Str Base.Types Model.PostAdd Proofs.PostAddProofs.
Import ListNotations.

(* For all rule graphs, copy tables and existing requests: the requests after post_add are the old ones followed by
   exactly one new request (f, n, g) per rule n -> g that is autosync, leaves n's group and whose group g has no healthy copy *)
Theorem C16_requests_exact : forall groups rules n f cs rs,
  snd (post_add groups rules n f cs rs) =
    rs ++ map (fun u => {| r_file := f; r_from := n; r_to := u_to u |}) (filter (sync_edge groups cs n f) rules).
Proof. exact requests_exact. Qed.
Print Assumptions C16_requests_exact.
Theorem C16_sync_edge_iff : forall groups cs n f u, sync_edge groups cs n f u = true <->
  u_from u = n /\ u_to u <> group_of groups n /\ u_sync u = true /\ state_on_group groups cs (u_to u) f <> HY.
Proof. exact sync_edge_iff. Qed.
Print Assumptions C16_sync_edge_iff.

(* every copy is left unchanged except those released, which only have wants := N *)
Theorem C16_copies_exact : forall groups rules n f cs rs,
  Forall2 (fun c c' => (released groups rules n f c = false -> c' = c) /\ (released groups rules n f c = true -> c' = release c))
          cs (fst (post_add groups rules n f cs rs)).
Proof. exact copies_exact. Qed.
Print Assumptions C16_copies_exact.
(* ... and a copy is released exactly when it is a healthy, wanted copy of the file on the source node of an
   autoclean rule into the receiving group whose source is outside that group *)
Theorem C16_released_iff : forall groups rules n f c, released groups rules n f c = true <->
  c_file c = f /\ c_has c = HY /\ c_wants c = WY /\
  exists u, In u rules /\ u_clean u = true /\ u_to u = group_of groups n /\ u_from u = c_node c /\ c_node c <> n /\
            group_of groups (c_node c) <> group_of groups n.
Proof. exact released_iff. Qed.
Print Assumptions C16_released_iff.

(* self-loops are ignored by both halves *)
Theorem C16_self_loop_never_syncs : forall groups cs n f u, group_of groups (u_from u) = u_to u -> sync_edge groups cs n f u = false.
Proof. exact self_loop_never_syncs. Qed.
Print Assumptions C16_self_loop_never_syncs.
Theorem C16_self_loop_never_cleans : forall groups n u, group_of groups (u_from u) = u_to u -> clean_edge groups n u = false.
Proof. exact self_loop_never_cleans. Qed.
Print Assumptions C16_self_loop_never_cleans.

(* "lacks a healthy copy": a group's state is Y iff some copy of the file in the group is healthy, N iff all are absent *)
Theorem C16_state_priority : forall groups cs g f,
  let st := state_on_group groups cs g f in
  (st = HY <-> exists c, In c cs /\ in_group groups g f c = true /\ c_has c = HY) /\
  (st = HN <-> forall c, In c cs -> in_group groups g f c = true -> c_has c = HN).
Proof. exact state_priority. Qed.
Print Assumptions C16_state_priority.

Example C16_example :
  map c_wants (fst (post_add ex_groups ex_rules 1 7 ex_copies [])) = [WY; WY; WN; WY] /\
  snd (post_add ex_groups ex_rules 1 7 ex_copies []) = [].
Proof. exact example_post_add. Qed.
