(* T1 for C06: the function translated from /repo today is the model the theorems are about. *)
From Coq Require Import List NArith Bool Btauto.
From Alp Require Import Base.Str Model.Path.
From Run Require Gen_util.
Lemma tie_invalid_import_path : forall s, Gen_util.invalid_import_path s = Model.Path.invalid_import_path s.
Proof. intro s. unfold Gen_util.invalid_import_path, Model.Path.invalid_import_path. btauto. Qed.
