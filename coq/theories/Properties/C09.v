(* C09 — Crash consistency of imports, transfers, checks and deletions (item model: Model/Item.v). *)
From Coq Require Import List NArith Bool Arith.
From Alp Require Import Base.Str Base.Types Model.Pull Model.Item Proofs.ItemProofs Model.Import Proofs.ImportCrashProofs Model.Rmdirs Proofs.RmdirsProofs.
Import ListNotations.

(* A kill after any number k of database statements / file-system calls of any task (verification of either copy, deletion,
   group search, transfer by any route, transport and transport behaviour), started from any state in which recorded-healthy
   copies are backed by bytes: afterwards (open transaction rolled back)
   - every copy recorded healthy and not released is still backed by good bytes  [safe],
   - the source's bytes are untouched, and a healthy wanted destination copy keeps its bytes  [no loss],
   - a request that has become completed has a healthy destination copy with good bytes. *)
Theorem C09_crash_never_overclaims_never_loses : forall e b i t k,
  safe i = true -> task_pre t i = true -> good_after i (crash k (task_script e b i t) i) = true.
Proof. exact task_crash_good. Qed.
Print Assumptions C09_crash_never_overclaims_never_loses.

(* Recovery.  Every state j a kill can leave during an iteration that works on a pending transfer (healthy source, destination
   not released), for every transport behaviour in the interrupted attempt: three fault-free rounds later the destination copy is
   healthy, wanted and backed by good bytes, the request is no longer pending, the source is as it was --- the same as the
   uninterrupted run (which is one of the j). *)
Theorem C09_transfer_recovers : forall i e b j,
  pre_transfer i = true -> good_env e = true -> In j (all_crash_states e b i) -> healed (rounds 3 e j) = true.
Proof. exact transfer_recovers. Qed.
Print Assumptions C09_transfer_recovers.
(* ... and nothing of the interrupted attempt is left beside the file: the first idle update of the restarted daemon (the tidy-up task
   of DefaultNodeIO.idle_update) has removed the placeholder, as the uninterrupted transfer does itself *)
Theorem C09_no_stale_placeholder : forall i e b j,
  pre_transfer i = true -> good_env e = true -> In j (all_crash_states e b i) -> ph (rounds 3 e (killed j)) = false.
Proof. exact no_stale_placeholder. Qed.
Print Assumptions C09_no_stale_placeholder.
(* a released copy is gone (record and bytes) one round after a kill anywhere in its deletion *)
Theorem C09_release_recovers : forall i e b j,
  pre_release i = true -> dst_usable e = true -> del_ok e = true -> In j (all_crash_states e b i) -> gone (rounds 1 e j) = true.
Proof. exact release_recovers. Qed.
Print Assumptions C09_release_recovers.
(* a wanted suspect copy has a verdict one round after a kill anywhere in its verification *)
Theorem C09_check_recovers : forall i e b j,
  pre_check i = true -> dst_usable e = true -> In j (all_crash_states e b i) -> is_m (dst_state (rounds 1 e j)) = false.
Proof. exact check_recovers. Qed.
Print Assumptions C09_check_recovers.

(* Imports (the statement-level model of _import_file shared with C04: every statement is committed on its own).  For every index
   state of the path (acquisition / file / copy record in any state) and every k: a kill after k statements of the import task,
   followed by a fresh task for the still-pending request, ends with exactly the records the uninterrupted import leaves *)
Theorem C09_import_recovers : forall d k, full (fst (steps k d P0)) = full d.
Proof. exact import_crash_recovers. Qed.
Print Assumptions C09_import_recovers.

Example C09_example : pre_transfer ex_item = true /\ good_env ex_env = true /\ length (all_crash_states ex_env (BFail true LPartial) ex_item) = 8%nat
  /\ dst_row (rounds 1 ex_env ex_item) = Some (HY, WY) /\ req (rounds 1 ex_env ex_item) = Completed.
Proof. exact example_item. Qed.

(* "... or gone from its source exactly as an uninterrupted run leaves it": the clean-up of the directories a deleted file leaves
   empty (ioutil.remove_filedir) is a walk up a chain of directories.  Killed after ANY number of rmdirs, the retry ends exactly
   where the uninterrupted walk ends, for every chain (any depth, any level holding other entries, any levels already gone);
   a second run changes nothing; only directories holding nothing else are ever removed; and the result is the expected one:
   nothing of the chain up to the first directory that holds something else. *)
Theorem C09_directory_cleanup_retry_converges : forall k l, walk false (walk_k k false l) = walk false l.
Proof. exact retry_converges. Qed.
Print Assumptions C09_directory_cleanup_retry_converges.
Theorem C09_directory_cleanup_idempotent : forall l, walk false (walk false l) = walk false l.
Proof. exact walk_idem. Qed.
Print Assumptions C09_directory_cleanup_idempotent.
Theorem C09_directory_cleanup_removes_only_empty : forall inner l,
  Forall2 (fun a b => b = a \/ (b = dir_gone /\ present a = true /\ others a = false)) l (walk inner l).
Proof. exact walk_removes_only_empty. Qed.
Print Assumptions C09_directory_cleanup_removes_only_empty.
Theorem C09_directory_cleanup_result : forall l, wf l = true ->
  Forall2 (fun a b => present a = present b /\ (present a = true -> others a = others b)) (walk false l) (expected l).
Proof. exact walk_expected. Qed.
Print Assumptions C09_directory_cleanup_result.
(* the variant that stops at the first directory that is already gone is refuted: killed after one rmdir, its retry leaves the outer
   directory behind for ever *)
Theorem C09_stop_at_missing_refuted : walk_stop false (walk_k 1 false ex_chain) <> walk_stop false ex_chain.
Proof. exact stop_variant_refuted. Qed.
Print Assumptions C09_stop_at_missing_refuted.
Example C09_example_retry : walk false (walk_k 1 false ex_chain) = [dir_gone; dir_gone] /\ walk false ex_chain = [dir_gone; dir_gone] /\ wf ex_chain = true.
Proof. exact example_retry. Qed.
