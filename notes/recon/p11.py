from common import *
import os, hashlib, shutil
from alpenhorn.daemon import update
from alpenhorn.scheduler import FairMultiFIFOQueue, pool, global_abort
class OneShot(pool.EmptyPool):
    def check(self): global_abort.set()
class Q(FairMultiFIFOQueue):
    def get(self, timeout=None): return super().get(timeout=0.01)
tmp, sdb = setup("h1")
g = StorageGroup.create(name="g"); b = mknode(tmp,"b",g)
(tmp/"b"/"acq"/".alpentempabc").mkdir(parents=True); (tmp/"b"/"acq"/".alpentempabc"/"f").write_bytes(b"par")   # leftover partial copy
(tmp/"b"/"acq"/".f.placeholder").write_bytes(b"")
(tmp/"b"/"acq"/".hidden").mkdir(); (tmp/"b"/"acq"/".hidden"/"g").write_bytes(b"x")
ArchiveFileImportRequest.create(node=b, path=".", recurse=True, register=True)
for i in range(2):
    global_abort.clear(); update.update_loop(Q(), OneShot(), False)
print([(f.acq.name, f.name) for f in ArchiveFile.select()])
shutil.rmtree(tmp)
