(* C07 — Locality: a daemon only modifies local, active, initialised nodes. *)
From Coq Require Import List NArith Bool Arith.
From Alp Require Import Base.Str Base.Types Model.Locality Proofs.LocalityProofs.
Import ListNotations.

(* for all node tables, host names, marker contents and init requests: a node is managed (updated, verified, imported into,
   deleted from) exactly when its host is the daemon's host name, it is active, and the first line of its marker, stripped of
   trailing white space, is its name *)
Theorem C07_managed_iff : forall host rq n, vet host rq n = Manage <->
  n_host n = host /\ n_active n = true /\ exists l, n_marker n = MLine l /\ rstrip l = n_name n.
Proof. exact vet_manage. Qed.
Print Assumptions C07_managed_iff.
Theorem C07_foreign_or_inactive_ignored : forall host rq n, n_host n <> host \/ n_active n = false -> vet host rq n = Ignore.
Proof. exact vet_foreign. Qed.
Print Assumptions C07_foreign_or_inactive_ignored.
(* initialisation is attempted only on explicit request, only for a local active node that fails the check *)
Theorem C07_init_only_on_request : forall host rq n, vet host rq n = QueueInit <->
  rq = true /\ n_host n = host /\ n_active n = true /\ check_init n = false.
Proof. exact vet_init. Qed.
Print Assumptions C07_init_only_on_request.
(* ... and it never replaces an existing marker (absent => created; unreadable or naming another node => untouched) *)
Theorem C07_init_never_overwrites : forall n, let '(n', done) := init_task n in
  (n_marker n' = n_marker n \/ (n_marker n = MAbsent /\ n_marker n' = MLine (n_name n ++ [nl]))) /\
  n_name n' = n_name n /\ n_host n' = n_host n /\ n_active n' = n_active n /\ (done = true -> check_init n' = true).
Proof. exact init_task_spec. Qed.
Print Assumptions C07_init_never_overwrites.
(* one iteration: I/O only on nodes that were local, active and initialised when it began; every other node keeps its marker
   unless an explicit request initialises a local active node that had none *)
Theorem C07_iteration_io_local : forall host rq nodes n, In n (fst (iteration host rq nodes)) ->
  In n nodes /\ n_host n = host /\ n_active n = true /\ check_init n = true.
Proof. exact iteration_io_local. Qed.
Print Assumptions C07_iteration_io_local.
Theorem C07_iteration_leaves_others : forall host rq nodes, Forall2 (fun n n' =>
    n_name n' = n_name n /\ n_host n' = n_host n /\ n_active n' = n_active n /\
    (n_marker n' <> n_marker n -> rq n = true /\ n_host n = host /\ n_active n = true /\ n_marker n = MAbsent))
  nodes (snd (iteration host rq nodes)).
Proof. exact iteration_leaves_others. Qed.
Print Assumptions C07_iteration_leaves_others.
Theorem C07_own_marker_recognised : forall name, rstrip name = name -> rstrip (name ++ [nl]) = name.
Proof. exact own_marker_recognised. Qed.
Print Assumptions C07_own_marker_recognised.

Example C07_example : map n_name (fst (iteration [104; 49]%N (fun _ => true) ex_nodes)) = [[97]]%N /\
  map n_marker (snd (iteration [104; 49]%N (fun _ => true) ex_nodes)) = [MLine [97; 10]; MLine [120; 10]; MLine [99; 10]; MLine [100; 10]; MLine [101; 10]]%N.
Proof. exact example_locality. Qed.
