From Coq Require Import List NArith ZArith Bool Arith Lia.
From Alp Require Import Base.Str Base.Types Model.Hsm.
Import ListNotations.
Open Scope N_scope.
Local Arguments N.eqb : simpl never.

(* ---- parsing is prefix-robust: whatever the path contains, only the text after "path:" matters ---- *)
Lemma skipn_app_length {A} (a b : list A) : skipn (length a) (a ++ b) = b.
Proof. induction a; cbn; auto. Qed.

Lemma strip_path_ok path rest : strip_path path (path ++ colon :: rest) = Some (colon :: rest).
Proof.
  unfold strip_path. replace (path ++ colon :: rest) with ((path ++ [colon]) ++ rest) by (rewrite <- app_assoc; reflexivity).
  rewrite prefixb_app. rewrite <- app_assoc. cbn [app]. rewrite skipn_app_length. reflexivity.
Qed.

(* a word that does not start with ':' occurs in ":" ++ s iff it occurs in s *)
Lemma infixb_colon w s : (match w with c :: _ => N.eqb c colon = false | [] => False end) -> infixb w (colon :: s) = infixb w s.
Proof.
  destruct w as [|c w]; [intros []|]. intros H. cbn [infixb prefixb]. rewrite H. reflexivity.
Qed.

Definition classify (archived released : bool) (restoring : option bool) : hsm :=
  if negb archived then Unarchived else if negb released then Restored else match restoring with Some true => Restoring | _ => Released end.

Lemma hsm_state_prefix_robust path flags r :
  hsm_state path (path ++ colon :: flags) r = Some (classify (infixb w_archived flags) (infixb w_released flags) r).
Proof.
  unfold hsm_state. rewrite strip_path_ok. rewrite !infixb_colon by (vm_compute; reflexivity). unfold classify.
  destruct (infixb w_archived flags), (infixb w_released flags); cbn; try reflexivity. destruct r as [[|]|]; reflexivity.
Qed.
Lemma hsm_restoring_prefix_robust path act : hsm_restoring path (path ++ colon :: act) = infixb w_restore act.
Proof. unfold hsm_restoring. rewrite strip_path_ok. apply infixb_colon. vm_compute. reflexivity. Qed.

(* the unrepaired test searched the whole output: a path containing RESTORE answers "restoring" for ever *)
Definition old_hsm_restoring (action_out : str) : bool := infixb w_restore action_out.
Lemma old_restoring_refuted : exists path act, infixb w_restore act = false /\ old_hsm_restoring (path ++ colon :: act) = true.
Proof. exists ([47] ++ w_restore ++ [47; 102]), [32; 78; 79; 79; 80]. vm_compute. split; reflexivity. Qed.

(* ---- bookkeeping ---- *)
Definition BInv (b : bk) : Prop := forall x, mem x (restoring b) = has_key x (start b).

Lemma mem_discard x y l : mem x (discard y l) = mem x l && negb (N.eqb y x).
Proof.
  unfold mem, discard. induction l as [|a l IH]; cbn [filter existsb]; [reflexivity|].
  destruct (N.eqb_spec y a) as [->|Hne]; cbn [negb existsb].
  - rewrite IH. destruct (N.eqb_spec x a) as [->|]; cbn; [rewrite N.eqb_refl; cbn; destruct (existsb _ l); reflexivity|]. reflexivity.
  - rewrite IH. destruct (N.eqb_spec x a) as [->|]; cbn; [|reflexivity]. destruct (N.eqb_spec y a); [congruence|]. reflexivity.
Qed.
Lemma has_key_del x y d : has_key x (del y d) = has_key x d && negb (N.eqb y x).
Proof.
  unfold has_key, del. induction d as [|[k v] d IH]; cbn [filter existsb fst]; [reflexivity|].
  destruct (N.eqb_spec y k) as [->|Hne]; cbn [negb existsb fst].
  - rewrite IH. destruct (N.eqb_spec x k) as [->|]; cbn; [rewrite N.eqb_refl; cbn; destruct (existsb _ d); reflexivity|]. reflexivity.
  - rewrite IH. destruct (N.eqb_spec x k) as [->|]; cbn; [|reflexivity]. destruct (N.eqb_spec y k); [congruence|]. reflexivity.
Qed.

Lemma binv_add id now b : BInv b -> BInv (add id now b).
Proof.
  intros H x. unfold add. destruct (mem id (restoring b)) eqn:E; [apply H|]. cbn [restoring start].
  unfold mem, has_key. cbn [existsb fst]. fold (mem x (restoring b)). fold (has_key x (del id (start b))).
  rewrite has_key_del, <- H. destruct (N.eqb_spec x id) as [->|Hne]; [reflexivity|].
  destruct (N.eqb_spec id x); [congruence|]. cbn. rewrite andb_true_r. reflexivity.
Qed.
Lemma binv_pop id b : BInv b -> BInv (pop_both id b).
Proof. intros H x. unfold pop_both. cbn [restoring start]. rewrite mem_discard, has_key_del, H. reflexivity. Qed.
Lemma mem_add id now b : mem id (restoring (add id now b)) = true.
Proof. unfold add. destruct (mem id (restoring b)) eqn:E; [exact E|]. cbn. unfold mem. cbn. rewrite N.eqb_refl. reflexivity. Qed.

(* for every answer of the file system and of the restore request: the set and the dict keep the same keys, no
   KeyError escapes, every final answer (ready / failed) removes the file from both so that later requests for it are
   not skipped, and "wait" keeps it in both *)
Lemma restore_wait_inv id now st res b : BInv b ->
  let '(b', r) := restore_wait id now st res b in
  BInv b' /\ r <> KeyErr /\
  ((r = Ready \/ r = Failed) -> mem id (restoring b') = false /\ has_key id (start b') = false) /\
  (r = WaitMore -> mem id (restoring b') = true).
Proof.
  intros H. unfold restore_wait.
  assert (Pop : mem id (restoring (pop_both id b)) = false /\ has_key id (start (pop_both id b)) = false).
  { unfold pop_both. cbn [restoring start]. rewrite mem_discard, has_key_del, N.eqb_refl. cbn. rewrite !andb_false_r. auto. }
  assert (NoRF : forall r : ret, r = WaitMore -> (r = Ready \/ r = Failed) -> False) by (intros r -> [?|?]; discriminate).
  assert (Resident : let '(b', r) := (if mem id (restoring b) then match del_strict id b with Some b2 => (b2, Ready) | None => (b, KeyErr) end else (b, Ready)) in
     BInv b' /\ r <> KeyErr /\ ((r = Ready \/ r = Failed) -> mem id (restoring b') = false /\ has_key id (start b') = false) /\ (r = WaitMore -> mem id (restoring b') = true)).
  { destruct (mem id (restoring b)) eqn:Em.
    - unfold del_strict. rewrite <- H, Em. split; [apply (binv_pop id b H)|]. split; [discriminate|]. split; [intros _; apply Pop | discriminate].
    - split; [exact H|]. split; [discriminate|]. split; [intros _; split; [exact Em | rewrite <- H; exact Em] | discriminate]. }
  destruct st as [[| | | |]|].
  - split; [apply binv_pop, H|]. split; [discriminate|]. split; [intros _; apply Pop | discriminate].
  - exact Resident.
  - exact Resident.
  - split; [apply binv_add, H|]. split; [discriminate|]. split; [intros [?|?]; discriminate | intros _; apply mem_add].
  - pose proof (binv_add id now b H) as Ha. pose proof (mem_add id now b) as Hm.
    destruct res.
    + unfold del_strict. rewrite <- Ha, Hm.
      assert (Pop2 : mem id (discard id (restoring (add id now b))) = false /\ has_key id (del id (start (add id now b))) = false)
        by (rewrite mem_discard, has_key_del, N.eqb_refl; cbn; rewrite !andb_false_r; auto).
      split; [apply (binv_pop id _ Ha)|]. split; [discriminate|]. split; [intros _; apply Pop2 | discriminate].
    + split; [exact Ha|]. split; [discriminate|]. split; [intros [?|?]; discriminate | intros _; exact Hm].
    + split; [exact Ha|]. split; [discriminate|]. split; [intros [?|?]; discriminate | intros _; exact Hm].
  - split; [apply binv_pop, H|]. split; [discriminate|]. split; [intros _; apply Pop | discriminate].
Qed.

Lemma mem_add_other id now b f : f <> id -> mem f (restoring (add id now b)) = mem f (restoring b).
Proof.
  intros Hne. unfold add. destruct (mem id (restoring b)); [reflexivity|]. cbn [restoring]. unfold mem. cbn [existsb].
  destruct (N.eqb_spec f id); [congruence|]. reflexivity.
Qed.
Lemma mem_discard_other id l f : f <> id -> mem f (discard id l) = mem f l.
Proof. intros Hne. rewrite mem_discard. destruct (N.eqb_spec id f); [congruence|]. cbn. apply andb_true_r. Qed.

(* a call about one file never changes whether another file is marked as being restored *)
Lemma restore_wait_other id now st res b f : f <> id -> mem f (restoring (fst (restore_wait id now st res b))) = mem f (restoring b).
Proof.
  intros Hne. unfold restore_wait.
  assert (R : mem f (restoring (fst (if mem id (restoring b) then match del_strict id b with Some b2 => (b2, Ready) | None => (b, KeyErr) end else (b, Ready)))) = mem f (restoring b)).
  { destruct (mem id (restoring b)); [|reflexivity]. unfold del_strict. destruct (has_key id (start b)); [|reflexivity]. cbn [fst restoring]. apply mem_discard_other, Hne. }
  destruct st as [[| | | |]|]; try exact R; cbn [fst pop_both restoring]; try (apply mem_discard_other, Hne); try (apply mem_add_other, Hne).
  destruct res; cbn [fst]; try (apply mem_add_other, Hne).
  unfold del_strict. destruct (has_key id (start (add id now b))); cbn [fst restoring]; [rewrite mem_discard_other by exact Hne|]; apply mem_add_other, Hne.
Qed.

(* for every history of calls: the set and the dict always agree, no KeyError is ever raised, and a file is left marked
   "being restored" (so that new requests for it are skipped) only if the most recent answer about it was "wait" --- i.e.
   only while some task is still waiting for it *)
Lemma run_calls_inv : forall cs b, BInv b ->
  let '(b', out) := run_calls b cs in
  BInv b' /\ (forall i r, In (i, r) out -> r <> KeyErr) /\
  (forall f, mem f (restoring b') = true -> match last_answer f out with Some r => r = WaitMore | None => mem f (restoring b) = true end).
Proof.
  induction cs as [|c cs IH]; intros b H; cbn [run_calls].
  - split; [exact H|]. split; [intros i r []|]. intros f Hf. exact Hf.
  - pose proof (restore_wait_inv (k_id c) (k_now c) (k_state c) (k_res c) b H) as W.
    unfold do_call, answer. destruct (restore_wait (k_id c) (k_now c) (k_state c) (k_res c) b) as [b1 r1] eqn:E. cbn [fst snd].
    destruct W as (H1 & Hk & Hfin & Hwait).
    specialize (IH b1 H1). destruct (run_calls b1 cs) as [b' out]. destruct IH as (H' & Hout & Hlast).
    split; [exact H'|]. split.
    + intros i r [Heq|Hin]; [injection Heq as <- <-; exact Hk | exact (Hout i r Hin)].
    + intros f Hf. specialize (Hlast f Hf). cbn [last_answer]. destruct (last_answer f out) as [r'|]; [exact Hlast|].
      destruct (N.eqb_spec (k_id c) f) as [Heq|Hne].
      * subst f. destruct r1; try reflexivity; try congruence; destruct Hfin as [Hm _]; auto; congruence.
      * rewrite <- Hlast. symmetry. replace b1 with (fst (restore_wait (k_id c) (k_now c) (k_state c) (k_res c) b)) by (rewrite E; reflexivity).
        apply restore_wait_other. congruence.
Qed.
Lemma binv_empty : BInv empty_bk. Proof. intros x. reflexivity. Qed.

(* a restore is requested only for a released file; the file is hashed / reported ready only when the file system
   says it is resident *)
Lemma ready_only_when_resident id now st res b : snd (restore_wait id now st res b) = Ready -> may_open st = true.
Proof.
  unfold restore_wait. destruct st as [[| | | |]|]; cbn; try discriminate; try reflexivity.
  - destruct res; [destruct (del_strict _ _)|..]; discriminate.
Qed.
Lemma open_only_when_resident st : may_open st = true <-> st = Some Restored \/ st = Some Unarchived.
Proof. destruct st as [[| | | |]|]; cbn; split; intros H; try discriminate; auto; destruct H; discriminate. Qed.

(* ---- release_files ---- *)
Lemma release_only_releasable needed : forall l total x, In x (release_walk needed total l) ->
  exists c, In c l /\ rc_id c = x /\ rc_healthy c = true /\ rc_ready c = true /\ rc_state c = Some Restored.
Proof.
  induction l as [|c l IH]; intros total x H; [destruct H|]. cbn [release_walk] in H.
  destruct (releasable c) eqn:Er.
  - destruct H as [<-|H].
    + exists c. unfold releasable in Er. apply andb_true_iff in Er as [Er E3]. apply andb_true_iff in Er as [E1 E2].
      repeat split; auto; [left; reflexivity|]. destruct (rc_state c) as [[| | | |]|]; try discriminate. reflexivity.
    + destruct (needed <=? total + rc_size c)%Z; [destruct H|]. destruct (IH _ _ H) as (c' & Hc & R). exists c'. split; [right; exact Hc | exact R].
  - destruct (IH _ _ H) as (c' & Hc & R). exists c'. split; [right; exact Hc | exact R].
Qed.

(* least recently updated first, just until the headroom is met: the released ids are exactly the releasable candidates of
   the shortest prefix whose releasable sizes reach the needed amount *)
Fixpoint rprefix (needed total : Z) (l : list rcand) : list rcand :=
  match l with
  | [] => []
  | c :: l' => if releasable c then
                 let total' := (total + rc_size c)%Z in c :: (if (needed <=? total')%Z then [] else rprefix needed total' l')
               else c :: rprefix needed total l'
  end.
Lemma release_is_prefix needed : forall l total, release_walk needed total l = map rc_id (filter releasable (rprefix needed total l)).
Proof.
  induction l as [|c l IH]; intros total; [reflexivity|]. cbn [release_walk rprefix].
  destruct (releasable c) eqn:Er; cbn [filter]; rewrite Er; cbn [map].
  - destruct (needed <=? total + rc_size c)%Z; [reflexivity | rewrite IH; reflexivity].
  - apply IH.
Qed.
Lemma nothing_released_when_enough avail headroom l : (forall a, avail = Some a -> (headroom <= a)%Z) -> release_files avail headroom l = [].
Proof. unfold release_files. destruct avail as [a|]; [|reflexivity]. intros H. specialize (H a eq_refl). destruct (headroom - a <=? 0)%Z eqn:E; [reflexivity | lia]. Qed.

(* idle alignment: the ready flag afterwards is true exactly for resident files; missing files are recorded absent *)
Lemma idle_align_spec st ready : forall gone r, idle_align st ready = Some (gone, r) ->
  exists s, st = Some s /\ (gone = true <-> s = Missing) /\ (r = true <-> resident s = true).
Proof.
  destruct st as [[| | | |]|]; cbn; intros gone r H; try discriminate; injection H as <- <-; eexists; (split; [reflexivity|]); split; split; intros; try discriminate; try reflexivity.
Qed.

Definition ex_cands : list rcand :=
  [ {| rc_id := 1; rc_size := 100; rc_healthy := true; rc_ready := true; rc_state := Some Released |};
    {| rc_id := 2; rc_size := 100; rc_healthy := true; rc_ready := true; rc_state := Some Restored |};
    {| rc_id := 3; rc_size := 100; rc_healthy := true; rc_ready := false; rc_state := Some Restored |};
    {| rc_id := 4; rc_size := 100; rc_healthy := true; rc_ready := true; rc_state := Some Restored |};
    {| rc_id := 5; rc_size := 100; rc_healthy := true; rc_ready := true; rc_state := Some Restored |} ].
Lemma example_release : release_files (Some 50%Z) 200 ex_cands = [2; 4] /\
  hsm_state [47; 120] ([47; 120; 58; 32] ++ w_released ++ [32] ++ w_archived) (Some false) = Some Released.
Proof. vm_compute. split; reflexivity. Qed.
