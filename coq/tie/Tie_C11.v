(* T1 for C11/C12: guards of FairMultiFIFOQueue and of Task translated from /repo today *)
From Coq Require Import List NArith ZArith Bool Lia ZifyBool Arith.
From Alp Require Import Base.Str Base.Types Model.Queue.
From Run Require Gen_queue.
Import ListNotations.
Open Scope Z_scope.
Lemma tie_promote_more n e now it k : Gen_queue.g_promote_more (Z.of_nat (S n)) e now = expired now (e, it, k).
Proof. unfold Gen_queue.g_promote_more, expired. lia. Qed.
Lemma tie_promote_stop e now : Gen_queue.g_promote_more 0 e now = false.
Proof. reflexivity. Qed.
Lemma tie_nothing_queued n : Gen_queue.g_nothing_queued (Z.of_nat n) = Nat.ltb n 1.
Proof. unfold Gen_queue.g_nothing_queued. destruct (Nat.ltb_spec n 1); lia. Qed.
Lemma tie_locked b : Gen_queue.g_locked b = b.
Proof. reflexivity. Qed.
Lemma tie_fifo_empty (f : list qitem) : Gen_queue.g_fifo_empty (Z.of_nat (length f)) = match f with [] => true | _ => false end.
Proof. destruct f; reflexivity. Qed.
Lemma tie_head_blocks c h : Gen_queue.g_head_blocks (Z.of_nat c) (q_excl h) = head_blocks c h.
Proof. unfold Gen_queue.g_head_blocks, head_blocks. destruct c; reflexivity. Qed.
Lemma tie_lock_on_exclusive b : Gen_queue.g_lock_fifo b = b.
Proof. reflexivity. Qed.
Lemma tie_no_unfinished c : Gen_queue.g_no_unfinished (Z.of_nat c) = Nat.leb c 0.
Proof. unfold Gen_queue.g_no_unfinished. destruct c; [reflexivity|]. cbn [Nat.leb]. lia. Qed.
Lemma tie_all_done q i : Gen_queue.g_all_done (Z.of_nat q) (Z.of_nat i) = Nat.eqb q 0 && Nat.eqb i 0.
Proof. unfold Gen_queue.g_all_done. destruct q, i; reflexivity. Qed.
Lemma tie_join_waits i q : Gen_queue.g_join_waits (Z.of_nat i) (Z.of_nat q) = (Nat.ltb 0 i || Nat.ltb 0 q).
Proof. unfold Gen_queue.g_join_waits. destruct i, q; reflexivity. Qed.
Lemma tie_deferred w : Gen_queue.g_deferred w = (0 <? w).
Proof. reflexivity. Qed.
Lemma tie_refuse_when_joining j : Gen_queue.g_refuse j = j.
Proof. reflexivity. Qed.
Lemma tie_expiry now w : Gen_queue.g_expiry now w = now + w.
Proof. reflexivity. Qed.
