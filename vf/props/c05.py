"""C05 — quiescent convergence: fault-free rounds reach a fixed point at which the remaining work is blocked for a documented reason."""
import ast
import os
import pathlib

from vf import core
from vf.core import cbool, clist, cn, copt, cz, ctup
from vf.translate import core as T
from vf import grouppass
from vf.harness import histories, itemrun as ir, itemworld as iw
from vf.harness import world as w

TRUSTED = [
    "group pass (Model/Dispatch.v): the pending requests are taken in id order, as sqlite returns them; update_pull's answer is an input of the model; HSM family: scripted lfs, virtual clock, the system's rsync",
    "Coq 8.16.1 kernel + VM (the item theorems are decided by vm_compute over complete finite enumerations, lifted by forallb_forall); no native_compute",
    "the item model is hand-written (Model/Item.v); tie = correspondence: five fault-free rounds of the real daemons on single-item worlds from every kind of start state "
    "(consistent or not) are compared round by round with the model in Coq",
    "modelled, not verified: one round = every host's daemon iterates once, tasks run serially (Sim); items interact only through what the histories exercise "
    "(shared source flags, autosync chains, space) --- the multi-item bound is observed by the monitored histories, not proved; HSM and transport-class groups are not in the simulated layouts "
    "(C20 covers restore waiting on HSM nodes)",
]
RULE = ("single-item worlds from arbitrary start states x all environments: five fault-free rounds compared with the model in Coq, fixed point by round four and residual classification checked "
        "directly; random multi-host histories (operator commands, faults, transfers with failing transports) followed by fault-free rounds of all daemons until two consecutive identical "
        "snapshots (index + trees), with an independent blocking-reason oracle over the residual work; non-trivial = some request, suspect or released copy existed at the start of the "
        "fault-free phase; distinct by full input")

ROUND_LIMIT = 14


def gen(ctx):
    tr = T.parse(core.REPO / "alpenhorn/io/transport.py")
    q = "TransportGroupIO.pull_force"
    tests = [ast.unparse(x.test) for x in T.if_tests(T.find_func(tr, q))]
    if tests != ["not req.node_from.local", "n is not None", "node.db.under_min", "node.db.check_over_max()", "not node.io.fits(req.file.size_b)"]:
        raise T.Untranslatable(f"UNTRANSLATABLE: the tests of pull_force changed: {tests}")
    atoms = {"node.db.under_min": ("um", "bool"), "node.db.check_over_max()": ("om", "bool"), "node.io.fits(req.file.size_b)": ("fits", "bool"), "req.node_from.local": ("local_", "bool")}
    d = [T.nth_test(tr, q, 0, {}, "g_not_local", atoms=atoms), T.nth_test(tr, q, 2, {}, "g_skip_under_min", atoms=atoms),
         T.nth_test(tr, q, 3, {}, "g_skip_over_max", atoms=atoms), T.nth_test(tr, q, 4, {}, "g_skip_no_room", atoms=atoms)]
    src = ast.unparse(T.find_func(tr, q))
    for frag in ("for node in sorted(self._nodes, key=_node_key):", "return node.db.id * 1000000000.0", "n = node.db.avail_gb"):
        if frag not in src:
            raise T.Untranslatable(f"UNTRANSLATABLE: pull_force no longer contains `{frag}`")
    loop = [n for n in ast.walk(T.find_func(tr, q)) if isinstance(n, ast.For)]
    kinds = [type(x).__name__ for x in loop[0].body]
    if len(loop) != 1 or kinds != ["If", "If", "If", "Expr", "Return"] or ast.unparse(loop[0].body[3]) != "node.io.pull(req)" or any(not (len(x.body) == 2 and isinstance(x.body[1], ast.Continue)) for x in loop[0].body[:3]):
        raise T.Untranslatable(f"UNTRANSLATABLE: the node loop of pull_force is no longer three skip tests followed by the hand-off: {kinds}")
    return {"Gen_transport": T.HEADER + "\n".join(d) + "\n"}


def proofs(ctx):
    try:
        files = gen(ctx)
    except T.Untranslatable as e:
        ctx.broke("translator", "TransportGroupIO.pull_force", str(e))
        files = None
    if files:
        core.check_tie(ctx, files, ["Tie_C05"])
    try:
        grouppass.pin()
    except T.Untranslatable as e:
        ctx.broke("translator", "UpdateableGroup.update / update_pull", str(e))
    core.check_property_file(ctx, "C05.v")


# ---- transport groups: which node gets the pull --------------------------------------------------------------------------
def explore_transport(ctx, base, n):
    from alpenhorn.daemon import update as U
    from alpenhorn.io import transport as TR

    terms, keep = [], []
    for k in range(n):
        rng = ctx.rng
        w.fresh_db(host="h1")
        gt, gs = w.mkgroup("gt", io_class="Transport"), w.mkgroup("gs")
        local = rng.random() < 0.85
        src = w.mknode(None, "src", gs, stype="F", host="h1" if local else "h9", root="/nonexistent/src")
        acq = w.mkacq("acq")
        f = w.mkfile(acq, "f", b"0123456789")
        w.mkcopy(src, f, "Y", "Y", size_b=10)
        big = w.mkfile(acq, "big", None, size_b=3 * 2 ** 30, md5sum="0" * 32)
        rows = []
        avails = rng.sample([None, None, 1, 2, 3, 5, 8, 13, 21], rng.randint(1, 4))
        for j, a in enumerate(avails):
            um = rng.random() < 0.3
            om = rng.random() < 0.25
            row = w.mknode(None, f"t{j}", gt, stype=rng.choice("TTTTA"), host="h1", root=f"/nonexistent/t{j}", avail_gb=a,
                           min_avail_gb=(a + 1 if (um and a is not None) else 0), max_total_gb=(1 if om else None))
            if om:
                w.mkcopy(row, big, "Y", "Y", size_b=3 * 2 ** 30)
            rows.append(row)
        queue = w.StepQueue.make()
        unodes = [U.UpdateableNode(queue, w.StorageNode.get(id=r.id)) for r in rows]
        gio = TR.TransportGroupIO(w.StorageGroup.get(id=gt.id), {}, queue)
        try:
            used = gio.set_nodes(unodes)
        except ValueError:
            continue
        got = []
        facts = []
        for un in used:
            fits = rng.random() < 0.8
            un.io.fits = lambda size, _f=fits: _f
            un.io.pull = lambda req, _i=un.db.id: got.append(_i)
            facts.append((un.db.id, un.db.avail_gb, bool(un.db.under_min), bool(un.db.check_over_max()), fits))
        req = w.mkreq(f, src, gt)
        gio.pull_force(w.ArchiveFileCopyRequest.get(id=req.id))
        ctx.count("transport-choice")
        if len(used) > 1:
            ctx.distinct_add(("transport", local, repr(facts)))
        rp = {"family": "transport", "local": local, "nodes": facts, "handed_to": got}
        # the statement: handed to the fullest eligible node, exactly once; to nobody iff none is eligible or the source is remote
        elig = [x for x in facts if not x[2] and not x[3] and x[4]]
        if len(got) > 1 or (got and (not local or got[0] not in [x[0] for x in elig])) or (local and elig and not got):
            ctx.fail("C05:transport-node-choice", f"pull_force handed the request to {got}; eligible nodes {[x[0] for x in elig]}, source local={local}", rp)
        elif got and elig:
            keyf = lambda x: x[1] if x[1] is not None else x[0] * 1e9
            if keyf([x for x in elig if x[0] == got[0]][0]) > min(keyf(x) for x in elig):
                ctx.fail("C05:transport-node-choice", f"pull_force chose node {got[0]} although an eligible node with less free space exists ({elig})", rp)
        terms.append(ctup(cbool(local), clist([f"(TN {cn(i)} {copt(None if a is None else cz(int(a)), ty='Z')} {cbool(um)} {cbool(om)} {cbool(ft)})" for (i, a, um, om, ft) in facts], "tnode"),
                          copt(cn(got[0]) if got else None, ty="N")))
        keep.append(rp)
        if k == 0:
            ctx.sample(rp)
    bad = core.run_cases(ctx, "transport", "Corr.C05", "case", "check", terms, shard=400, extra_imports=("Model.Transport",))
    for b in bad[:3]:
        ctx.broke("correspondence", f"transport node choice: model and implementation differ on {keep[b]}")


# ---- single items ----------------------------------------------------------------------------------------------------------
def gen_any_item(rng):
    tr = rng.choice(["rsync", "rsync", "bbcp", "bbcp", "hardlink", "internal", "notool", "noroute"])
    local = iw.TRANSPORTS[tr][0]
    sh = "Y" if local else rng.choice("YYYMMXN")
    sd = "good" if local else rng.choice(["good", "good", "good", "bad", None])
    row = rng.choice([None, None, None] + [(h, wn) for h in "YMXN" for wn in "YMN"])
    disk = rng.choice([None, "good", "good", "bad"])
    i = {"src_has": sh, "src_disk": sd, "dst_row": row, "dst_disk": disk, "ph": rng.random() < 0.1 and disk is None, "tmp": False, "req": rng.choice(["pending"] * 6 + ["completed", "cancelled"])}
    e = {"src_active": rng.random() < 0.8, "dst_usable": rng.random() < 0.85, "gate_ok": rng.random() < 0.8, "transport": tr, "del_ok": rng.random() < 0.5}
    return i, e


def reasons_single(e, st):
    out = []
    if not e["dst_usable"]:
        out.append("no usable destination node")
    if st["dst_row"] is not None and st["dst_row"][0] == "M":
        out.append("destination awaiting a check")
    if not e["src_active"]:
        out.append("source inactive")
    if st["src_has"] == "M":
        out.append("source suspect")
    if not e["gate_ok"]:
        out.append("destination out of space")
    if e["transport"] in ("notool", "noroute"):
        out.append("no transport route")
    return out


def explore_items(ctx, base, n):
    terms, keep = [], []
    for k in range(n):
        i, e = gen_any_item(ctx.rng)
        sim = iw.build(base, i, e)
        try:
            obs, errs = ir.rounds_from(sim, e, 5)
        finally:
            sim.shutdown()
        ctx.count("item-rounds")
        if i["req"] == "pending" or (i["dst_row"] and (i["dst_row"][0] == "M" or i["dst_row"][1] == "N")):
            ctx.distinct_add(("item", repr(i), repr(e)))
        rp = {"family": "item", "item": i, "env": e}
        for err in errs:
            ctx.fail("C05:daemon-died", f"a daemon died in a fault-free round: {err[:300]}", rp)
        if obs[3] != obs[4]:
            ctx.fail("C05:no-fixed-point", f"round 4 leaves {obs[3]} but round 5 changes it to {obs[4]}", rp)
        x = obs[4]
        if x["req"] == "pending" and not reasons_single(e, x):
            ctx.fail("C05:pending-without-reason", f"after five fault-free rounds the request is still pending with nothing blocking it: {x}", rp)
        if e["dst_usable"] and x["dst_row"] is not None and x["dst_row"][0] == "M" and x["dst_row"][1] != "N":
            ctx.fail("C05:suspect-without-verdict", f"after five fault-free rounds the destination copy is still suspect: {x}", rp)
        if e["src_active"] and x["src_has"] == "M":
            ctx.fail("C05:suspect-without-verdict", f"after five fault-free rounds the source copy is still suspect: {x}", rp)
        if e["dst_usable"] and e["del_ok"] and x["dst_row"] is not None and x["dst_row"][1] == "N" and x["dst_row"][0] != "N":
            ctx.fail("C05:released-not-deleted", f"after five fault-free rounds the released copy is still there although enough archive copies exist: {x}", rp)
        terms.append(ir.rounds_term(e, i, obs))
        keep.append((i, e, obs))
        if k == 0:
            ctx.sample({"item": i, "env": e, "after_each_round": obs})
    bad = core.run_cases(ctx, "rounds", "Corr.Item", "case", "check", terms, shard=300, extra_imports=("Model.Item", "Model.Pull"))
    for b in bad[:3]:
        ctx.broke("correspondence", f"item model and implementation differ on the rounds of {keep[b]}")


# ---- multi-item histories ---------------------------------------------------------------------------------------------------
def marker_ok(n):
    try:
        return (pathlib.Path(n.root) / "ALPENHORN_NODE").read_text().splitlines()[0].rstrip() == n.name
    except (OSError, IndexError):
        return False


def managed(n):
    return bool(n.active) and n.host in histories.HOSTS and marker_ok(n)


def residual(sim):
    """what is left at the fixed point that is not explained by a documented reason"""
    bad = []
    nodes = list(w.StorageNode.select())
    by_group = {}
    for n in nodes:
        by_group.setdefault(n.group_id, []).append(n)
    for c in w.ArchiveFileCopy.select():
        n = c.node
        rel = f"{c.file.acq.name}/{c.file.name}"
        if c.has_file == "M" and c.wants_file != "N" and managed(n):
            bad.append(("C05:suspect-without-verdict", f"copy of {rel} on {n.name} is still suspect"))
        if c.wants_file == "N" and c.has_file != "N" and managed(n):
            need = 3 if n.storage_type == "A" else 2
            have = (w.ArchiveFileCopy.select().join(w.StorageNode).where(w.ArchiveFileCopy.file == c.file_id, w.ArchiveFileCopy.has_file == "Y", w.StorageNode.storage_type == "A").count())
            pending_src = (w.ArchiveFileCopyRequest.select().where(w.ArchiveFileCopyRequest.file == c.file_id, w.ArchiveFileCopyRequest.node_from == n.id,
                                                                    w.ArchiveFileCopyRequest.completed == 0, w.ArchiveFileCopyRequest.cancelled == 0).count())
            if have >= need and not pending_src:
                bad.append(("C05:released-not-deleted", f"released copy of {rel} on {n.name} (has_file={c.has_file}) is still there with {have} healthy archive copies on record"))
    for r in w.ArchiveFileImportRequest.select().where(w.ArchiveFileImportRequest.completed == 0):
        n = r.node
        if not managed(n):
            continue
        p = pathlib.Path(n.root, r.path)
        locked = (p.parent / f".{p.name}.lock").exists()
        if not locked:
            bad.append(("C05:import-not-completed", f"import request #{r.id} for {r.path!r} on {n.name} is still open and nothing locks the file"))
    for r in w.ArchiveFileCopyRequest.select().where(w.ArchiveFileCopyRequest.completed == 0, w.ArchiveFileCopyRequest.cancelled == 0):
        src = r.node_from
        rel = f"{r.file.acq.name}/{r.file.name}"
        reasons = []
        dst_nodes = by_group.get(r.group_to_id, [])
        usable = [n for n in dst_nodes if managed(n)]
        hosts = {n.host for n in usable}
        # the default group I/O needs exactly one local node per daemon
        if not usable or any(sum(1 for n in usable if n.host == h) != 1 for h in hosts):
            reasons.append("no usable destination node")
        if not src.active:
            reasons.append("source inactive")
        sc = w.ArchiveFileCopy.get_or_none(file=r.file_id, node=src.id)
        if sc is not None and sc.has_file == "M":
            reasons.append("source suspect")
        states = [c.has_file for c in w.ArchiveFileCopy.select().where(w.ArchiveFileCopy.file == r.file_id, w.ArchiveFileCopy.node.in_([n.id for n in dst_nodes]))]
        if "M" in states and "Y" not in states:
            reasons.append("destination awaiting a check")
        for n in usable:
            if (n.min_avail_gb and n.avail_gb is not None and n.avail_gb < n.min_avail_gb) or (n.max_total_gb is not None and n.max_total_gb > 0 and n.max_total_gb < 1e-6):
                reasons.append("destination out of space")
            if src.host != n.host and (not src.username or not src.address):
                reasons.append("no transport route")
        if not reasons:
            bad.append(("C05:pending-without-reason", f"request #{r.id} ({rel} from {src.name} to group {r.group_to.name}) is still pending and none of the documented reasons applies "
                                                      f"(source copy: {sc.has_file if sc else None}, destination states: {states})"))
    return bad


def run_history(ctx, base, spec, ops):
    from vf.harness import daemon, monitors

    sim = daemon.Sim(base / "hist", spec)
    sim.set_tools("both")
    rp = {"family": "history", "spec": spec, "ops": [list(o) for o in ops]}
    mon = monitors.Monitors(sim, ctx, rp)
    try:
        for op in ops:
            res = histories.apply_op(sim, mon, op)
            if res is not None and res["error"]:
                ctx.fail("C05:daemon-died", f"daemon on {op[1]} died during the history: {res['error'][:300]}", rp)
                return None
        # operator activity and faults stop here
        sim.set_tools("both")
        work = (w.ArchiveFileCopyRequest.select().where(w.ArchiveFileCopyRequest.completed == 0, w.ArchiveFileCopyRequest.cancelled == 0).count()
                + w.ArchiveFileCopy.select().where((w.ArchiveFileCopy.has_file == "M") | (w.ArchiveFileCopy.wants_file == "N")).count()
                + w.ArchiveFileImportRequest.select().where(w.ArchiveFileImportRequest.completed == 0).count())
        prev, rounds = None, None
        for k in range(ROUND_LIMIT):
            for h in histories.HOSTS:
                r = sim.iterate(h)
                if r["error"]:
                    ctx.fail("C05:daemon-died", f"daemon on {h} died in fault-free round {k + 1}: {r['error'][:300]}", rp)
                    return None
            cur = (sim.index(), sim.trees())
            if cur == prev:
                rounds = k
                break
            prev = cur
        if rounds is None:
            ctx.fail("C05:no-fixed-point", f"no two consecutive identical snapshots within {ROUND_LIMIT} fault-free rounds", rp)
            return None
        for sig, what in residual(sim):
            ctx.fail(sig, f"at the fixed point (after {rounds} rounds): {what}", rp)
        return {"rounds": rounds, "work": work}
    finally:
        sim.shutdown()


def batch_corpus():
    """one delete task handles a batch of released copies: a copy the deletion-safety rule holds back must not hold back the others"""
    out = []
    for blocked in ([1], [0], [0, 2], [3]):
        nodes = [{"name": "fld", "group": "g1", "stype": "F", "host": "h1", "active": True, "username": "u", "address": "addr"},
                 {"name": "a1", "group": "g2", "stype": "A", "host": "h2", "active": True, "username": "u", "address": "addr"},
                 {"name": "a2", "group": "g3", "stype": "A", "host": "h2", "active": True, "username": "u", "address": "addr"}]
        files = [{"acq": "acq1", "name": f"f{i}", "size": 13} for i in range(4)]
        copies = [{"file": i, "node": "fld", "has": "Y", "wants": "N"} for i in range(4)]
        for i in range(4):
            copies.append({"file": i, "node": "a1", "has": "Y", "wants": "Y"})
            if i not in blocked:
                copies.append({"file": i, "node": "a2", "has": "Y", "wants": "Y"})
        out.append(({"groups": [{"name": "g1"}, {"name": "g2"}, {"name": "g3"}], "nodes": nodes, "acqs": ["acq1"], "files": files, "copies": copies,
                     "reqs": [], "rules": [], "unregistered": [], "ireqs": []}, []))
    return out


def quota_corpus():
    """a destination that is over its size limit for a while and then is not: the waiting transfer must go through afterwards
    (the file system has room for six such transfers only, so nothing may stay reserved by the refused attempts)"""
    spec = {"groups": [{"name": "g1"}, {"name": "g2"}],
            "nodes": [{"name": "src", "group": "g1", "stype": "F", "host": "h1", "active": True, "username": "u", "address": "addr"},
                      {"name": "dst", "group": "g2", "stype": "A", "host": "h1", "active": True, "username": "u", "address": "addr", "max_total_gb": 1e-12}],
            "acqs": ["acq1"], "files": [{"acq": "acq1", "name": "f0", "size": 13}, {"acq": "acq1", "name": "f1", "size": 150}],
            "copies": [{"file": 0, "node": "dst", "has": "Y", "wants": "Y"}, {"file": 1, "node": "src", "has": "Y", "wants": "Y"}],
            "reqs": [{"file": 1, "from": "src", "to": "g2", "state": "pending"}], "rules": [], "unregistered": [], "ireqs": []}
    return [(spec, [("iter", "h1")] * 8 + [("cli", "node modify", ["dst", "--no-max-total"])], 2000)]


def explore_histories(ctx, base, n):
    worst = 0
    for spec, ops, free in quota_corpus():
        orig_statvfs = os.statvfs

        class _SV:
            def __init__(self, real):
                self.__dict__.update({k: getattr(real, k) for k in dir(real) if k.startswith("f_")})
                self.f_bavail, self.f_bsize, self.f_frsize = free, 1, 1

        os.statvfs = lambda p_, _o=orig_statvfs: _SV(_o(p_))
        try:
            run_history(ctx, base, spec, ops)
        finally:
            os.statvfs = orig_statvfs
        ctx.count("history")
    corpus = batch_corpus()
    for k in range(n + len(corpus)):
        if k < len(corpus):
            spec, ops = corpus[k]
        else:
            spec = histories.gen_spec(ctx.rng)
            ops = histories.gen_ops(ctx.rng, spec, ctx.rng.randint(2, 10))
        r = run_history(ctx, base, spec, ops)
        ctx.count("history")
        if r is None:
            continue
        worst = max(worst, r["rounds"])
        if r["work"]:
            ctx.distinct_add(("hist", repr(spec), repr(ops)))
        if k == 0:
            ctx.sample({"history_ops": [list(o) for o in ops], "fault_free_rounds_to_fixed_point": r["rounds"], "open_work_items_at_start": r["work"]})
    ctx.cov["max_rounds_to_fixed_point"] = worst


def explore_hsm(ctx, base):
    """HSM groups: suspect copies on a Lustre-HSM node in every residency state (on disk and archived, on disk and not yet archived, released
    to tape), each the source of a pending transfer to another group on the same host; the real node / group updates run round after round
    over a scripted lfs and a virtual clock.  Every copy must get its verdict, every transfer complete and no task keep re-queueing itself."""
    import itertools
    import os as _os

    from alpenhorn.common import util
    from alpenhorn.daemon import update as U
    from alpenhorn.scheduler import pool
    from vf.harness import lustre
    from vf.props import c20

    combos = [c for c in itertools.product(("restored", "released", "unarchived"), repeat=2)] + [("unarchived", "unarchived", "restored"), ("released", "unarchived", "released")]
    for states in combos:
        nf = len(states)
        W = c20.World(base / "hsm5", "hsm", nf, [10 + 7 * i for i in range(nf)])
        w = W.w
        fl = lustre.FakeLustre(None)
        fl.install()
        lfs_stand_in = util.run_command

        def run_command(cmd, *a, _fl=fl, _lfs=lfs_stand_in, **k):
            # transports are the system's own; everything else is the scripted lfs
            return _fl._orig(cmd, *a, **k) if _os.path.basename(str(cmd[0])) in ("rsync", "bbcp") else _lfs(cmd, *a, **k)

        util.run_command = run_command
        pool.global_abort.clear()
        try:
            for i, st in enumerate(states):
                W.add_copy(i, has="M", ready=(st in lustre.RESIDENT))
                fl.state[W.paths[i]] = st
                w.mkreq(W.files[i], W.node, W.g2)
            un_h = U.UpdateableNode(W.queue, w.StorageNode.get(id=W.node.id))
            un_o = U.UpdateableNode(W.queue, w.StorageNode.get(id=W.other.id))
            ug = U.UpdateableGroup(queue=W.queue, group=w.StorageGroup.get(id=W.g2.id), nodes=[un_o], idle=un_o.idle)
            seen, fixed_at, ok = None, None, True
            for rnd in range(ROUND_LIMIT):
                un_h.reinit(w.StorageNode.get(id=W.node.id))
                un_o.reinit(w.StorageNode.get(id=W.other.id))
                ug.reinit(group=w.StorageGroup.get(id=W.g2.id), nodes=[un_o], idle=un_o.idle)
                for x in (un_h, un_o, ug):
                    x.update()
                for x in (un_h, un_o, ug):
                    x.update_idle()
                ug.io.after_update()
                un_h.io.after_update()
                un_o.io.after_update()
                ok = c20.drain_due(W) and ok
                # ten minutes pass: running restores finish, deferred tasks come due
                W.clock.now += 660
                fl.tick(1.0)
                ok = c20.drain_due(W) and ok
                snap = ([(c.has_file, c.wants_file) for c in w.ArchiveFileCopy.select().order_by(w.ArchiveFileCopy.id)],
                        [(bool(r.completed), bool(r.cancelled)) for r in w.ArchiveFileCopyRequest.select().order_by(w.ArchiveFileCopyRequest.id)], W.queue.deferred_size)
                if snap == seen and fixed_at is None:
                    fixed_at = rnd
                seen = snap
            ctx.count("hsm-convergence")
            ctx.distinct_add(("hsm", states))
            verdicts = [c.has_file for c in w.ArchiveFileCopy.select().where(w.ArchiveFileCopy.node == W.node.id).order_by(w.ArchiveFileCopy.id)]
            reqs = [(bool(r.completed), bool(r.cancelled)) for r in w.ArchiveFileCopyRequest.select().order_by(w.ArchiveFileCopyRequest.id)]
            left = (W.queue.qsize, W.queue.inprogress_size, W.queue.deferred_size)
            rp = {"family": "hsm", "residency": list(states), "verdicts": verdicts, "requests_completed_cancelled": reqs, "queued_running_deferred": left, "rounds": ROUND_LIMIT}
            if not ok:
                ctx.fail("C05:daemon-died", f"HSM node with suspect copies in states {states}: a task raised (the daemon would stop)", rp)
            if "M" in verdicts:
                ctx.fail("C05:suspect-without-verdict", f"HSM node, suspect copies in residency states {states}: after {ROUND_LIMIT} fault-free rounds (ten minutes apart) the copies are {verdicts}: "
                         f"a suspect copy still has no verdict; tasks queued / running / deferred: {left}", rp)
            elif any(r != (True, False) for r in reqs):
                ctx.fail("C05:pending-without-reason", f"HSM source with copies in residency states {states} (all healthy: {verdicts}): after {ROUND_LIMIT} fault-free rounds the transfers are "
                         f"(completed, cancelled) = {reqs}; tasks queued / running / deferred: {left}", rp)
            elif any(left):
                ctx.fail("C05:no-fixed-point", f"HSM node, states {states}: everything is verified and transferred but tasks keep re-queueing themselves: queued / running / deferred = {left}", rp)
        finally:
            fl.remove()
            W.close()
            pool.global_abort.clear()


def explore(ctx):
    base = ctx.tmp()
    q = ctx.quick()
    explore_transport(ctx, base, 150 if q else 4000)
    explore_items(ctx, base, 60 if q else 2500)
    explore_histories(ctx, base, 40 if q else 1500)
    explore_hsm(ctx, base)
    grouppass.explore(ctx, 80 if q else 2000)


def search(ctx):
    explore(ctx)


def replay(ctx, rp):
    r = rp["replay"]
    base = ctx.tmp()
    if r.get("family") == "history":
        print(run_history(ctx, base, r["spec"], [tuple(o) for o in r["ops"]]))
    elif r.get("family") == "item":
        i = r["item"] | {"dst_row": tuple(r["item"]["dst_row"]) if r["item"]["dst_row"] else None}
        sim = iw.build(base, i, r["env"])
        try:
            obs, errs = ir.rounds_from(sim, r["env"], 5)
        finally:
            sim.shutdown()
        for o in obs:
            print(o)
        return 0
    for f in ctx.failing:
        print(f["signature"], f["what"])
    return 1 if ctx.failing else 0
