"""C11/C12 — the fair multi-FIFO queue and the Task contract, under the deterministic scheduler."""
import ast
import types

from vf import core
from vf.core import cbool, clist, cn, cnat, copt, ctup, cz
from vf.translate import core as T
from vf.harness import sched

TRUSTED = [
    "Coq 8.16.1 kernel + VM; no native_compute",
    "translator vf/translate for the guards of FairMultiFIFOQueue (_get candidate filter, promotion test, task_done, join, put) and Task.__call__",
    "abstraction: the implementation's _keys_by_inprogress level sets are represented by the per-FIFO in-progress counts they mirror; the choice among "
    "admissible FIFOs (Python set iteration) is taken from the implementation and checked admissible",
    "the deterministic scheduler (vf/harness/sched.py) and the placement of each operation at its lock acquisition (linearisation point); "
    "modelled, not verified: atomicity of statements inside a critical section, real time (virtual clock), metrics",
]
RULE = ("random and enumerated schedules of 1 producer (+ optional joiner) and 1-3 consumers over 1-3 FIFO keys with immediate / deferred / exclusive puts, "
        "timed gets, task_done, size queries and join; every run yields one operation trace in linearisation order that the model replays; real Task objects with "
        "generated yield / clean-up scripts; non-trivial = at least one delivery; distinct by (plan, schedule)")


# ---- T1 ------------------------------------------------------------------------------------------------------
def gen(ctx):
    tree = T.parse(core.REPO / "alpenhorn/scheduler/queue.py")
    Q = "FairMultiFIFOQueue."
    fg = T.find_func(tree, Q + "_get")
    tests = [ast.unparse(x.test) for x in T.if_tests(fg)]
    want = ['len(self._deferrals) > 0', 'timeout_at > first_expiry', 'wait > 0 and self._total_queued == 0',
            'len(self._deferrals) > 0 and self._deferrals[0][0] <= monotonic()', 'self._total_queued < 1', 'not key_set',
            'candidate in self._fifo_locks', 'not self._fifos[candidate]', 'count and self._fifos[candidate][0][1]', 'key is not None',
            'key is None', 'skipped_exclusive', 'wait > 0', 'exclusive', 'len(self._keys_by_inprogress) == count']
    if tests != want:
        raise T.Untranslatable(f"UNTRANSLATABLE: tests of _get changed: {tests}")
    atoms = {"self._deferrals": ("deferrals", "list"), "self._deferrals[0][0]": ("first_expiry", "Z"), "monotonic()": ("now", "Z"),
             "self._total_queued": ("total_queued", "Z"), "self._total_inprogress": ("total_inprogress", "Z"),
             "candidate in self._fifo_locks": ("locked", "bool"), "self._fifos[candidate]": ("fifo", "list"),
             "self._fifos[candidate][0][1]": ("head_exclusive", "bool"), "self._joining": ("joining", "bool")}
    env = {"count": "Z", "exclusive": "bool", "wait": "Z"}
    d = [
        T.nth_test(tree, Q + "_get", 3, env, "g_promote_more", ["deferrals_len", "first_expiry", "now"], atoms=atoms),
        T.nth_test(tree, Q + "_get", 4, env, "g_nothing_queued", atoms=atoms),
        T.nth_test(tree, Q + "_get", 6, env, "g_locked", atoms=atoms),
        T.nth_test(tree, Q + "_get", 7, env, "g_fifo_empty", atoms=atoms),
        T.nth_test(tree, Q + "_get", 8, env, "g_head_blocks", ["count", "head_exclusive"], atoms=atoms),
        T.nth_test(tree, Q + "_get", 13, env, "g_lock_fifo", atoms=atoms),
        T.nth_test(tree, Q + "task_done", 0, env, "g_no_unfinished", atoms=atoms, expect_count=2),
        T.nth_test(tree, Q + "task_done", 1, env, "g_all_done", ["total_queued", "total_inprogress"], atoms=atoms),
        T.nth_test(tree, Q + "join", 0, env, "g_join_waits", ["total_inprogress", "total_queued"], atoms=atoms, expect_count=1),
        T.nth_test(tree, Q + "put", 0, env, "g_deferred", atoms=atoms, expect_count=2),
        T.nth_test(tree, Q + "put", 1, env, "g_refuse", atoms=atoms),
    ]
    fp = T.find_func(tree, Q + "put")
    push = [ast.unparse(x) for x in ast.walk(fp) if isinstance(x, ast.Call) and ast.unparse(x.func) == "heapq.heappush"]
    if push != ["heapq.heappush(self._deferrals, (monotonic() + wait, item, key, exclusive))"]:
        raise T.Untranslatable(f"UNTRANSLATABLE: deferral push changed: {push}")
    d.append("Definition g_expiry (now wait : Z) : Z := (now + wait)%Z.")
    src = (core.REPO / "alpenhorn/scheduler/queue.py").read_text()
    for needle in ["self._not_empty = threading.Condition(self._lock)", "self._all_tasks_done = threading.Condition(self._lock)",
                   "self._all_tasks_done.notify_all()", "item, exclusive = fifo.popleft()", "fifo.append((item, exclusive))",
                   "heapq.heappop(self._deferrals)", "self._fifo_locks.discard(key)", "self._fifo_locks.add(key)"]:
        if needle not in src:
            raise T.Untranslatable(f"UNTRANSLATABLE: expected statement not found in queue.py: {needle}")
    # idle reporting (daemon/update.py)
    upd = T.parse(core.REPO / "alpenhorn/daemon/update.py")
    ni = T.find_func(upd, "UpdateableNode.idle")
    if [ast.unparse(x) for x in T.strip_doc(ni.body)] != ["return self._queue.fifo_size(self.io.fifo) == 0"]:
        raise T.Untranslatable("UNTRANSLATABLE: UpdateableNode.idle is no longer the emptiness of the node's FIFO")
    gi = T.find_func(upd, "UpdateableGroup.idle")
    body = T.strip_doc(gi.body)
    shape = [type(x).__name__ for x in body]
    ok = (shape == ["If", "If", "For", "Return"]
          and ast.unparse(body[0].test) == "self._queue.fifo_size(self.io.fifo)" and ast.unparse(body[0].body[0]) == "return False"
          and ast.unparse(body[1].test) == "self._nodes is None" and ast.unparse(body[1].body[0]) == "return False"
          and ast.unparse(body[2].iter) == "self._nodes" and len(body[2].body) == 1 and isinstance(body[2].body[0], ast.If)
          and ast.unparse(body[2].body[0].test) == "not node.idle" and [ast.unparse(x) for x in body[2].body[0].body] == ["return False"] and not body[2].body[0].orelse
          and ast.unparse(body[3]) == "return True")
    if not ok:
        raise T.Untranslatable(f"UNTRANSLATABLE: UpdateableGroup.idle no longer has the shape (group FIFO, nodes known, every node idle): {ast.unparse(gi)[:400]}")
    # the daemon's own wait for the queue to drain (update_loop in exit-after-update mode): queued + running + deferred
    ul = T.find_func(upd, "update_loop")
    drains = [ast.unparse(x.test) for x in T.if_tests(ul) if "deferred_size" in ast.unparse(x.test)]
    if drains != ["queue.qsize + queue.inprogress_size + queue.deferred_size == 0"]:
        raise T.Untranslatable(f"UNTRANSLATABLE: update_loop's drain test changed: {drains}")
    # Task.__call__: the re-queue call
    tt = T.parse(core.REPO / "alpenhorn/scheduler/task.py")
    fc = T.find_func(tt, "Task.__call__")
    puts = [ast.unparse(x) for x in ast.walk(fc) if isinstance(x, ast.Call) and ast.unparse(x.func) == "self._queue.put"]
    if puts != ["self._queue.put(self, self._key, exclusive=self._exclusive, wait=result)"]:
        raise T.Untranslatable(f"UNTRANSLATABLE: Task.__call__ re-queue call changed: {puts}")
    return {"Gen_queue": T.HEADER + "\n".join(d) + "\n"}


def proofs(ctx):
    try:
        files = gen(ctx)
    except T.Untranslatable as e:
        ctx.broke("translator", "scheduler/queue.py / task.py", str(e))
        files = None
    if files:
        core.check_tie(ctx, files, ["Tie_C11"])
    core.check_property_file(ctx, f"{ctx.pid}.v")


# ---- one run of the real queue -----------------------------------------------------------------------------------
def run_queue(programs, choose):
    """programs: {thread name: [op, ...]}; returns (linearised op records, stuck threads, scheduler trace, final sizes)"""
    import alpenhorn.scheduler.queue as Q
    from unittest.mock import MagicMock

    S = sched.Sched(choose, max_steps=50000)
    oplog = []  # records in linearisation order
    cur = {}  # thread -> state of its current call
    qref = {}

    def on_event(kind, t, obj, *rest):
        if kind != "mutex" or t not in cur or "q" not in qref:
            return
        q = qref["q"]
        c = cur[t]
        which = "main" if obj is q._lock else "dlock" if obj is q._dlock else None
        if which is None:
            return
        c[which] += 1
        op = c["op"]
        kind_ = op[0]
        rec = None
        if kind_ == "put" and op[4] <= 0 and which == "main" and c["main"] == 1:
            rec = {"op": ("put", op[1], op[2], op[3])}
        elif kind_ == "put" and op[4] > 0 and which == "dlock" and c["dlock"] == 1:
            rec = {"op": ("putd", S.now, op[4], op[1], op[2], op[3])}
        elif kind_ in ("done", "done_bad") and which == "main" and c["main"] == 1:
            rec = {"op": ("done", c["key"])}
        elif kind_ in ("qsize", "ipsize") and which == "main" and c["main"] == 1:
            rec = {"op": (kind_,)}
        elif kind_ == "fsize" and which == "main" and c["main"] == 1:
            rec = {"op": ("fsize", op[1])}
        elif kind_ == "dsize" and which == "dlock" and c["dlock"] == 1:
            rec = {"op": ("dsize",)}
        elif kind_ == "join":
            if which == "dlock" and c["dlock"] == 1:
                rec = {"op": ("joinbegin",), "res": None}
            elif which == "main":
                if c.get("lastcheck") is not None:
                    c["lastcheck"]["res"] = False  # the previous test did not exit the loop
                rec = {"op": ("joincheck",)}
                c["lastcheck"] = rec
            elif which == "dlock" and c["dlock"] == 2:
                if c.get("lastcheck") is not None:
                    c["lastcheck"]["res"] = True
                    c["lastcheck"] = None
                rec = {"op": ("joinend",), "res": None}
        elif kind_ == "get" and which == "dlock" and "attempt" in c:
            a = c["attempt"]
            a["dlock"] += 1
            if a["dlock"] == 2:
                rec = {"op": ("attempt", S.now), "t": t}
                a["rec"] = rec
        if rec is not None:
            rec.setdefault("t", t)
            oplog.append(rec)
            if "res" not in rec and kind_ not in ("get", "join"):
                c["rec"] = rec

    th, mono, slp = sched.fakes(S, on_event)
    saved = (Q.threading, Q.monotonic, Q.sleep, Q.Metric)
    Q.threading, Q.monotonic, Q.sleep, Q.Metric = th, mono, slp, MagicMock()
    try:
        class LQ(Q.FairMultiFIFOQueue):
            def _get(self, t):
                c = cur[S.cur]
                c["attempt"] = {"dlock": 0, "rec": None}
                r = super()._get(t)
                a = c.pop("attempt")
                if a["rec"] is not None:
                    a["rec"]["res"] = r
                return r

        q = LQ()
        qref["q"] = q
        results = {}

        def make(t, prog):
            def f():
                keys = []
                out = []
                for op in prog:
                    c = {"op": op, "main": 0, "dlock": 0}
                    cur[t] = c
                    k = op[0]
                    if k == "put":
                        r = q.put(op[1], op[2], exclusive=op[3], wait=op[4])
                        if "rec" in c:
                            c["rec"]["res"] = r
                    elif k == "get":
                        r = q.get(timeout=op[1])
                        if r is not None:
                            keys.append(r[1])
                        out.append(r)
                    elif k == "done":
                        if not keys:
                            continue
                        c["key"] = keys.pop(0)
                        q.task_done(c["key"])
                        if "rec" in c:
                            c["rec"]["res"] = "ok"
                    elif k == "done_bad":
                        c["key"] = op[1]
                        try:
                            q.task_done(op[1])
                            if "rec" in c:
                                c["rec"]["res"] = "ok"
                        except ValueError:
                            if "rec" in c:
                                c["rec"]["res"] = "err"
                    elif k == "qsize":
                        r = q.qsize
                        c["rec"]["res"] = r
                    elif k == "ipsize":
                        r = q.inprogress_size
                        c["rec"]["res"] = r
                    elif k == "dsize":
                        r = q.deferred_size
                        c["rec"]["res"] = r
                    elif k == "fsize":
                        r = q.fifo_size(op[1])
                        c["rec"]["res"] = r
                    elif k == "join":
                        q.join()
                    elif k == "sleep":
                        slp(op[1])
                    elif k == "drain":
                        # consumer loop: get / work / done until a get times out
                        while True:
                            c2 = {"op": ("get", op[1]), "main": 0, "dlock": 0}
                            cur[t] = c2
                            r = q.get(timeout=op[1])
                            if r is None:
                                break
                            if op[2]:
                                slp(op[2])
                            c3 = {"op": ("done",), "main": 0, "dlock": 0, "key": r[1]}
                            cur[t] = c3
                            q.task_done(r[1])
                            if "rec" in c3:
                                c3["rec"]["res"] = "ok"
                cur.pop(t, None)
                return out
            return f

        for t, prog in programs.items():
            S.spawn(t, make(t, prog))
        res, stuck = S.run()
        final = (q._total_queued, q._total_inprogress, len(q._deferrals))
        run_queue.livelock = S.abort
        return oplog, stuck, ([] if S.abort else S.trace), final
    finally:
        Q.threading, Q.monotonic, Q.sleep, Q.Metric = saved


# ---- monitor: the property on the linearised trace -------------------------------------------------------------------
def monitor(ctx, oplog, stuck, final, rp, excl_of):
    queued = {}  # key -> [ids] in entry order
    running = {}  # key -> [ids]
    deferred = []  # (expiry, id, key)
    put_ids, delivered = set(), []
    joining = False

    def fail(sig, what):
        ctx.fail(sig, what, rp)

    for rec in oplog:
        op, res = rec["op"], rec.get("res")
        k = op[0]
        if k == "put":
            _, i, key, ex = op
            queued.setdefault(key, []).append(i)
            put_ids.add(i)
        elif k == "putd":
            _, now, w, i, key, ex = op
            put_ids.add(i)
            if res is False:
                if not joining:
                    fail("C11:deferred-put-refused", f"deferred put of {i} refused although nobody is joining")
            else:
                if joining:
                    fail("C11:deferred-put-during-join", f"deferred put of {i} accepted during join()")
                deferred.append((now + w, i, key))
        elif k == "attempt":
            now = op[1]
            due = sorted(d for d in deferred if d[0] <= now)
            deferred = [d for d in deferred if d[0] > now]
            for _, i, key in due:
                queued.setdefault(key, []).append(i)
            if res is not None:
                i, key = res
                if i in delivered:
                    fail("C11:delivered-twice", f"item {i} handed out twice")
                if i not in put_ids:
                    fail("C11:phantom", f"item {i} handed out but never put")
                if i not in queued.get(key, []):
                    was_def = [d for d in deferred if d[1] == i]
                    if was_def:
                        fail("C12:deferred-early", f"deferred item {i} (expiry {was_def[0][0]}) handed out at {now}")
                    else:
                        fail("C11:not-queued", f"item {i} handed out from FIFO {key} where it is not queued")
                    continue
                if queued[key][0] != i:
                    fail("C11:fifo-order", f"FIFO {key}: handed out {i} while {queued[key][0]} was put earlier")
                run_k = running.get(key, [])
                if any(excl_of[j] for j in run_k):
                    fail("C12:exclusive-violated", f"item {i} started in FIFO {key} while exclusive item {run_k} is running")
                if excl_of[i] and run_k:
                    fail("C12:exclusive-not-alone", f"exclusive item {i} started in FIFO {key} while {run_k} are running")
                # fairness: no other eligible FIFO has fewer running items
                for k2, ql in queued.items():
                    if k2 == key or not ql:
                        continue
                    r2 = running.get(k2, [])
                    if any(excl_of[j] for j in r2) or (excl_of[ql[0]] and r2):
                        continue
                    if len(r2) < len(run_k):
                        fail("C12:unfair", f"item taken from FIFO {key} ({len(run_k)} running) although FIFO {k2} has {len(r2)} running and a startable head")
                queued[key].remove(i)
                running.setdefault(key, []).append(i)
                delivered.append(i)
            else:
                # nothing handed out: there must be no startable head
                for k2, ql in queued.items():
                    r2 = running.get(k2, [])
                    if ql and not any(excl_of[j] for j in r2) and not (excl_of[ql[0]] and r2):
                        fail("C11:get-missed-item", f"get attempt at {now} returned nothing although item {ql[0]} of FIFO {k2} could start")
        elif k == "done":
            key = op[1]
            if res == "ok":
                if not running.get(key):
                    fail("C11:task_done-accepted", f"task_done({key}) accepted with nothing running")
                else:
                    running[key].pop(0)
            elif res == "err" and running.get(key):
                fail("C11:task_done-rejected", f"task_done({key}) raised although {running[key]} are running")
        elif k == "qsize":
            true = sum(len(v) for v in queued.values())
            if res != true:
                fail("C11:qsize", f"qsize reports {res}, {true} items are queued")
        elif k == "ipsize":
            true = sum(len(v) for v in running.values())
            if res != true:
                fail("C11:inprogress_size", f"inprogress_size reports {res}, {true} items are running")
        elif k == "dsize":
            if res != len(deferred):
                fail("C11:deferred_size", f"deferred_size reports {res}, {len(deferred)} items are deferred")
        elif k == "fsize":
            true = len(queued.get(op[1], [])) + len(running.get(op[1], []))
            if res != true:
                fail("C11:fifo_size", f"fifo_size({op[1]}) reports {res}, true number is {true}")
        elif k == "joinbegin":
            joining = True
            deferred = []
        elif k == "joincheck":
            busy = any(queued.values()) or any(running.values())
            if res is True and busy:
                fail("C11:join-early", "join() returned while items are queued or running")
            if res is False and not busy:
                # a test that does not exit although nothing is left would spin; with a condition it then waits
                fail("C11:join-missed", "join() kept waiting although nothing is queued or running")
        elif k == "joinend":
            joining = False
    busy = any(queued.values()) or any(running.values())
    if stuck and not busy and any(str(t).startswith("J") for t in stuck):
        fail("C11:join-lost-wakeup", f"thread {stuck} sleeps in join() although nothing is queued or running")
    if not stuck:
        tq = sum(len(v) for v in queued.values())
        ti = sum(len(v) for v in running.values())
        if (tq, ti, len(deferred)) != final:
            fail("C11:final-sizes", f"final counters {final} differ from the true numbers {(tq, ti, len(deferred))}")


# ---- Coq terms ---------------------------------------------------------------------------------------------------------
def op_term(rec, excl_of):
    op, res = rec["op"], rec.get("res")
    k = op[0]
    I = lambda i: f"(I {cn(i)} {cbool(excl_of[i])})"  # noqa: E731
    if k == "put":
        return f"(Put {I(op[1])} {cn(op[2])})", "ONone"
    if k == "putd":
        return f"(PutDeferred {cz(op[1])} {cz(op[2])} {I(op[3])} {cn(op[4])})", f"(OBool {cbool(res)})"
    if k == "attempt":
        ch = copt(None if res is None else res[1], cn, "N")
        return f"(GetAttempt {cz(op[1])} {ch})", f"(OItem {copt(None if res is None else res[0], cn, 'N')})"
    if k == "done":
        return f"(Done {cn(op[1])})", "ONone" if res == "ok" else "OErr"
    if k == "qsize":
        return "QSize", f"(ONat {cnat(res)})"
    if k == "ipsize":
        return "IPSize", f"(ONat {cnat(res)})"
    if k == "dsize":
        return "DSize", f"(ONat {cnat(res)})"
    if k == "fsize":
        return f"(FSize {cn(op[1])})", f"(ONat {cnat(res)})"
    if k == "joinbegin":
        return "JoinBegin", "ONone"
    if k == "joincheck":
        return "JoinCheck", f"(OBool {cbool(res)})"
    if k == "joinend":
        return "JoinEnd", "ONone"
    raise ValueError(op)


def gen_plan(rng, with_join):
    nitems = rng.randint(2, 7)
    nkeys = rng.randint(1, 3)
    excl_of = {}
    prod = []
    for i in range(1, nitems + 1):
        excl_of[i] = rng.random() < 0.3
        w = rng.choice([0, 0, 0, 1, 2, 3])
        prod.append(("put", i, rng.randint(1, nkeys), excl_of[i], w))
        r = rng.random()
        if r < 0.15:
            prod.append(("sleep", rng.choice([1, 2])))
        elif r < 0.3:
            prod.append((rng.choice(["qsize", "ipsize", "dsize"]),))
        elif r < 0.4:
            prod.append(("fsize", rng.randint(1, nkeys)))
    programs = {"P": prod}
    for c in range(rng.randint(1, 3)):
        programs[f"C{c}"] = [("drain", rng.choice([4, 5, 12]), rng.choice([0, 0, 1, 2]))]
        if rng.random() < 0.2:
            programs[f"C{c}"].insert(0, ("done_bad", rng.randint(1, nkeys)))
    if with_join:
        programs["J"] = [("sleep", rng.choice([0, 1])), ("join",), ("qsize",), ("ipsize",)] if rng.random() < 0.7 else [("join",)]
    return programs, excl_of


def gen_script(rng):
    """one thread issuing put / get / done itself: reaches states a draining consumer never leaves standing
    (several FIFOs with running items at once, exclusive heads waiting behind them, equal running counts)"""
    nkeys = rng.randint(2, 4)
    excl_of = {}
    prog = []
    i = 0
    outstanding = 0
    for _ in range(rng.randint(8, 22)):
        r = rng.random()
        if r < 0.45 or i == 0:
            i += 1
            excl_of[i] = rng.random() < 0.3
            prog.append(("put", i, rng.randint(1, nkeys), excl_of[i], rng.choice([0, 0, 0, 0, 1, 2])))
        elif r < 0.85:
            prog.append(("get", rng.choice([1, 1, 3])))
            outstanding += 1
        elif outstanding:
            prog.append(("done",))
            outstanding -= 1
        else:
            prog.append((rng.choice(["qsize", "ipsize", "dsize"]),))
    programs = {"S": prog}
    if rng.random() < 0.3:
        programs["C0"] = [("drain", rng.choice([2, 4]), rng.choice([0, 1]))]
    return programs, excl_of


LIVELOCKS = [0]


def one_run(ctx, programs, excl_of, choose, terms, family):
    if LIVELOCKS[0] >= 3:  # each livelocked run burns its whole step budget; three reports are enough
        return [], []
    oplog, stuck, trace, final = run_queue(programs, choose)
    sched_choices = [c for c, _ in trace]
    rp = {"family": family, "programs": {t: [list(o) for o in p] for t, p in programs.items()}, "exclusive": {str(k): v for k, v in excl_of.items()}, "schedule": sched_choices}
    if run_queue.livelock:
        LIVELOCKS[0] += 1
        # the threads kept taking steps (50000 of them) without the virtual clock moving on: a consumer spins in get()
        last = [r["op"] for r in oplog[-6:]]
        ctx.fail("C11:livelock", f"the queue's threads spin without ever sleeping or finishing (threads {stuck} never returned); last operations {last}", rp)
        ctx.count(family)
        return trace, oplog
    incomplete = [r for r in oplog if "res" not in r]
    for r in incomplete:
        if r["op"][0] in ("attempt", "joincheck"):
            r["res"] = None if r["op"][0] == "attempt" else False
    monitor(ctx, oplog, stuck, final, rp, excl_of)
    ctx.count(family)
    if any(r["op"][0] == "attempt" and r.get("res") for r in oplog):
        ctx.distinct_add((repr(sorted(programs.items())), tuple(sched_choices)))
    usable = [r for r in oplog if "res" in r]
    if len(usable) == len(oplog):
        ops, obs = zip(*[op_term(r, excl_of) for r in oplog]) if oplog else ((), ())
        terms.append((ctup(clist(ops, "op"), clist(obs, "obs")), rp))
    return trace, oplog


# ---- real Task objects ----------------------------------------------------------------------------------------------------
def run_task(key, excl, body):
    """drive a real Task with a generator body following `body`; returns the effects per invocation"""
    from alpenhorn.scheduler.task import Task

    effects = []

    class FakeQ:
        def put(self, item, key, exclusive=False, wait=0):
            effects.append(("requeue", key, bool(exclusive), wait))

    def make_cleanup(c):
        return lambda: effects.append(("cleanup", c))

    has_yield = any(e[1] != "stop" for e in body)

    def func_gen(task):
        for acts, end in body:
            for c, first in acts:
                task.on_cleanup(make_cleanup(c), first=first)
            if end != "stop":
                yield (None if end[1] is None else end[1])

    def func_plain(task):
        for acts, end in body:
            for c, first in acts:
                task.on_cleanup(make_cleanup(c), first=first)

    t = Task(func_gen if has_yield else func_plain, FakeQ(), key, exclusive=excl)
    assert effects.pop(0) == ("requeue", key, excl, 0)  # the constructor's own put
    per_call = []
    for _ in range(len(body) + 2):
        effects.clear()
        fin = t()
        per_call.append(list(effects))
        if fin:
            break
    return per_call


def explore_consumers(ctx, n):
    """the real consumer of the queue: pool.Worker.run taking real Tasks (plain and yielding ones, several FIFOs, some exclusive) until the
    queue is empty; afterwards nothing is queued, deferred or running, so every size must be 0 and a node whose FIFO this is must be idle"""
    from alpenhorn.scheduler import FairMultiFIFOQueue, pool
    from alpenhorn.scheduler.task import Task

    rng = ctx.rng
    for i in range(n):
        queue = FairMultiFIFOQueue()
        keys = [f"n:k{j}" for j in range(rng.randint(1, 3))]
        ran = []
        plan = []
        for t in range(rng.randint(1, 6)):
            nyield = rng.choice([0, 0, 1, 1, 2, 3])
            key = rng.choice(keys)
            excl = rng.random() < 0.3
            plan.append((key, excl, nyield))

            def body(task, _t=t, _n=nyield):
                for step in range(_n):
                    ran.append((_t, step))
                    yield
                ran.append((_t, "end"))

            def plain(task, _t=t):
                ran.append((_t, "end"))

            Task(body if nyield else plain, queue, key, exclusive=excl, name=f"t{t}")
        pool.global_abort.clear()
        guard = 0
        while queue.qsize and guard < 100:
            guard += 1
            wk = pool.Worker(queue, 0)
            got = {"n": 0}

            class QP:
                @staticmethod
                def get(timeout=None, _got=got, _wk=wk):
                    if _got["n"] >= 1:
                        _wk._worker_stop.set()
                        return None
                    _got["n"] += 1
                    return queue.get(timeout=0.001)

                task_done = staticmethod(queue.task_done)

            wk._queue = QP
            wk.run()
        ctx.count("consumer-run")
        ctx.distinct_add(("consumer", tuple(plan)))
        sizes = {"qsize": queue.qsize, "inprogress_size": queue.inprogress_size, "deferred_size": queue.deferred_size, **{f"fifo_size({k})": queue.fifo_size(k) for k in keys}}
        ends = sorted(t for t, s_ in ran if s_ == "end")
        rp = {"family": "consumer", "tasks": [list(p_) for p_ in plan], "sizes": sizes, "ran": [list(r) for r in ran]}
        if ends != list(range(len(plan))) or pool.global_abort.is_set():
            ctx.fail("C11:delivery", f"tasks {plan}: completed {ends} (each must run to its end exactly once); abort={pool.global_abort.is_set()}", rp)
        elif any(sizes.values()):
            ctx.fail("C11:sizes-after-drain", f"every task has finished and the worker has stopped, but the queue reports {sizes} (a node with this FIFO would never be idle again, join() would never return)", rp)
        pool.global_abort.clear()


def explore_cleanup_exclusion(ctx):
    """an exclusive task is not finished before its clean-up has run: while the real Worker.run is still in the clean-up of exclusive task X
    (which ended normally, after a yield, or with a database error) another consumer asking for work gets nothing from X's FIFO"""
    import peewee as pw
    from alpenhorn.scheduler import FairMultiFIFOQueue, pool
    from alpenhorn.scheduler.task import Task

    for gen in (False, True):
        for fault in (False, True):
            for excl in (True, False):
                queue = FairMultiFIFOQueue()
                seen = []
                sizes_seen = []
                ydone = []

                def probe():
                    # X is still running (this is its clean-up): it must still be counted
                    sizes_seen.append((queue.qsize, queue.inprogress_size, queue.fifo_size("n:node"), 0 if ydone else 1))
                    it = queue.get(timeout=0.001)
                    seen.append(None if it is None else str(it[0]))
                    if it is not None:
                        queue.task_done(it[1])  # (taken by the probing consumer; not run)

                def xbody(task, _gen=gen, _fault=fault):
                    task.on_cleanup(probe)
                    if _gen:
                        yield
                    if _fault:
                        raise pw.OperationalError("injected by the harness")

                def xplain(task, _fault=fault):
                    task.on_cleanup(probe)
                    if _fault:
                        raise pw.OperationalError("injected by the harness")

                Task(xbody if gen else xplain, queue, "n:node", exclusive=excl, name="X")
                Task(lambda task, _y=ydone: _y.append(1), queue, "n:node", name="Y")
                pool.global_abort.clear()
                for _ in range(4):
                    if queue.qsize == 0:
                        break
                    wk = pool.Worker(queue, 0)
                    got = {"n": 0}

                    class QP:
                        @staticmethod
                        def get(timeout=None, _got=got, _wk=wk):
                            if _got["n"] >= 1:
                                _wk._worker_stop.set()
                                return None
                            _got["n"] += 1
                            return queue.get(timeout=0.001)

                        task_done = staticmethod(queue.task_done)

                    wk._queue = QP
                    wk.run()
                    if seen:
                        break
                aborted = pool.global_abort.is_set()
                pool.global_abort.clear()
                ctx.count("cleanup-exclusion")
                ctx.distinct_add(("cleanup-exclusion", gen, fault, excl))
                rp = {"family": "cleanup-exclusion", "generator": gen, "database_error": fault, "exclusive": excl, "handed_out_during_cleanup": seen}
                if not seen or aborted:
                    ctx.broke("harness", "cleanup exclusion", f"X's clean-up did not run (generator={gen}, fault={fault}, exclusive={excl}); abort={aborted}")
                elif excl and seen[0] is not None:
                    ctx.fail("C12:exclusive-violated", f"while exclusive task X (generator={gen}, database error={fault}) was still in its clean-up another consumer was handed {seen[0]} from the same FIFO", rp)
                elif not excl and seen[0] is None and not gen:
                    # (an ordinary task does not hold the FIFO: the next item may start beside it)
                    pass
                if sizes_seen:
                    qs, ips, fs, yleft = sizes_seen[0]
                    if (qs, ips, fs) != (yleft, 1, 1 + yleft):
                        ctx.fail("C11:sizes-during-cleanup", f"task X (generator={gen}, database error={fault}, exclusive={excl}) is still running its clean-up and {yleft} other item(s) are queued, "
                                 f"but the queue reports queued={qs}, in progress={ips}, fifo_size={fs} (a node with fifo_size 0 is reported idle)", {**rp, "sizes_during_cleanup": sizes_seen[0]})


def explore_cleanup_once(ctx):
    """Task contract: every registered clean-up action runs exactly once, after the final step --- also when one of them (any position,
    either end of the stack) fails with a database error and the real Worker retries the clean-up"""
    import peewee as pw
    from alpenhorn.scheduler import FairMultiFIFOQueue, pool
    from alpenhorn.scheduler.task import Task

    for gen in (False, True):
        for nact in (2, 3, 4):
            for failing in range(nact):
                for first in (False, True):
                    queue = FairMultiFIFOQueue()
                    events = []

                    def mk(name, fail):
                        def act():
                            events.append(("cleanup", name))
                            if fail:
                                raise pw.OperationalError("injected by the harness")
                        return act

                    def body(task, _gen=gen):
                        for j in range(nact):
                            task.on_cleanup(mk(j, j == failing), first=first)
                        events.append(("step", 1))
                        if _gen:
                            yield
                            events.append(("step", 2))

                    def plain(task):
                        for j in range(nact):
                            task.on_cleanup(mk(j, j == failing), first=first)
                        events.append(("step", 1))

                    Task(body if gen else plain, queue, "n:node", name="X")
                    pool.global_abort.clear()
                    for _ in range(3):
                        if queue.qsize == 0:
                            break
                        wk = pool.Worker(queue, 0)
                        got = {"n": 0}

                        class QP:
                            @staticmethod
                            def get(timeout=None, _got=got, _wk=wk):
                                if _got["n"] >= 1:
                                    _wk._worker_stop.set()
                                    return None
                                _got["n"] += 1
                                return queue.get(timeout=0.001)

                            task_done = staticmethod(queue.task_done)

                        wk._queue = QP
                        wk.run()
                    aborted = pool.global_abort.is_set()
                    pool.global_abort.clear()
                    counts = {j: sum(1 for e in events if e == ("cleanup", j)) for j in range(nact)}
                    last_step = max(i for i, e in enumerate(events) if e[0] == "step")
                    early = [e for e in events[:last_step] if e[0] == "cleanup"]
                    ctx.count("cleanup-once")
                    ctx.distinct_add(("cleanup-once", gen, nact, failing, first))
                    rp = {"family": "cleanup-once", "generator": gen, "actions": nact, "failing": failing, "registered_first": first, "events": [list(e) for e in events]}
                    if any(c != 1 for c in counts.values()) or early or aborted:
                        ctx.fail("C12:cleanup", f"task with {nact} clean-up actions (action {failing} fails with a database error; generator={gen}): run counts {counts}, "
                                 f"clean-ups before the final step {early}, abort={aborted}; events {events}", rp)


def explore_drain(ctx):
    """update_loop(once=True) on a host without nodes: it returns only when nothing is queued, deferred or running; the loop's wait step is
    scripted (each wait lets one more piece of outstanding work finish), so no real time is involved"""
    from alpenhorn.daemon import update as U
    from alpenhorn.scheduler import FairMultiFIFOQueue
    from vf.harness import world as w

    for shape in ("running", "two-running", "queued-and-running", "deferred"):
        w.fresh_db(host="h1")
        queue = FairMultiFIFOQueue()
        outstanding = []  # callables finishing one piece of work each
        if shape in ("running", "two-running", "queued-and-running"):
            for j in range(2 if shape == "two-running" else 1):
                queue.put(f"item{j}", "n:x")
                queue.get(timeout=0.01)
                outstanding.append(lambda: queue.task_done("n:x"))
        if shape == "queued-and-running":
            queue.put("later", "n:y")
            outstanding.append(lambda: (queue.get(timeout=0.01), queue.task_done("n:y")))
        if shape == "deferred":
            queue.put("deferred", "n:z", wait=0.05)

            def take():
                import time as _t
                _t.sleep(0.06)
                queue.get(timeout=0.2)
                queue.task_done("n:z")
            outstanding.append(take)
        seen = []

        class GA:
            def is_set(self):
                return False

            def wait(self, t=None):
                seen.append((queue.qsize, queue.inprogress_size, queue.deferred_size))
                if outstanding:
                    outstanding.pop(0)()
                return False

            def set(self):
                pass

            def clear(self):
                pass

        class NoWorkers:
            def __len__(self):
                return 1  # "workers exist": the loop must not run tasks itself

            def check(self):
                pass

        saved = U.global_abort
        U.global_abort = GA()
        try:
            rc = U.update_loop(queue, NoWorkers(), True)
        finally:
            U.global_abort = saved
        left = (queue.qsize, queue.inprogress_size, queue.deferred_size)
        ctx.count("drain")
        ctx.distinct_add(("drain", shape))
        if any(left) or rc != 0:
            ctx.fail("C11:drain-returned-early", f"update_loop(once=True) returned {rc} with (queued, running, deferred) = {left} still outstanding (shape: {shape}; sizes seen at its waits: {seen})",
                     {"family": "drain", "shape": shape, "left": list(left), "waits": [list(x) for x in seen]})


def explore_tasks(ctx, n):
    rng = ctx.rng
    tcases = []
    for i in range(n):
        key = rng.randint(1, 4)
        excl = rng.random() < 0.5
        nseg = rng.randint(1, 4)
        body = []
        cid = 10
        for s in range(nseg):
            acts = []
            for _ in range(rng.randint(0, 3)):
                cid += 1
                acts.append((cid, rng.random() < 0.6))
            end = "stop" if s == nseg - 1 else ("yield", rng.choice([None, 0, 1, 5]))
            body.append((acts, end))
        per_call = run_task(key, excl, body)
        ctx.count("task")
        ctx.distinct_add(("task", key, excl, repr(body)))
        # monitor: the Task contract
        allc = [c for acts, _ in body for c, _ in acts]
        ran = [e[1] for call in per_call for e in call if e[0] == "cleanup"]
        rp = {"family": "task", "key": key, "exclusive": excl, "body": body, "effects": per_call}
        if sorted(ran) != sorted(allc) or any(e[0] == "cleanup" for call in per_call[:-1] for e in call):
            ctx.fail("C12:cleanup", f"clean-ups registered {allc}, run {ran} (per invocation {per_call})", rp)
        for call in per_call:
            for e in call:
                if e[0] == "requeue" and (e[1] != key or e[2] != excl):
                    ctx.fail("C12:requeue-changed", f"yielding task of FIFO {key} (exclusive={excl}) re-queued as FIFO {e[1]} exclusive={e[2]}", rp)
        segs = []
        for acts, end in body:
            a = clist([f"(Reg {cn(c)} {cbool(f)})" for c, f in acts], "act")
            e = "Stop" if end == "stop" else f"(Yield {copt(end[1], cz, 'Z')})"
            segs.append(ctup(a, e))
        effs = clist([clist([f"(RanCleanup {cn(e[1])})" if e[0] == "cleanup" else f"(Requeue {cn(e[1])} {cbool(e[2])} {cz(e[3])})" for e in call], "eff") for call in per_call], "(list eff)")
        tcases.append(ctup(cn(key), cbool(excl), clist(segs, "segment"), effs))
        if i == 0:
            ctx.sample({"task_body": body, "effects_per_invocation": per_call})
    bad = core.run_cases(ctx, "task", "Corr.C11", "tcase", "tcheck", tcases, shard=400, extra_imports=("Model.Task",))
    for i in bad[:3]:
        ctx.broke("correspondence", f"Task: model and implementation differ: {tcases[i][:300]}")


def _blocked_head(blocked, eligible, busy):
    """FIFO `blocked`: one running, exclusive head; FIFO `eligible`: one running, ordinary head; FIFO `busy` (optional): two running, ordinary head"""
    keys = [blocked, eligible] + ([busy] if busy else [])
    prog, ex = [], {}
    i = 0
    for k in keys:
        i += 1
        prog.append(("put", i, k, False, 0))
        ex[i] = False
    prog += [("get", 1)] * len(keys)
    if busy:
        i += 1
        prog += [("put", i, busy, False, 0), ("get", 1)]
        ex[i] = False
    i += 1
    prog.append(("put", i, blocked, True, 0))
    ex[i] = True
    for k in keys[1:]:
        i += 1
        prog.append(("put", i, k, False, 0))
        ex[i] = False
    prog += [("get", 1), ("get", 1), ("ipsize",), ("done",), ("get", 1), ("qsize",)]
    return ({"S": prog}, ex)


CORPUS = [
    _blocked_head(1, 2, 3), _blocked_head(2, 1, 3), _blocked_head(1, 2, None), _blocked_head(2, 1, None), _blocked_head(3, 1, 2), _blocked_head(2, 3, 1),
    ({"P": [("put", 1, 1, False, 0), ("put", 2, 1, True, 0), ("put", 3, 1, False, 0)], "C0": [("drain", 4, 1)], "C1": [("drain", 4, 1)]}, {1: False, 2: True, 3: False}),
    ({"P": [("put", 1, 1, False, 2), ("put", 2, 2, False, 0), ("dsize",)], "C0": [("drain", 5, 0)], "J": [("join",), ("qsize",)]}, {1: False, 2: False}),
    ({"P": [("put", 1, 1, True, 0), ("put", 2, 2, False, 0), ("put", 3, 2, False, 0)], "C0": [("drain", 4, 2)], "C1": [("drain", 4, 0)], "C2": [("drain", 12, 1)]}, {1: True, 2: False, 3: False}),
]


def explore_idle(ctx, n):
    """UpdateableNode.idle / UpdateableGroup.idle against the true contents of the queue"""
    from alpenhorn.daemon import update as U
    from alpenhorn.scheduler import FairMultiFIFOQueue
    from vf.harness import world as w

    rng = ctx.rng
    terms, keep = [], []
    for k in range(n):
        w.fresh_db(host="h1")
        g = w.mkgroup("g", io_class=rng.choice([None, "Transport"]))
        nn = rng.randint(1, 4)
        rows = [w.mknode(None, f"n{j}", g, stype="T", host="h1", root=f"/nonexistent/n{j}") for j in range(nn)]
        queue = FairMultiFIFOQueue()
        unodes = [U.UpdateableNode(queue, w.StorageNode.get(id=r.id)) for r in rows]
        known = rng.random() < 0.9
        try:
            ug = U.UpdateableGroup(queue=queue, group=w.StorageGroup.get(id=g.id), nodes=unodes if known else [], idle=True)
        except Exception:
            continue
        if not known:
            ug._nodes = None
        elif ug._nodes is None:
            continue
        keys = [ug.io.fifo] + [u.io.fifo for u in unodes]
        taken = []
        for key in keys:
            for _ in range(rng.choice([0, 0, 0, 1, 2])):
                queue.put(object(), key)
        for _ in range(rng.randint(0, 3)):
            it = queue.get(timeout=0.001)
            if it is not None:
                taken.append(it)
                if rng.random() < 0.4:
                    queue.task_done(it[1])
                    taken.pop()
        # the truth, read from the queue's own internals
        with queue._lock:
            truth = {key: len(queue._fifos.get(key, ())) for key in keys}
        for it in taken:
            truth[it[1]] += 1
        order = ug._nodes if ug._nodes is not None else []
        nidle = [bool(u.idle) for u in order]
        gidle = bool(ug.idle)
        ctx.count("idle-report")
        if sum(truth.values()):
            ctx.distinct_add(("idle", repr(sorted(truth.items())), known))
        rp = {"family": "idle", "queued_plus_running": truth, "nodes_known": known, "node_idle": nidle, "group_idle": gidle}
        for u, flag in zip(order, nidle):
            if flag != (truth[u.io.fifo] == 0):
                ctx.fail("C11:node-idle", f"node {u.name} reported idle={flag} with {truth[u.io.fifo]} queued or running task(s)", rp)
        want = truth[ug.io.fifo] == 0 and ug._nodes is not None and all(truth[u.io.fifo] == 0 for u in order)
        if gidle != want:
            ctx.fail("C11:group-idle", f"group reported idle={gidle}; queued or running per FIFO: {truth} (nodes known: {ug._nodes is not None})", rp)
        idx = {key: i + 1 for i, key in enumerate(keys)}
        terms.append(ctup(clist([ctup(cn(idx[key]), cn(v)) for key, v in truth.items()], "(N * N)"), cn(idx[ug.io.fifo]),
                          ("None" if ug._nodes is None else "(Some " + clist([cn(idx[u.io.fifo]) for u in order], "N") + ")"),
                          clist([cbool(x) for x in nidle], "bool"), cbool(gidle)))
        keep.append(rp)
        if k == 0:
            ctx.sample(rp)
    bad = core.run_cases(ctx, "idle", "Corr.C11", "icase", "icheck", terms, shard=500, extra_imports=("Model.Idle",))
    for b in bad[:3]:
        ctx.broke("correspondence", f"idle reporting: model and implementation differ on {keep[b]}")


def explore(ctx):
    rng = ctx.rng
    terms = []
    explore_idle(ctx, 150 if ctx.quick() else 4000)
    # corpus with enumerated schedules
    for programs, excl_of in CORPUS:
        ex = sched.Explorer()
        n = 0
        while not ex.done and n < (150 if ctx.quick() else 3000):
            trace, oplog = one_run(ctx, programs, excl_of, ex.chooser(), terms, "queue-enumerated")
            ex.advance(trace)
            n += 1
    # random plans, random schedules
    nplans = 120 if ctx.quick() else 4000
    for p in range(nplans):
        programs, excl_of = gen_script(rng) if p % 3 == 2 else gen_plan(rng, with_join=rng.random() < 0.35)
        for s in range((2 if len(programs) == 1 else 6) if ctx.quick() else 10):
            r2 = __import__("random").Random(rng.getrandbits(32))
            trace, oplog = one_run(ctx, programs, excl_of, lambda n: r2.randrange(n), terms, "queue-random")
            if p == 0 and s == 0:
                ctx.sample({"programs": {t: pr for t, pr in programs.items()}, "linearised_ops": [[list(r["op"]), r.get("res")] for r in oplog[:12]]})
    bad = core.run_cases(ctx, "queue", "Corr.C11", "case", "check", [t for t, _ in terms], shard=300, extra_imports=("Model.Queue",))
    for i in bad[:3]:
        ctx.broke("correspondence", f"queue: model and implementation differ on {terms[i][1]['programs']} schedule {terms[i][1]['schedule'][:40]}")
        ctx.notes.append({"differing_case": terms[i][1]})
    explore_tasks(ctx, 200 if ctx.quick() else 3000)
    explore_consumers(ctx, 120 if ctx.quick() else 3000)
    explore_drain(ctx)
    explore_cleanup_exclusion(ctx)
    explore_cleanup_once(ctx)


def search(ctx):
    explore(ctx)


def replay(ctx, rp):
    r = rp["replay"]
    if r.get("family") == "task":
        body = [([tuple(a) for a in acts], end if end == "stop" else tuple(end)) for acts, end in r["body"]]
        print(run_task(r["key"], r["exclusive"], body))
        return 2
    programs = {t: [tuple(o) for o in p] for t, p in r["programs"].items()}
    excl_of = {int(k): v for k, v in r["exclusive"].items()}
    it = iter(r["schedule"])
    terms = []
    trace, oplog = one_run(ctx, programs, excl_of, lambda n: next(it, 0), terms, "replay")
    for rec in oplog:
        print(rec["t"], rec["op"], "->", rec.get("res"))
    for f in ctx.failing:
        print(f["what"])
    return 1 if ctx.failing else 0
