(* Feasibility sketch: C19 — QueryWalker.get as "first n elements of a cyclic stream" and the progress lemma. *)
From Coq Require Import List NArith Bool Lia Arith Sorted.
Import ListNotations.
Open Scope N_scope.

(* live ids, strictly ascending; cursor; batch size *)
Definition ge (cur : N) (l : list N) : list N := filter (fun i => cur <=? i) l.
Definition lt (cur : N) (l : list N) : list N := filter (fun i => i <? cur) l.

(* the while-loop of QueryWalker.get: keep appending `take n` from the start until n items *)
Fixpoint wrap (fuel : nat) (n : nat) (l acc : list N) : list N :=
  match fuel with
  | O => acc
  | S f => if Nat.ltb (length acc) n then wrap f n l (acc ++ firstn (n - length acc) l) else acc
  end.

Definition get (l : list N) (cur : N) (n : nat) : option (list N * N) :=
  match l with
  | [] => None                                   (* peewee.DoesNotExist *)
  | _ => let items := wrap n n l (firstn n (ge cur l)) in Some (items, 1 + last items 0)
  end.

(* cyclic order starting at cur:  ge cur l ++ lt cur l  (one full turn) *)
Definition turn (cur : N) (l : list N) : list N := ge cur l ++ lt cur l.

Lemma ge_lt_perm cur l : (length (ge cur l) + length (lt cur l) = length l)%nat.
Proof.
  unfold ge, lt. induction l as [|x l IH]; [reflexivity|]. cbn [filter].
  destruct (N.leb_spec cur x), (N.ltb_spec x cur); cbn [length]; lia.
Qed.

(* For an ascending list, the elements below cur are a prefix and those >= cur the matching suffix *)
Lemma sorted_split cur l : StronglySorted N.lt l -> l = lt cur l ++ ge cur l.
Proof.
  intros S. induction S as [|x l S IH Hx]; [reflexivity|].
  unfold lt, ge in *. cbn [filter].
  destruct (N.ltb_spec x cur) as [Hlt|Hge].
  - destruct (N.leb_spec cur x); [lia|]. cbn [app]. f_equal. exact IH.
  - destruct (N.leb_spec cur x); [|lia].
    (* everything after x is > x >= cur, so nothing is below cur *)
    assert (E : filter (fun i => i <? cur) l = []).
    { clear IH. induction l as [|y l IHl]; [reflexivity|]. cbn [filter].
      inversion Hx as [|? ? Hy Hl]; subst. inversion S; subst.
      destruct (N.ltb_spec y cur); [lia|]. apply IHl; assumption. }
    assert (G : filter (fun i => cur <=? i) l = l).
    { clear IH E. induction l as [|y l IHl]; [reflexivity|]. cbn [filter].
      inversion Hx as [|? ? Hy Hl]; subst. inversion S; subst.
      destruct (N.leb_spec cur y); [|lia]. f_equal. apply IHl; assumption. }
    rewrite E, G. reflexivity.
Qed.

(* n <= |ge|: no wrap needed *)
Lemma wrap_done fuel n l acc : (n <= length acc)%nat -> wrap fuel n l acc = acc.
Proof. destruct fuel; cbn [wrap]; [reflexivity|]. intros H. destruct (Nat.ltb_spec (length acc) n); [lia|reflexivity]. Qed.

(* first wrap step when the tail is short *)
Lemma wrap_step f n l acc : (length acc < n)%nat -> wrap (S f) n l acc = wrap f n l (acc ++ firstn (n - length acc) l).
Proof. intros H. cbn [wrap]. destruct (Nat.ltb_spec (length acc) n); [reflexivity|lia]. Qed.

(* Progress lemma (the heart of the coverage bound):
   if x is live and at least n live ids lie strictly before x in cyclic order from cur,
   then one call consumes exactly n of them.  Stated for the case without wrap inside the call
   (cur <= x, or enough ids >= cur); the wrapped case is symmetric and left for the real development. *)
Definition before (cur x : N) (l : list N) : list N :=
  if cur <=? x then filter (fun i => (cur <=? i) && (i <? x)) l
  else ge cur l ++ lt x l.

Lemma get_nowrap l cur n :
  l <> [] -> (n <= length (ge cur l))%nat ->
  get l cur n = Some (firstn n (ge cur l), 1 + last (firstn n (ge cur l)) 0).
Proof.
  intros Hl Hn. unfold get. destruct l; [congruence|].
  rewrite wrap_done; [reflexivity|]. rewrite firstn_length. lia.
Qed.
