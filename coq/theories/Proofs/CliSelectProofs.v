From Coq Require Import List NArith ZArith Bool Lia.
From Alp Require Import Base.Str Base.Types Model.CliSelect.
Import ListNotations.

Lemma memN_in x l : memN x l = true <-> In x l.
Proof. unfold memN. rewrite existsb_exists. split; [intros (y & H & E); apply N.eqb_eq in E; subst; exact H | intros H; exists x; split; [exact H | apply N.eqb_refl]]. Qed.

Lemma wants_changes_goal g : wants_changes g g = false.
Proof. destruct g; reflexivity. Qed.
Lemma satisfied_goal g : satisfied g g = true.
Proof. destruct g; reflexivity. Qed.

(* ---------- --size: the walk takes the not-yet-scheduled copies of the shortest prefix reaching the budget ---------- *)
Fixpoint prefix_until (i : idx) (size total : Z) (l : list cpy) : list cpy :=
  match l with
  | [] => []
  | c :: l' => let total' := (total + size_of i (k_file c))%Z in
               c :: (if (size <=? total')%Z then [] else prefix_until i size total' l')
  end.
Lemma walk_is_prefix i goal size : forall l total,
  walk i goal size total l = map k_id (filter (fun c => negb (satisfied goal (k_wants c))) (prefix_until i size total l)).
Proof.
  induction l as [|c l IH]; intros total; [reflexivity|]. cbn [walk prefix_until filter].
  destruct (satisfied goal (k_wants c)); cbn [negb]; destruct (size <=? total + size_of i (k_file c))%Z; cbn [map filter]; rewrite ?IH; reflexivity.
Qed.

(* whatever superset of the selection is updated, a second walk over the updated candidates selects nothing *)
Lemma walk_after_update i goal size sel : forall l total,
  (forall x, In x (walk i goal size total l) -> In x sel) ->
  walk i goal size total (map (set_wants goal sel) l) = [].
Proof.
  induction l as [|c l IH]; intros total H; [reflexivity|]. cbn [map walk].
  assert (Kf : k_file (set_wants goal sel c) = k_file c) by (unfold set_wants; destruct (memN _ _); reflexivity).
  rewrite Kf. cbn [walk] in H.
  destruct (satisfied goal (k_wants c)) eqn:Es.
  - assert (Es' : satisfied goal (k_wants (set_wants goal sel c)) = true).
    { unfold set_wants. destruct (memN _ _); cbn; [apply satisfied_goal | exact Es]. }
    rewrite Es'. destruct (size <=? total + size_of i (k_file c))%Z; [reflexivity | apply IH, H].
  - assert (Hin : memN (k_id c) sel = true) by (apply memN_in, H; left; reflexivity).
    assert (Es' : satisfied goal (k_wants (set_wants goal sel c)) = true) by (unfold set_wants; rewrite Hin; cbn; apply satisfied_goal).
    rewrite Es'. destruct (size <=? total + size_of i (k_file c))%Z; [reflexivity|]. apply IH. intros x Hx. apply H. right. exact Hx.
Qed.

Lemma walk_ext i1 i2 goal size : files i1 = files i2 -> forall l total, walk i1 goal size total l = walk i2 goal size total l.
Proof.
  intros E. assert (S : forall f, size_of i1 f = size_of i2 f) by (intros f; unfold size_of, file_of; rewrite E; reflexivity).
  induction l as [|c l IH]; intros total; [reflexivity|]. cbn [walk]. rewrite S, !IH. reflexivity.
Qed.

(* ---------- node clean is idempotent ---------- *)
Section Clean.
  Variable o : clean_opts.
  Variable i : idx.
  Let i' := clean_apply o i.
  (* the update does not feed back into the --target test (true when no target is given, or the cleaned node's
     group is not among the targets: see target_stable_no_targets / target_stable_other_group) *)
  Hypothesis target_stable : forall c, target_ok o i' c = target_ok o i c.

  Lemma file_facts f : size_of i' f = size_of i f /\ acq_of i' f = acq_of i f /\ reg_of i' f = reg_of i f.
  Proof. repeat split; reflexivity. Qed.

  Lemma clean_idempotent : clean_select o i' = [].
  Proof.
    unfold clean_select. set (sel := clean_select o i).
    assert (Hc : copies i' = map (set_wants (co_goal o) sel) (copies i)) by reflexivity.
    rewrite Hc. clear Hc.
    assert (Q : forall c, clean_query o i' (set_wants (co_goal o) sel c) && target_ok o i' (set_wants (co_goal o) sel c)
                          = (match co_size o with
                             | None => if memN (k_id c) sel then false else clean_query o i c && target_ok o i c
                             | Some _ => clean_query o i c && target_ok o i c end)).
    { intros c. rewrite target_stable.
      assert (T : target_ok o i (set_wants (co_goal o) sel c) = target_ok o i c).
      { unfold target_ok, set_wants. destruct (memN _ _); reflexivity. }
      rewrite T. unfold clean_query, days_ok, acq_ok, has_ok, set_wants.
      destruct (memN (k_id c) sel) eqn:Em; cbn [k_node k_has k_wants k_file].
      - destruct (co_size o); [reflexivity|]. rewrite wants_changes_goal. rewrite andb_false_r. reflexivity.
      - destruct (co_size o); reflexivity. }
    destruct (co_size o) as [s|] eqn:Esz.
    - (* --size *)
      assert (F : filter (fun c => clean_query o i' c && target_ok o i' c) (map (set_wants (co_goal o) sel) (copies i))
                  = map (set_wants (co_goal o) sel) (filter (fun c => clean_query o i c && target_ok o i c) (copies i))).
      { induction (copies i) as [|c l IH]; [reflexivity|]. cbn [map filter]. rewrite Q. destruct (clean_query o i c && target_ok o i c); cbn [map]; rewrite IH; reflexivity. }
      rewrite F. rewrite (walk_ext i' i) by reflexivity. apply walk_after_update. intros x Hx. unfold sel, clean_select. rewrite Esz. exact Hx.
    - (* no --size: every candidate was selected *)
      assert (F : filter (fun c => clean_query o i' c && target_ok o i' c) (map (set_wants (co_goal o) sel) (copies i)) = []).
      { assert (S : forall c, In c (copies i) -> clean_query o i c && target_ok o i c = true -> memN (k_id c) sel = true).
        { intros c Hc' Hp. apply memN_in. unfold sel, clean_select. rewrite Esz. apply in_map. apply filter_In. split; assumption. }
        induction (copies i) as [|c l IH]; [reflexivity|]. cbn [map filter]. rewrite Q.
        destruct (memN (k_id c) sel) eqn:Em.
        - apply IH. intros; apply S; [right|]; assumption.
        - destruct (clean_query o i c && target_ok o i c) eqn:Ep; [rewrite (S c (or_introl eq_refl) Ep) in Em; discriminate|].
          apply IH. intros; apply S; [right|]; assumption. }
      rewrite F. reflexivity.
  Qed.
End Clean.

Lemma target_stable_no_targets o i : co_targets o = [] -> forall c, target_ok o (clean_apply o i) c = target_ok o i c.
Proof. intros E c. unfold target_ok. rewrite E. reflexivity. Qed.

(* with the cleaned node's own copies left out of the --target test, the update never feeds back into it: every selected
   copy is on that node (ids are unique), so the test reads the same rows before and after *)
Lemma selected_on_node o i c : In c (copies i) -> NoDup (map k_id (copies i)) -> memN (k_id c) (clean_select o i) = true -> k_node c = co_node o.
Proof.
  intros Hc Hnd Hm. apply memN_in in Hm.
  assert (S : forall x, In x (clean_select o i) -> exists c', In c' (copies i) /\ k_id c' = x /\ k_node c' = co_node o).
  { intros x Hx. unfold clean_select in Hx.
    assert (Hsub : exists c', In c' (filter (fun c => clean_query o i c && target_ok o i c) (copies i)) /\ k_id c' = x).
    { destruct (co_size o) as [sz|].
      - rewrite walk_is_prefix in Hx. apply in_map_iff in Hx as (c' & E & Hin). apply filter_In in Hin as [Hin _].
        exists c'. split; [|exact E]. clear -Hin. revert Hin. generalize 0%Z.
        induction (filter (fun c => clean_query o i c && target_ok o i c) (copies i)) as [|a l IH]; intros t Hin; [destruct Hin|].
        cbn [prefix_until] in Hin. destruct Hin as [<-|Hin]; [left; reflexivity|].
        destruct (sz <=? t + size_of i (k_file a))%Z; [destruct Hin | right; exact (IH _ Hin)].
      - apply in_map_iff in Hx as (c' & E & Hin). exists c'. auto. }
    destruct Hsub as (c' & Hin & E). apply filter_In in Hin as [Hin Hq]. exists c'. split; [exact Hin|]. split; [exact E|].
    apply andb_true_iff in Hq as [Hq _]. unfold clean_query in Hq.
    repeat (apply andb_true_iff in Hq; destruct Hq as [Hq ?]). apply N.eqb_eq. exact Hq. }
  destruct (S _ Hm) as (c' & Hc' & Eid & Hn).
  assert (c' = c); [|subst; exact Hn].
  clear -Hc Hc' Eid Hnd. induction (copies i) as [|a l IH]; [destruct Hc|]. cbn [map] in Hnd. inversion Hnd as [|x xs Hnot Hnd']; subst.
  destruct Hc as [->|Hc], Hc' as [->|Hc']; auto.
  - exfalso. apply Hnot. apply in_map_iff. exists c'. auto.
  - exfalso. apply Hnot. apply in_map_iff. exists c. split; [congruence | exact Hc].
Qed.
Lemma target_stable_always o i : NoDup (map k_id (copies i)) -> forall c, target_ok o (clean_apply o i) c = target_ok o i c.
Proof.
  intros Hnd c. unfold target_ok. destruct (co_targets o) as [|t ts]; [reflexivity|]. generalize (t :: ts). intros gs. induction gs as [|g gs IHg]; [reflexivity|]. cbn [forallb]. rewrite IHg. f_equal. clear IHg.
  unfold in_group_healthy_except, clean_apply, with_copies. cbn [copies]. unfold group_of. cbn [ngroup].
  assert (H : forall l, (forall x, In x l -> In x (copies i)) ->
     existsb (fun c0 => N.eqb (k_file c0) (k_file c) && N.eqb (assoc (k_node c0) (ngroup i)) g && healthy c0 && negb (N.eqb (k_node c0) (co_node o))) (map (set_wants (co_goal o) (clean_select o i)) l)
     = existsb (fun c0 => N.eqb (k_file c0) (k_file c) && N.eqb (assoc (k_node c0) (ngroup i)) g && healthy c0 && negb (N.eqb (k_node c0) (co_node o))) l).
  { induction l as [|a l IH]; intros Hsub; [reflexivity|]. cbn [map existsb]. rewrite IH by (intros; apply Hsub; right; assumption). f_equal.
    unfold set_wants. destruct (memN (k_id a) (clean_select o i)) eqn:Em; [|reflexivity]. cbn [k_file k_node].
    rewrite (selected_on_node o i a (Hsub a (or_introl eq_refl)) Hnd Em). rewrite N.eqb_refl. cbn [negb]. rewrite !andb_false_r. reflexivity. }
  apply H. auto.
Qed.
Lemma clean_idempotent_always o i : NoDup (map k_id (copies i)) -> clean_select o (clean_apply o i) = [].
Proof. intros Hnd. apply clean_idempotent. apply target_stable_always, Hnd. Qed.

Lemma in_group_healthy_other_group o i g f :
  g <> group_of i (co_node o) -> (forall c, In c (copies i) -> memN (k_id c) (clean_select o i) = true -> k_node c = co_node o) ->
  in_group_healthy (clean_apply o i) g f = in_group_healthy i g f.
Proof.
  intros Hg Hsel. unfold in_group_healthy, clean_apply, with_copies. cbn [copies]. unfold group_of. cbn [ngroup].
  induction (copies i) as [|c l IH]; [reflexivity|]. cbn [map existsb]. rewrite IH by (intros; apply Hsel; [right|]; assumption). f_equal.
  unfold set_wants. destruct (memN (k_id c) (clean_select o i)) eqn:Em; [|reflexivity]. cbn [k_file k_node].
  rewrite (Hsel c (or_introl eq_refl) Em). fold (group_of i (co_node o)).
  destruct (N.eqb_spec (group_of i (co_node o)) g); [congruence|]. rewrite !andb_false_r. reflexivity.
Qed.

(* ---------- node verify ---------- *)
Lemma acq_ok_ext i1 i2 acqs f : files i1 = files i2 -> acq_ok i1 acqs f = acq_ok i2 acqs f.
Proof. intros E. unfold acq_ok, acq_of, file_of. rewrite E. reflexivity. Qed.

Lemma verify_idempotent o i : verify_select o (verify_apply o i) = [].
Proof.
  set (sel := verify_select o i). unfold verify_select.
  replace (copies (verify_apply o i)) with (map (set_has (verify_goal o) sel) (copies i)) by reflexivity.
  assert (A : forall f, acq_ok (verify_apply o i) (vo_acqs o) f = acq_ok i (vo_acqs o) f) by (intros; apply acq_ok_ext; reflexivity).
  assert (S : forall c, In c (copies i) ->
             N.eqb (k_node c) (vo_node o) && verify_state o c && acq_ok i (vo_acqs o) (k_file c) && opt_mem (vo_listed o) (k_file c) = true -> memN (k_id c) sel = true).
  { intros c Hc Hp. apply memN_in. unfold sel, verify_select. apply in_map. apply filter_In. split; assumption. }
  assert (G : forall c, memN (k_id c) sel = true -> verify_state o (set_has (verify_goal o) sel c) = false).
  { intros c Hm. unfold set_has. rewrite Hm. unfold verify_state, verify_goal, state_sel. cbn [k_has k_wants].
    destruct (vo_cancel o); [destruct (vo_healthy o); [reflexivity|]; destruct (vo_missing o); reflexivity|].
    destruct (vo_all o); [cbn; rewrite ?andb_false_r; reflexivity|].
    destruct (negb (vo_corrupt o) && negb (vo_healthy o) && negb (vo_missing o)); cbn; rewrite ?andb_false_r; reflexivity. }
  generalize dependent (verify_apply o i). intros i2 A.
  assert (F : filter (fun c => N.eqb (k_node c) (vo_node o) && verify_state o c && acq_ok i2 (vo_acqs o) (k_file c) && opt_mem (vo_listed o) (k_file c))
                (map (set_has (verify_goal o) sel) (copies i)) = []).
  { induction (copies i) as [|c l IH]; [reflexivity|]. cbn [map filter]. rewrite A.
    destruct (memN (k_id c) sel) eqn:Em.
    - rewrite (G c Em). rewrite andb_false_r. cbn [andb]. apply IH. intros; apply S; [right|]; assumption.
    - assert (E : set_has (verify_goal o) sel c = c) by (unfold set_has; rewrite Em; reflexivity). rewrite E.
      destruct (N.eqb (k_node c) (vo_node o) && verify_state o c && acq_ok i (vo_acqs o) (k_file c) && opt_mem (vo_listed o) (k_file c)) eqn:Ep;
        [rewrite (S c (or_introl eq_refl) Ep) in Em; discriminate|]. apply IH. intros; apply S; [right|]; assumption. }
  rewrite F. reflexivity.
Qed.

(* ---------- sync ---------- *)
Lemma new_reqs_active start n g fs f : In f fs ->
  existsb (fun r => N.eqb (q_file r) f && N.eqb (q_from r) n && N.eqb (q_to r) g && pending r) (new_reqs start n g fs) = true.
Proof.
  revert start; induction fs as [|x fs IH]; intros start H; [destruct H|]. cbn [new_reqs existsb].
  destruct H as [->|H]; [cbn; rewrite !N.eqb_refl; reflexivity|]. rewrite (IH _ H). apply orb_true_r.
Qed.

Lemma sync_idempotent o i : sync_select o (sync_apply o i) = [].
Proof.
  unfold sync_apply. destruct (so_node o) as [n|] eqn:En; [|unfold sync_select; rewrite En; reflexivity].
  destruct (so_group o) as [g|] eqn:Eg; [|unfold sync_select; rewrite En, Eg; reflexivity].
  set (sel := sync_select o i). set (i2 := with_reqs i (reqs i ++ new_reqs (next_id (reqs i)) n g sel)).
  unfold sync_select. rewrite En, Eg.
  assert (C : copies i2 = copies i) by reflexivity. assert (Fl : files i2 = files i) by reflexivity.
  assert (T : forall f, in_any_target i2 (so_targets o) f = in_any_target i (so_targets o) f) by reflexivity.
  assert (P : forall f, in_group_present i2 g f = in_group_present i g f) by reflexivity.
  assert (A : forall f, acq_ok i2 (so_acqs o) f = acq_ok i (so_acqs o) f) by reflexivity.
  assert (R : forall f, active_transfer i2 n g f = active_transfer i n g f
                         || existsb (fun r => N.eqb (q_file r) f && N.eqb (q_from r) n && N.eqb (q_to r) g && pending r) (new_reqs (next_id (reqs i)) n g sel)).
  { intros f. unfold active_transfer, i2, with_reqs. cbn [reqs]. apply existsb_app. }
  rewrite C, Fl. clearbody i2.
  assert (F : forall l, (forall f, In f l -> In f (files i)) ->
     filter (fun f => existsb (fun c => N.eqb (k_file c) (f_id f) && N.eqb (k_node c) n && has_eqb (k_has c) HY) (copies i)
        && negb (in_any_target i2 (so_targets o) (f_id f)) && negb (in_group_present i2 g (f_id f))
        && opt_mem (so_listed o) (f_id f) && acq_ok i2 (so_acqs o) (f_id f) && negb (active_transfer i2 n g (f_id f))) l = []).
  { induction l as [|f l IH]; intros Hl; [reflexivity|]. cbn [filter]. rewrite T, P, A, R.
    set (Aa := existsb (fun c => N.eqb (k_file c) (f_id f) && N.eqb (k_node c) n && has_eqb (k_has c) HY) (copies i)
              && negb (in_any_target i (so_targets o) (f_id f)) && negb (in_group_present i g (f_id f))
              && opt_mem (so_listed o) (f_id f) && acq_ok i (so_acqs o) (f_id f)).
    destruct Aa eqn:EA; [|cbn [andb]; apply IH; intros; apply Hl; right; assumption].
    destruct (active_transfer i n g (f_id f)) eqn:Eact; [cbn; apply IH; intros; apply Hl; right; assumption|].
    assert (Hsel : In (f_id f) sel).
    { unfold sel, sync_select. rewrite En, Eg. apply in_map. apply filter_In. split; [apply Hl; left; reflexivity|].
      fold Aa. rewrite EA, Eact. reflexivity. }
    rewrite (new_reqs_active _ n g sel _ Hsel). cbn. apply IH. intros; apply Hl; right; assumption. }
  rewrite F by auto. reflexivity.
Qed.

(* a repeated sync never creates a second pending request for the same file, source and destination *)
Definition pending_count (rs : list rq) (n g f : N) : nat :=
  length (filter (fun r => N.eqb (q_file r) f && N.eqb (q_from r) n && N.eqb (q_to r) g && pending r) rs).
Lemma new_reqs_count start n g fs n' g' f : NoDup fs ->
  pending_count (new_reqs start n g fs) n' g' f = if (N.eqb n n' && N.eqb g g' && memN f fs) then 1%nat else 0%nat.
Proof.
  intros ND. revert start. induction ND as [|x fs Hx ND IH]; intros start.
  - cbn. rewrite andb_false_r. reflexivity.
  - unfold pending_count in *. cbn [new_reqs filter q_file q_from q_to pending q_done q_canc negb andb].
    unfold memN. cbn [existsb]. fold (memN f fs).
    destruct (N.eqb_spec x f) as [->|Hne].
    + rewrite (N.eqb_sym n n'), (N.eqb_sym g g'). destruct (N.eqb n' n) eqn:E1, (N.eqb g' g) eqn:E2; cbn [andb length].
      * rewrite IH. rewrite (N.eqb_sym n n'), E1, (N.eqb_sym g g'), E2. cbn [andb].
        assert (memN f fs = false) by (destruct (memN f fs) eqn:E; [apply memN_in in E; contradiction | reflexivity]). rewrite H. rewrite N.eqb_refl. reflexivity.
      * rewrite IH. rewrite (N.eqb_sym n n'), E1, (N.eqb_sym g g'), E2. reflexivity.
      * rewrite IH. rewrite (N.eqb_sym n n'), E1. reflexivity.
      * rewrite IH. rewrite (N.eqb_sym n n'), E1. reflexivity.
    + cbn [andb]. rewrite IH. destruct (N.eqb_spec f x); [congruence|]. reflexivity.
Qed.

Lemma sync_no_duplicate o i : NoDup (map f_id (files i)) ->
  (forall n g f, (pending_count (reqs i) n g f <= 1)%nat) ->
  forall n g f, (pending_count (reqs (sync_apply o i)) n g f <= 1)%nat.
Proof.
  intros ND H n' g' f. unfold sync_apply. destruct (so_node o) as [n|] eqn:En; [|apply H]. destruct (so_group o) as [g|] eqn:Eg; [|apply H].
  cbn [reqs with_reqs]. unfold pending_count. rewrite filter_app, app_length. fold (pending_count (reqs i) n' g' f).
  fold (pending_count (new_reqs (next_id (reqs i)) n g (sync_select o i)) n' g' f).
  assert (NDs : NoDup (sync_select o i)).
  { unfold sync_select. rewrite En, Eg. clear - ND. induction (files i) as [|x l IH]; [constructor|]. cbn [map] in ND. inversion ND as [|? ? Hx ND']; subst.
    cbn [filter]. destruct (_ && _); [|apply IH, ND']. cbn [map]. constructor; [|apply IH, ND'].
    intros Hin. apply Hx. apply in_map_iff in Hin as (y & Ey & Hy). apply filter_In in Hy as [Hy _]. rewrite <- Ey. apply in_map, Hy. }
  rewrite (new_reqs_count _ n g _ n' g' f NDs).
  destruct (N.eqb n n' && N.eqb g g' && memN f (sync_select o i)) eqn:E; [|specialize (H n' g' f); lia].
  apply andb_true_iff in E as [E Hm]. apply andb_true_iff in E as [E1 E2]. apply N.eqb_eq in E1, E2. subst n' g'.
  (* a selected file has no active transfer *)
  apply memN_in in Hm. unfold sync_select in Hm. rewrite En, Eg in Hm. apply in_map_iff in Hm as (fr & <- & Hf).
  apply filter_In in Hf as [_ Hp]. apply andb_true_iff in Hp as [_ Hact]. apply negb_true_iff in Hact.
  unfold active_transfer in Hact.
  assert (Z0 : pending_count (reqs i) n g (f_id fr) = 0%nat).
  { unfold pending_count. clear - Hact. induction (reqs i) as [|r l IH]; [reflexivity|]. cbn [existsb] in Hact. apply orb_false_iff in Hact as [H1 H2].
    cbn [filter]. rewrite H1. apply IH, H2. }
  rewrite Z0. lia.
Qed.

Lemma cancel_idempotent o i : cancel_select o (cancel_apply o i) = [].
Proof.
  set (sel := cancel_select o i). unfold cancel_select.
  replace (reqs (cancel_apply o i)) with (map (set_cancelled sel) (reqs i)) by reflexivity.
  assert (A : forall f, acq_ok (cancel_apply o i) (so_acqs o) f = acq_ok i (so_acqs o) f) by (intros; apply acq_ok_ext; reflexivity).
  assert (S : forall r, In r (reqs i) -> pending r && opt_eq (so_node o) (q_from r) && opt_eq (so_group o) (q_to r) && opt_mem (so_listed o) (q_file r) && acq_ok i (so_acqs o) (q_file r) = true -> memN (q_id r) sel = true).
  { intros r Hr Hp. apply memN_in. unfold sel, cancel_select. apply in_map. apply filter_In. split; assumption. }
  generalize dependent (cancel_apply o i). intros i2 A.
  assert (F : filter (fun r => pending r && opt_eq (so_node o) (q_from r) && opt_eq (so_group o) (q_to r) && opt_mem (so_listed o) (q_file r) && acq_ok i2 (so_acqs o) (q_file r))
                (map (set_cancelled sel) (reqs i)) = []).
  { induction (reqs i) as [|r l IH]; [reflexivity|]. cbn [map filter]. rewrite A.
    destruct (memN (q_id r) sel) eqn:Em.
    - unfold set_cancelled at 1 2 3 4 5. rewrite Em. unfold pending at 1. cbn [q_done q_canc negb]. rewrite andb_false_r. cbn [andb].
      apply IH. intros; apply S; [right|]; assumption.
    - assert (E : set_cancelled sel r = r) by (unfold set_cancelled; rewrite Em; reflexivity). rewrite E.
      destruct (pending r && opt_eq (so_node o) (q_from r) && opt_eq (so_group o) (q_to r) && opt_mem (so_listed o) (q_file r) && acq_ok i (so_acqs o) (q_file r)) eqn:Ep;
        [rewrite (S r (or_introl eq_refl) Ep) in Em; discriminate|]. apply IH. intros; apply S; [right|]; assumption. }
  rewrite F. reflexivity.
Qed.

(* ---------- file clean ---------- *)
Lemma fsel_stable (file : N) (node : option N) (cancel : bool) (goal : wants) (s : list N) : forall l : list cpy,
  map k_id (filter (fun c => N.eqb (k_file c) file && opt_eq node (k_node c) && (if cancel then negb (has_eqb (k_has c) HN) else true)) (map (set_wants goal s) l)) =
  map k_id (filter (fun c => N.eqb (k_file c) file && opt_eq node (k_node c) && (if cancel then negb (has_eqb (k_has c) HN) else true)) l).
Proof.
  induction l as [|c l IH]; [reflexivity|]. cbn [map filter].
  assert (K : k_file (set_wants goal s c) = k_file c /\ k_node (set_wants goal s c) = k_node c /\ k_has (set_wants goal s c) = k_has c /\ k_id (set_wants goal s c) = k_id c)
    by (unfold set_wants; destruct (memN _ _); repeat split; reflexivity).
  destruct K as (K1 & K2 & K3 & K4). rewrite K1, K2, K3. destruct (_ && _ && _); cbn [map]; rewrite ?K4, IH; reflexivity.
Qed.

Lemma fclean_idempotent file node goal i : fclean_apply file node goal (fclean_apply file node goal i) = fclean_apply file node goal i.
Proof.
  unfold fclean_apply at 1 3. unfold with_copies. f_equal. cbn [copies fclean_apply with_copies].
  set (cancel := wants_eqb goal WY).
  assert (Sel : fclean_select file node cancel (fclean_apply file node goal i) = fclean_select file node cancel i).
  { unfold fclean_select, fclean_apply, with_copies. cbn [copies]. apply fsel_stable. }
  rewrite Sel. set (sel := fclean_select file node cancel i). rewrite map_map. apply map_ext. intros c.
  unfold set_wants. destruct (memN (k_id c) sel) eqn:Em; cbn [k_id]; rewrite Em; reflexivity.
Qed.

(* ---------- --days as implemented is not the documented filter (known finding KF-C18a) ---------- *)
Definition kf_idx : idx :=
  {| copies := [ {| k_id := 1; k_file := 1; k_node := 1; k_has := HY; k_wants := WY |}; {| k_id := 2; k_file := 2; k_node := 1; k_has := HY; k_wants := WY |} ];
     files := [ {| f_id := 1; f_acq := 1; f_size := None; f_reg := (-10 * 86400)%Z |}; {| f_id := 2; f_acq := 1; f_size := None; f_reg := (10 * 86400)%Z |} ];
     reqs := []; ngroup := [(1, 1)]%N |}.
Definition kf_opts : clean_opts :=
  {| co_node := 1; co_acqs := []; co_days := Some 3%Z; co_now := 0%Z; co_listed := None; co_size := None; co_targets := []; co_goal := WM; co_bad := false |}.
(* file 1 was registered 10 days ago, file 2 will be "registered" 10 days from now: --days=3 selects the copy of file 2 *)
Lemma days_refuted : clean_select kf_opts kf_idx = [2%N] /\
  map k_id (filter (fun c => days_documented kf_opts kf_idx (k_file c)) (copies kf_idx)) = [1%N].
Proof. vm_compute. split; reflexivity. Qed.

Definition ex_idx : idx :=
  {| copies := [ {| k_id := 1; k_file := 1; k_node := 1; k_has := HY; k_wants := WM |}; {| k_id := 2; k_file := 2; k_node := 1; k_has := HY; k_wants := WY |};
                 {| k_id := 3; k_file := 3; k_node := 1; k_has := HY; k_wants := WY |}; {| k_id := 4; k_file := 1; k_node := 2; k_has := HY; k_wants := WY |} ];
     files := [ {| f_id := 1; f_acq := 1; f_size := Some 10%Z; f_reg := 0%Z |}; {| f_id := 2; f_acq := 1; f_size := Some 10%Z; f_reg := 0%Z |};
                {| f_id := 3; f_acq := 2; f_size := Some 10%Z; f_reg := 0%Z |} ];
     reqs := []; ngroup := [(1, 1); (2, 2)]%N |}.
Definition ex_opts : clean_opts :=
  {| co_node := 1; co_acqs := []; co_days := None; co_now := 0%Z; co_listed := None; co_size := Some 15%Z; co_targets := []; co_goal := WM; co_bad := false |}.
(* budget 15: copy 1 (already marked, 10 bytes) counts, copy 2 is taken and reaches 20 >= 15, copy 3 is left alone *)
Lemma example_clean : clean_select ex_opts ex_idx = [2%N] /\ clean_select ex_opts (clean_apply ex_opts ex_idx) = [].
Proof. vm_compute. split; reflexivity. Qed.
