from common import *
import shutil, hashlib
from alpenhorn.daemon import update
from alpenhorn.scheduler import FairMultiFIFOQueue, pool, global_abort
class OneShot(pool.EmptyPool):
    def check(self): global_abort.set()
class Q(FairMultiFIFOQueue):
    def get(self, timeout=None): return super().get(timeout=0.01)
tmp, sdb = setup("h1")
g1 = StorageGroup.create(name="g1"); g2 = StorageGroup.create(name="g2")
a = mknode(tmp,"a",g1,stype="F"); b = mknode(tmp,"b",g2)
acq = ArchiveAcq.create(name="acq"); data=b"abc"
f = ArchiveFile.create(acq=acq,name="f",size_b=None,md5sum=hashlib.md5(data).hexdigest())
(tmp/"a"/"acq").mkdir(); (tmp/"a"/"acq"/"f").write_bytes(data)
ArchiveFileCopy.create(file=f,node=a,has_file="Y",wants_file="Y")
ArchiveFileCopyRequest.create(file=f,node_from=a,group_to=g2)
try:
    global_abort.clear(); update.update_loop(Q(), OneShot(), False); print("iteration finished")
except Exception as e:
    print("update_loop raised:", type(e).__name__, e)
shutil.rmtree(tmp)
