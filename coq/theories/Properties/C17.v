(* C17 — CLI: check mode and refusals never mutate; failures are all-or-nothing. *)
From Coq Require Import List Arith Bool.
From Alp Require Import Base.Txn Model.Cli Proofs.CliProofs.
Import ListNotations.

(* The update phase of a check-confirm-update command runs iff an update was requested and either no check phase
   was asked for (--force) or the user confirmed. *)
Theorem C17_update_iff : forall do_check do_update confirmed,
  In CallUpdate (check_then_update do_check do_update confirmed) <-> do_update = true /\ (do_check = false \/ confirmed = true).
Proof. exact update_iff. Qed.
Print Assumptions C17_update_iff.
(* Hence: --check never updates; a declined confirmation never updates; a file list on stdin without --force
   turns check mode on and never updates; and an update phase runs at most once. *)
Theorem C17_check_mode : forall is_dash force confirmed, ~ In CallUpdate (command_events is_dash true force confirmed).
Proof. exact no_update_in_check_mode. Qed.
Print Assumptions C17_check_mode.
Theorem C17_declined : forall is_dash check, ~ In CallUpdate (command_events is_dash check false false).
Proof. exact no_update_when_declined. Qed.
Print Assumptions C17_declined.
Theorem C17_stdin_without_force : forall check confirmed, ~ In CallUpdate (command_events true check false confirmed).
Proof. exact no_update_from_stdin_without_force. Qed.
Print Assumptions C17_stdin_without_force.
Theorem C17_update_at_most_once : forall is_dash check force confirmed,
  length (filter (fun e => match e with CallUpdate => true | _ => false end) (command_events is_dash check force confirmed)) <= 1.
Proof. exact update_at_most_once. Qed.
Print Assumptions C17_update_at_most_once.

(* All-or-nothing: for any index type, any statements and any grouping of them into commit units (autocommitted
   statements and atomic() blocks): if at most one unit writes, a database error at any statement leaves the index
   as it was or as the complete command leaves it. The correspondence run checks every command's observed statement
   log against this shape. *)
Theorem C17_all_or_nothing : forall (index : Type) (us : list (unit_ index)), writing_units index us <= 1 ->
  forall k i, run_units index us k i = i \/ run_units index us k i = run_units index us None i.
Proof. exact units_all_or_nothing. Qed.
Print Assumptions C17_all_or_nothing.

Example C17_example : writing_units nat ex_units = 1 /\ run_units nat ex_units None 3 = 8 /\ run_units nat ex_units (Some 3) 3 = 3 /\ run_units nat ex_units (Some 4) 3 = 8.
Proof. exact example_units. Qed.
