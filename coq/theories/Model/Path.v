(* C06: path validity, components, normalisation.  No proofs here (model stays runnable). *)
From Coq Require Import List NArith Bool.
From Alp Require Import Base.Str.
Import ListNotations.
Open Scope N_scope.

Definition slash : N := 47.
Definition dot : N := 46.

(* alpenhorn.common.util.invalid_import_path: true = rejected *)
Definition invalid_import_path (name : str) : bool :=
  (str_eqb name [])
  || ((str_eqb name [46]) || (str_eqb name [46; 46]))
  || ((prefixb [47] name) || (prefixb [46; 47] name) || (prefixb [46; 46; 47] name))
  || ((suffixb [47] name) || (suffixb [47; 46] name) || (suffixb [47; 46; 46] name))
  || (infixb [47; 47] name)
  || (infixb [47; 46; 47] name)
  || (infixb [47; 46; 46; 47] name).

Inductive cls := CSlash | CDot | COther.
Definition classify (c : N) : cls := if N.eqb c 47 then CSlash else if N.eqb c 46 then CDot else COther.

(* str.split("/") *)
Fixpoint split_aux (cur : str) (s : str) : list str :=
  match s with
  | [] => [rev cur]
  | c :: s' => match classify c with CSlash => rev cur :: split_aux [] s' | _ => split_aux (c :: cur) s' end
  end.
Definition split (s : str) := split_aux [] s.
Definition bad_comp (c : str) : bool := str_eqb c [] || str_eqb c [46] || str_eqb c [46; 46].
(* the property's definition of a canonical relative path *)
Definition canonical (s : str) : bool := negb (existsb bad_comp (split s)).

(* "/".join *)
Fixpoint join (l : list str) : str :=
  match l with
  | [] => []
  | [c] => c
  | c :: l' => c ++ [47] ++ join l'
  end.

(* posixpath.normpath at component level, relative to an absolute or relative anchor:
   drop "" and ".", let ".." pop the last kept component (popping past the top is dropped for an
   absolute path, which is the only use here). [stack] is kept reversed. *)
Fixpoint norm_aux (stack : list str) (comps : list str) : list str :=
  match comps with
  | [] => rev stack
  | c :: cs =>
      if str_eqb c [] || str_eqb c [46] then norm_aux stack cs
      else if str_eqb c [46; 46] then norm_aux (tl stack) cs
      else norm_aux (c :: stack) cs
  end.
Definition norm_comps (comps : list str) : list str := norm_aux [] comps.
(* normpath of a relative string, defined for inputs without leading "..": *)
Definition normpath_rel (s : str) : str := join (norm_comps (split s)).

(* [is_strict_prefix a b]: component list a is a proper prefix of b *)
Fixpoint is_prefix (a b : list str) : bool :=
  match a, b with
  | [], _ => true
  | x :: a', y :: b' => str_eqb x y && is_prefix a' b'
  | _, _ => false
  end.
Definition strictly_under (root p : list str) : bool :=
  is_prefix root p && negb (Nat.eqb (length root) (length p)).

(* ioutil.remove_filedir at component level: the directories it tries to rmdir, climbing from [dir]
   (components below the root, innermost last) while "dirname != root".  [stop_at k] models the stop
   test after climbing k levels: the repaired test compares paths (stops exactly at depth 0). *)
Fixpoint rmdir_targets (rootc : list str) (relrev : list str) : list (list str) :=
  match relrev with
  | [] => []
  | _ :: up => (rootc ++ rev relrev) :: rmdir_targets rootc up
  end.
