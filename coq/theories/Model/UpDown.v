(* C13: io/updownlock.py (repaired algorithm) at mutex/condition granularity.
   One model step = one critical section of acquire()/release() run by one thread, or a wake-up. *)
From Coq Require Import List ZArith Bool Arith.
Import ListNotations.
Open Scope Z_scope.

Definition tid := nat.
Inductive want := Up | Down.
Definition sgn (w : want) : Z := match w with Up => 1 | Down => -1 end.
Definition opp (w : want) : want := match w with Up => Down | Down => Up end.
Definition want_eqb (a b : want) : bool := match a, b with Up, Up | Down, Down => true | _, _ => false end.

Inductive pc :=
| Idle                                          (* not inside an acquire *)
| Waiting (w : want) (dl : option Z)            (* in Condition.wait, mutex released; dl = deadline of the call *)
| Woken (w : want) (dl : option Z).             (* wait returned (notified or timed out): must re-test under the mutex *)

Record st := { count : Z; owners : tid -> Z; pcs : tid -> pc }.

Definition upd {A} (f : tid -> A) (t : tid) (v : A) : tid -> A :=
  fun u => if Nat.eqb u t then v else f u.

(* guards, as in the code *)
Definition ok_down (c : Z) : bool := c <=? 0.
Definition ok_up (c : Z) : bool := 0 <=? c.
Definition compatible (w : want) (c : Z) : bool := match w with Up => ok_up c | Down => ok_down c end.
Definition holds_other (o : Z) : bool := 0 <? o.
Definition out_of_time (remaining : Z) : bool := remaining <=? 0.
Definition held_down (c : Z) : bool := c <? 0.
Definition held_up (c : Z) : bool := 0 <? c.
Definition not_owner (o : Z) : bool := o =? 0.
Definition now_free (c : Z) : bool := c =? 0.

Inductive outcome := Got | Refused (* RuntimeError *) | WouldBlock | TimedOut | Slept | ReleasedOk | NotHeld (* RuntimeError *) | Noop.

(* one pass of the loop in acquire(), under the mutex *)
Definition try_acquire (blocking : bool) (dl : option Z) (now : Z) (w : want) (t : tid) (s : st) : st * outcome :=
  let back p := {| count := count s; owners := owners s; pcs := upd (pcs s) t p |} in
  if compatible w (count s) then
    ({| count := count s + sgn w; owners := upd (owners s) t (owners s t + 1); pcs := upd (pcs s) t Idle |}, Got)
  else if holds_other (owners s t) then (back Idle, Refused)
  else if negb blocking then (back Idle, WouldBlock)
  else match dl with
       | None => (back (Waiting w None), Slept)
       | Some d => if out_of_time (d - now) then (back Idle, TimedOut) else (back (Waiting w dl), Slept)
       end.

Definition wake_all (p : tid -> pc) : tid -> pc :=
  fun u => match p u with Waiting w dl => Woken w dl | x => x end.

Definition release (w : want) (t : tid) (s : st) : st * outcome :=
  let held := match w with Up => held_up (count s) | Down => held_down (count s) end in
  if held && negb (not_owner (owners s t)) then
    let c := count s - sgn w in
    ({| count := c; owners := upd (owners s) t (owners s t - 1);
        pcs := if now_free c then wake_all (pcs s) else pcs s |}, ReleasedOk)
  else (s, NotHeld).

(* [timeout]: None = block for ever (timeout < 0), Some n = at most n; [now] = clock reading of the section *)
Inductive label :=
| LAcq (blocking : bool) (timeout : option Z) (now : Z) (w : want) (t : tid)   (* enabled when pcs t = Idle *)
| LTimeout (now : Z) (t : tid)                  (* the timed wait of t expires: enabled when Waiting w (Some d), d <= now *)
| LRetry (now : Z) (t : tid)                    (* enabled when pcs t = Woken _ _ *)
| LRel (w : want) (t : tid).                    (* enabled when pcs t = Idle *)

Definition step (s : st) (l : label) : st * outcome :=
  match l with
  | LAcq b tmo now w t =>
      match pcs s t with
      | Idle => try_acquire b (match tmo with None => None | Some n => Some (now + n) end) now w t s
      | _ => (s, Noop) end
  | LTimeout now t =>
      match pcs s t with
      | Waiting w (Some d) => if d <=? now then ({| count := count s; owners := owners s; pcs := upd (pcs s) t (Woken w (Some d)) |}, Noop) else (s, Noop)
      | _ => (s, Noop) end
  | LRetry now t =>
      match pcs s t with
      | Woken w dl => try_acquire true dl now w t s
      | _ => (s, Noop) end
  | LRel w t =>
      match pcs s t with
      | Idle => release w t s
      | _ => (s, Noop) end
  end.

Definition init : st := {| count := 0; owners := fun _ => 0; pcs := fun _ => Idle |}.

Definition run_from (s : st) (ls : list label) : st := fold_left (fun s l => fst (step s l)) ls s.
Definition reach (ls : list label) : st := run_from init ls.

(* outcomes of a whole trace, for the correspondence check *)
Fixpoint outcomes (s : st) (ls : list label) : list outcome :=
  match ls with [] => [] | l :: ls' => let '(s', o) := step s l in o :: outcomes s' ls' end.

(* ghost hold tokens: one per successful acquire, removed by a successful release *)
Definition token := (tid * want)%type.
Fixpoint remove_one (t : tid) (l : list token) : list token :=
  match l with
  | [] => []
  | (u, w) :: l' => if Nat.eqb u t then l' else (u, w) :: remove_one t l'
  end.
Definition gstep (sg : st * list token) (l : label) : st * list token :=
  let '(s, g) := sg in
  let '(s', o) := step s l in
  (s', match o, l with
       | Got, LAcq _ _ _ w t => (t, w) :: g
       | Got, LRetry _ t => match pcs s t with Woken w _ => (t, w) :: g | _ => g end
       | ReleasedOk, LRel _ t => remove_one t g
       | _, _ => g
       end).
Definition greach (ls : list label) : st * list token := fold_left gstep ls (init, []).
