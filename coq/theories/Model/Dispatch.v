(* C01 / C05: UpdateableGroup.update — which pending requests of one pass reach update_pull, and which are dispatched.
   seen_files remembers the files of the requests that WERE dispatched in this pass: a second request for such a file is not even
   considered (two pulls of one file into one group must not overlap), while a request that update_pull only skipped
   (inactive or suspect source, ...) leaves the file open for a later request (fix F-C05b).  No proofs here. *)
From Coq Require Import List NArith Bool.
Import ListNotations.

Record preq := { r_id : N; r_file : N; r_ok : bool }.     (* r_ok: update_pull dispatches this request (returns True) *)
Definition memb (x : N) (l : list N) : bool := existsb (N.eqb x) l.

(* (requests handed to update_pull, requests dispatched), in order *)
Fixpoint pass (seen : list N) (reqs : list preq) : list preq * list preq :=
  match reqs with
  | [] => ([], [])
  | r :: rs =>
      if memb (r_file r) seen then pass seen rs
      else let cd := pass (if r_ok r then r_file r :: seen else seen) rs in
           (r :: fst cd, if r_ok r then r :: snd cd else snd cd)
  end.
Definition considered (reqs : list preq) : list N := map r_id (fst (pass [] reqs)).
Definition dispatched (reqs : list preq) : list N := map r_id (snd (pass [] reqs)).
