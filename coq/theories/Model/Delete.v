(* C01: io/_default_asyncs.py delete_async and db/acquisition.py archive_count. *)
From Coq Require Import List NArith Bool Arith.
From Alp Require Import Base.Str Base.Types.
Import ListNotations.

Record dcopy := { d_id : N; d_file : N; d_node : N; d_has : has; d_wants : wants }.

Section Delete.
  Variable is_archive : N -> bool.          (* node id -> storage_type == 'A' *)

  (* ArchiveFile.archive_count: copies with has_file == 'Y' on nodes of type 'A' (wanted or not) *)
  Definition counts (f : N) (c : dcopy) : bool := N.eqb (d_file c) f && has_eqb (d_has c) HY && is_archive (d_node c).
  Definition archive_count (cs : list dcopy) (f : N) : nat := length (filter (counts f) cs).
  Definition copies_required (arch : bool) : nat := if arch then 3 else 2.
  Definition too_few (ncopies required : nat) : bool := Nat.ltb ncopies required.

  (* healthy archive copies of c's file on nodes other than c's *)
  Definition elsewhere (c d : dcopy) : bool := counts (d_file c) d && negb (N.eqb (d_node d) (d_node c)).
  Definition others (cs : list dcopy) (c : dcopy) : nat := length (filter (elsewhere c) cs).

  Definition removed (c : dcopy) : dcopy := {| d_id := d_id c; d_file := d_file c; d_node := d_node c; d_has := HN; d_wants := WN |}.
  Definition mark_removed (id : N) (cs : list dcopy) : list dcopy := map (fun c => if N.eqb (d_id c) id then removed c else c) cs.

  (* an unlink of copy [e_copy] issued while the index was [e_idx] *)
  Record deff := { e_copy : dcopy; e_idx : list dcopy }.

  (* delete_async: [required] is computed once from copies[0].node; [oserr id] = the unlink of that copy fails with an
     OSError other than ENOENT (then the row is left alone).  Returns (index afterwards, unlinks attempted). *)
  Fixpoint delete_loop (oserr : N -> bool) (required : nat) (batch : list dcopy) (cs : list dcopy) : list dcopy * list deff :=
    match batch with
    | [] => (cs, [])
    | c :: rest =>
        if too_few (archive_count cs (d_file c)) required then delete_loop oserr required rest cs
        else
          let e := {| e_copy := c; e_idx := cs |} in
          let cs' := if oserr (d_id c) then cs else mark_removed (d_id c) cs in
          let '(cs'', es) := delete_loop oserr required rest cs' in (cs'', e :: es)
    end.
  Definition delete_async (oserr : N -> bool) (batch : list dcopy) (cs : list dcopy) : list dcopy * list deff :=
    match batch with
    | [] => (cs, [])
    | c0 :: _ => delete_loop oserr (copies_required (is_archive (d_node c0))) batch cs
    end.

  (* the unique index on (file, node) *)
  Definition uniq (cs : list dcopy) : Prop :=
    forall f n, (length (filter (fun d => N.eqb (d_file d) f && N.eqb (d_node d) n) cs) <= 1)%nat.

  (* ---- two delete tasks interleaved at the granularity count / unlink / update (known finding KF-C01-1) ---- *)
  Inductive mop := MCount (t : nat) | MUnlink (t : nat) | MUpdate (t : nat).
  Record mstate := { m_cs : list dcopy; m_ok : list (nat * bool); m_effs : list deff }.
  Fixpoint lookup_ok (t : nat) (l : list (nat * bool)) : bool := match l with [] => false | (u, b) :: l' => if Nat.eqb u t then b else lookup_ok t l' end.
  Definition mstep (tasks : nat -> dcopy) (s : mstate) (o : mop) : mstate :=
    match o with
    | MCount t => let c := tasks t in
                  {| m_cs := m_cs s; m_ok := (t, negb (too_few (archive_count (m_cs s) (d_file c)) (copies_required (is_archive (d_node c))))) :: m_ok s; m_effs := m_effs s |}
    | MUnlink t => if lookup_ok t (m_ok s) then {| m_cs := m_cs s; m_ok := m_ok s; m_effs := m_effs s ++ [{| e_copy := tasks t; e_idx := m_cs s |}] |} else s
    | MUpdate t => if lookup_ok t (m_ok s) then {| m_cs := mark_removed (d_id (tasks t)) (m_cs s); m_ok := m_ok s; m_effs := m_effs s |} else s
    end.
End Delete.
