(* Feasibility sketch: C11/C12 — FairMultiFIFOQueue at critical-section granularity.
   One function per critical section of scheduler/queue.py; the choice among admissible FIFOs is left to the
   caller (Python iterates a set), so [get_commit] takes the key the implementation picked and checks it. *)
From Coq Require Import List NArith ZArith Bool Lia Arith.
Import ListNotations.

Record qitem := { q_id : N; q_excl : bool }.
Record kst := { fifo : list qitem; cnt : nat }.                 (* one FIFO: queued items, in-progress count *)
Record qstate := { ks : list (N * kst); locks : list N; total_q : nat; total_ip : nat }.

Definition empty : qstate := {| ks := []; locks := []; total_q := 0; total_ip := 0 |}.

Fixpoint lookup (k : N) (l : list (N * kst)) : option kst :=
  match l with [] => None | (k', v) :: l' => if N.eqb k k' then Some v else lookup k l' end.
Fixpoint update (k : N) (v : kst) (l : list (N * kst)) : list (N * kst) :=
  match l with
  | [] => [(k, v)]
  | (k', v') :: l' => if N.eqb k k' then (k, v) :: l' else (k', v') :: update k v l'
  end.
Definition mem (k : N) (l : list N) : bool := existsb (N.eqb k) l.
Definition remove (k : N) (l : list N) : list N := filter (fun x => negb (N.eqb k x)) l.

(* put(item, key, exclusive, wait=0) *)
Definition put_now (it : qitem) (k : N) (s : qstate) : qstate :=
  let v := match lookup k (ks s) with Some v => v | None => {| fifo := []; cnt := 0 |} end in
  {| ks := update k {| fifo := fifo v ++ [it]; cnt := cnt v |} (ks s); locks := locks s;
     total_q := S (total_q s); total_ip := total_ip s |}.

(* candidate filter of _get *)
Definition eligible (s : qstate) (kv : N * kst) : bool :=
  let '(k, v) := kv in
  negb (mem k (locks s)) &&
  match fifo v with
  | [] => false
  | h :: _ => negb (negb (Nat.eqb (cnt v) 0) && q_excl h)          (* not (count and fifo[0][1]) *)
  end.
Definition min_level (s : qstate) : option nat :=
  fold_right (fun kv acc => if eligible s kv then
                              match acc with None => Some (cnt (snd kv)) | Some m => Some (Nat.min m (cnt (snd kv))) end
                            else acc) None (ks s).
Definition admissible (s : qstate) (k : N) : bool :=
  match lookup k (ks s), min_level s with
  | Some v, Some m => eligible s (k, v) && Nat.eqb (cnt v) m
  | _, _ => false
  end.

(* the pop half of _get, for the key the implementation chose *)
Definition get_commit (k : N) (s : qstate) : option (qstate * qitem) :=
  if admissible s k then
    match lookup k (ks s) with
    | Some {| fifo := h :: t; cnt := c |} =>
        Some ({| ks := update k {| fifo := t; cnt := S c |} (ks s);
                 locks := if q_excl h then k :: locks s else locks s;
                 total_q := pred (total_q s); total_ip := S (total_ip s) |}, h)
    | _ => None
    end
  else None.

(* task_done(key): None = ValueError *)
Definition task_done (k : N) (s : qstate) : option qstate :=
  match lookup k (ks s) with
  | Some v => if Nat.eqb (cnt v) 0 then None
              else Some {| ks := update k {| fifo := fifo v; cnt := pred (cnt v) |} (ks s);
                           locks := remove k (locks s); total_q := total_q s; total_ip := pred (total_ip s) |}
  | None => None
  end.

Definition fifo_size (k : N) (s : qstate) : nat :=
  match lookup k (ks s) with Some v => length (fifo v) + cnt v | None => 0 end.

(* ---- bookkeeping invariant: the counters are the true totals ---- *)
Definition sum_q (l : list (N * kst)) : nat := fold_right (fun kv a => length (fifo (snd kv)) + a) 0 l.
Definition sum_ip (l : list (N * kst)) : nat := fold_right (fun kv a => cnt (snd kv) + a) 0 l.
Definition Inv (s : qstate) : Prop := total_q s = sum_q (ks s) /\ total_ip s = sum_ip (ks s).

Lemma sum_q_update k v l :
  sum_q (update k v l) + match lookup k l with Some o => length (fifo o) | None => 0 end = sum_q l + length (fifo v).
Proof.
  induction l as [|[k' v'] l IH]; cbn [update lookup sum_q fold_right snd]; [lia|].
  destruct (N.eqb k k'); cbn [sum_q fold_right snd]; fold (sum_q l); fold (sum_q (update k v l)); lia.
Qed.
Lemma sum_ip_update k v l :
  sum_ip (update k v l) + match lookup k l with Some o => cnt o | None => 0 end = sum_ip l + cnt v.
Proof.
  induction l as [|[k' v'] l IH]; cbn [update lookup sum_ip fold_right snd]; [lia|].
  destruct (N.eqb k k'); cbn [sum_ip fold_right snd]; fold (sum_ip l); fold (sum_ip (update k v l)); lia.
Qed.

Lemma inv_empty : Inv empty. Proof. split; reflexivity. Qed.

Lemma inv_put it k s : Inv s -> Inv (put_now it k s).
Proof.
  intros [Hq Hi]. unfold put_now, Inv. cbn [ks total_q total_ip].
  set (v := match lookup k (ks s) with Some v => v | None => _ end).
  pose proof (sum_q_update k {| fifo := fifo v ++ [it]; cnt := cnt v |} (ks s)) as A.
  pose proof (sum_ip_update k {| fifo := fifo v ++ [it]; cnt := cnt v |} (ks s)) as B.
  cbn [fifo cnt] in A, B. rewrite app_length in A. cbn [length] in A.
  subst v. destruct (lookup k (ks s)); cbn [fifo cnt length] in *; lia.
Qed.

Lemma inv_get k s s' it : Inv s -> get_commit k s = Some (s', it) -> Inv s'.
Proof.
  intros [Hq Hi] H. unfold get_commit in H.
  destruct (admissible s k); [|discriminate].
  destruct (lookup k (ks s)) as [[[|h t] c]|] eqn:L; try discriminate.
  injection H as <- <-. unfold Inv. cbn [ks total_q total_ip].
  pose proof (sum_q_update k {| fifo := t; cnt := S c |} (ks s)) as A.
  pose proof (sum_ip_update k {| fifo := t; cnt := S c |} (ks s)) as B.
  rewrite L in A, B. cbn [fifo cnt length] in A, B. lia.
Qed.

Lemma inv_done k s s' : Inv s -> task_done k s = Some s' -> Inv s'.
Proof.
  intros [Hq Hi] H. unfold task_done in H.
  destruct (lookup k (ks s)) as [v|] eqn:L; [|discriminate].
  destruct (Nat.eqb_spec (cnt v) 0); [discriminate|].
  injection H as <-. unfold Inv. cbn [ks total_q total_ip].
  pose proof (sum_q_update k {| fifo := fifo v; cnt := pred (cnt v) |} (ks s)) as A.
  pose proof (sum_ip_update k {| fifo := fifo v; cnt := pred (cnt v) |} (ks s)) as B.
  rewrite L in A, B. cbn [fifo cnt] in A, B. lia.
Qed.

(* sizes are truthful in every reachable state, whatever the operation sequence *)
Inductive op := Put (it : qitem) (k : N) | Get (k : N) | Done (k : N).
Definition step (s : qstate) (o : op) : qstate :=
  match o with
  | Put it k => put_now it k s
  | Get k => match get_commit k s with Some (s', _) => s' | None => s end
  | Done k => match task_done k s with Some s' => s' | None => s end
  end.
Theorem sizes_truthful ops : Inv (fold_left step ops empty).
Proof.
  assert (H : forall s, Inv s -> Inv (fold_left step ops s)).
  { induction ops as [|o ops IH]; cbn; intros s Hs; [exact Hs|]. apply IH.
    destruct o as [it k|k|k]; cbn [step].
    - apply inv_put, Hs.
    - destruct (get_commit k s) as [[s' it]|] eqn:E; [eapply inv_get; eauto | exact Hs].
    - destruct (task_done k s) as [s'|] eqn:E; [eapply inv_done; eauto | exact Hs]. }
  apply H, inv_empty.
Qed.
Print Assumptions sizes_truthful.

(* executable: the test_exclusive_task scenario of the upstream suite *)
Definition i (n : N) (e : bool) := {| q_id := n; q_excl := e |}.
Eval vm_compute in
  let s := put_now (i 3 false) 7 (put_now (i 2 true) 7 (put_now (i 1 false) 7 empty)) in
  match get_commit 7 s with
  | Some (s1, a) => (q_id a, admissible s1 7,                       (* first item out; exclusive head blocked while it runs *)
       match task_done 7 s1 with Some s2 =>
         match get_commit 7 s2 with Some (s3, b) => (q_id b, admissible s3 7, fifo_size 7 s3) | None => (0%N, false, 0) end
       | None => (0%N, false, 0) end)
  | None => (0%N, false, (0%N, false, 0))
  end.
