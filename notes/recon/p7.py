"""Fault injection feasibility: OperationalError at k-th SQL statement of copy_request_done / _import_file."""
from common import *
import time
def world():
    tmp, sdb = setup("h1")
    g1 = StorageGroup.create(name="g1"); g2 = StorageGroup.create(name="g2")
    a = mknode(tmp,"a",g1,stype="F"); b = mknode(tmp,"b",g2)
    acq = ArchiveAcq.create(name="acq"); f = ArchiveFile.create(acq=acq,name="f",size_b=3,md5sum="900150983cd24fb0d6963f7d28e17f72")
    (tmp/"a"/"acq").mkdir(); (tmp/"a"/"acq"/"f").write_bytes(b"abc")
    (tmp/"b"/"acq").mkdir(); (tmp/"b"/"acq"/"f").write_bytes(b"abc")
    ArchiveFileCopy.create(file=f,node=a,has_file="Y",wants_file="Y")
    StorageTransferAction.create(node_from=a, group_to=g2, autoclean=True)
    StorageTransferAction.create(node_from=b, group_to=g1, autosync=True)
    req = ArchiveFileCopyRequest.create(file=f,node_from=a,group_to=g2)
    return tmp, sdb, req
def dump():
    out = {}
    for m in db.gamut:
        out[m.__name__] = sorted(tuple((k, str(v)) for k, v in r.items() if k not in ("last_update","timestamp","registered","transfer_started","transfer_completed","avail_gb_last_checked")) for r in m.select().dicts())
    return out
from alpenhorn.io import ioutil
from alpenhorn.io.default import DefaultNodeIO
class Inj:
    def __init__(self, sdb, k): self.sdb=sdb; self.k=k; self.n=0; self.log=[]
    def __enter__(self):
        self.orig = self.sdb.execute_sql
        def ex(sql, params=None, *a, **kw):
            self.n += 1
            self.log.append((self.n, sql.split()[0], self.sdb.transaction_depth()))
            if self.n == self.k: raise pw.OperationalError("injected")
            return self.orig(sql, params, *a, **kw)
        self.sdb.execute_sql = ex; return self
    def __exit__(self,*a): del self.sdb.execute_sql
import shutil
# count statements first
tmp, sdb, req = world(); before = dump()
with Inj(sdb, -1) as inj:
    io = DefaultNodeIO(StorageNode.get(name="b"), {}, None); rq=ArchiveFileCopyRequest.get(id=1); inj.n=0; inj.log=[]
    ioutil.copy_request_done(rq, io, True, True, time.time()-1)
total = inj.n; full = dump(); print("statements:", total); print([l for l in inj.log])
shutil.rmtree(tmp)
for k in range(1, total+1):
    tmp, sdb, req = world()
    with Inj(sdb, k) as inj:
        inj.k=-1; io = DefaultNodeIO(StorageNode.get(name="b"), {}, None); rq=ArchiveFileCopyRequest.get(id=1); inj.n=0; inj.k=k
        try:
            ioutil.copy_request_done(rq, io, True, True, time.time()-1); r="ok"
        except pw.OperationalError: r="operr"
    after = dump()
    diff = {t: (set(after[t]) ^ set(before[t])) for t in after if after[t] != before[t]}
    print(k, r, "unchanged" if after==before else ("full" if after==full else "PARTIAL: " + ",".join(diff)))
    shutil.rmtree(tmp)
