(* Correspondence for C11/C12: operation traces of the real queue (in linearisation order) and real Task runs *)
From Coq Require Import List NArith ZArith Bool Arith.
From Alp Require Import Base.Str Base.Types Model.Queue Model.Task Model.Idle.
Import ListNotations.
Definition obs_eqb (a b : obs) : bool :=
  match a, b with
  | ONone, ONone | OErr, OErr => true
  | OBool x, OBool y => Bool.eqb x y
  | OItem x, OItem y => optN_eqb x y
  | ONat x, ONat y => Nat.eqb x y
  | _, _ => false
  end.
Definition case := (list op * list obs)%type.
Definition check (c : case) : bool := list_eqb obs_eqb (run empty (fst c)) (snd c).
Definition I (n : N) (e : bool) : qitem := {| q_id := n; q_excl := e |}.

Definition eff_eqb (a b : eff) : bool :=
  match a, b with
  | RanCleanup x, RanCleanup y => N.eqb x y
  | Requeue k x w, Requeue k' x' w' => N.eqb k k' && Bool.eqb x x' && Z.eqb w w'
  | _, _ => false
  end.
(* (key, exclusive, body, effects observed per invocation) *)
Definition tcase := (N * bool * list segment * list (list eff))%type.
Definition tcheck (c : tcase) : bool :=
  let '(k, x, b, effs) := c in
  list_eqb (list_eqb eff_eqb) (drive (S (length b)) {| t_key := k; t_excl := x; t_body := b; t_cleanup := [] |}) effs.

(* idle reporting: (sizes per FIFO key, group key, node keys or None, node idle flags reported, group idle reported) *)
Definition icase := (list (N * N) * N * option (list N) * list bool * bool)%type.
Definition size_of (m : list (N * N)) (k : N) : N := match find (fun p => N.eqb (fst p) k) m with Some p => snd p | None => 0%N end.
Definition icheck (c : icase) : bool :=
  let '(m, g, nodes, nidle, gidle) := c in
  Bool.eqb (group_idle (size_of m) g nodes) gidle
  && match nodes with Some ns => list_eqb Bool.eqb (map (node_idle (size_of m)) ns) nidle | None => true end.
