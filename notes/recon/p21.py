"""Observed micro-operation sequences (SQL statements incl. SELECT, mutating FS calls) per task type."""
from common import *
import os, hashlib, shutil, re
from alpenhorn.daemon import update
from alpenhorn.scheduler import FairMultiFIFOQueue, pool, global_abort, Task
import alpenhorn.io.default as dflt
class OneShot(pool.EmptyPool):
    def check(self): global_abort.set()
LOG = []; CUR = ["main"]
class Q(FairMultiFIFOQueue):
    def get(self, timeout=None):
        it = super().get(timeout=0.01)
        return it
orig_call = Task.__call__
def call(self):
    CUR[0] = str(self); LOG.append(("TASK", str(self)))
    try: return orig_call(self)
    finally: CUR[0] = "main"
Task.__call__ = call
def install(sdb, tmp):
    for name in ["unlink","rename","replace","link","mkdir","rmdir","symlink"]:
        o = getattr(os, name)
        def mk(o, name):
            def w(*a, **kw):
                LOG.append((CUR[0], "fs", name, str(a[0]).replace(str(tmp)+"/","")[-40:])); return o(*a, **kw)
            return w
        setattr(os, name, mk(o, name))
    oo = os.open
    def wopen(path, flags, *a, **kw):
        if flags & (os.O_WRONLY|os.O_RDWR|os.O_CREAT): LOG.append((CUR[0], "fs","open_w",str(path).replace(str(tmp)+"/","")[-40:]))
        return oo(path, flags, *a, **kw)
    os.open = wopen
    ex = sdb.execute_sql
    def wex(sql, params=None, *a, **kw):
        verb = sql.split()[0]
        m = re.search(r'(?:FROM|INTO|UPDATE)\s+"(\w+)"', sql)
        LOG.append((CUR[0], "sql", verb, m.group(1) if m else "?", sdb.transaction_depth()))
        return ex(sql, params, *a, **kw)
    sdb.execute_sql = wex
tmp, sdb = setup("h1"); dflt._reserved_bytes.clear(); os.environ["PATH"] = "/nonexistent"
g1 = StorageGroup.create(name="g1"); g2 = StorageGroup.create(name="g2"); g3 = StorageGroup.create(name="g3")
a = mknode(tmp,"a",g1,stype="F"); b = mknode(tmp,"b",g2,stype="A"); c = mknode(tmp,"c",g3,stype="A")
data=b"payload"; (tmp/"a"/"acq").mkdir(); (tmp/"a"/"acq"/"f").write_bytes(data)
StorageTransferAction.create(node_from=a, group_to=g2, autosync=True)
StorageTransferAction.create(node_from=a, group_to=g3, autosync=True)
StorageTransferAction.create(node_from=a, group_to=g3, autoclean=True) if False else None
ArchiveFileImportRequest.create(node=a, path="acq/f", register=True)
install(sdb, tmp)
q = Q()
for i in range(5):
    LOG.append(("ITER", i))
    if i == 2:
        ArchiveFileCopy.update(wants_file="N").where(ArchiveFileCopy.node==a).execute()     # release on a -> delete task
        ArchiveFileCopy.update(has_file="M").where(ArchiveFileCopy.node==b).execute()       # suspect on b -> check task
    global_abort.clear(); update.update_loop(q, OneShot(), False)
cur=None
for e in LOG:
    if e[0] in ("ITER","TASK"): print("\n==", *e); continue
    if e[0] != "main": print("   ", *e[1:])
shutil.rmtree(tmp)
