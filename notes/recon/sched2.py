"""Deterministic scheduler with a virtual clock (prototype 2): timed Condition.wait, sleep, monotonic."""
import threading as _t, types, heapq
class Sched:
    def __init__(self, choose):
        self.choose = choose; self.threads = {}; self.cur = None; self.trace = []; self.main_ev = _t.Event(); self.now = 0.0
    def spawn(self, tid, fn):
        st = {"ev": _t.Event(), "done": False, "blocked": None, "deadline": None, "res": None}
        def run():
            st["ev"].wait(); st["ev"].clear()
            try: st["res"] = ("ok", fn())
            except BaseException as e: st["res"] = ("exc", repr(e))
            st["done"] = True; self._switch(tid, finished=True)
        st["th"] = _t.Thread(target=run, daemon=True); st["th"].start(); self.threads[tid] = st
    def _ready(self, s):
        if s["done"]: return False
        if s["blocked"] is None: return True
        if s["blocked"](): return True
        return s["deadline"] is not None and self.now >= s["deadline"]
    def runnable(self):
        r = [t for t, s in self.threads.items() if self._ready(s)]
        if r: return r
        # nobody can run: advance the virtual clock to the earliest deadline
        dl = [s["deadline"] for s in self.threads.values() if not s["done"] and s["deadline"] is not None]
        if dl:
            self.now = max(self.now, min(dl)); return [t for t, s in self.threads.items() if self._ready(s)]
        return []
    def _switch(self, me, finished=False):
        r = self.runnable()
        if not r:
            self.main_ev.set()
            if not finished: self.threads[me]["ev"].wait()
            return
        nxt = self.choose(r); self.trace.append(nxt)
        if nxt == me and not finished: return
        self.cur = nxt; self.threads[nxt]["ev"].set()
        if not finished:
            self.threads[me]["ev"].wait(); self.threads[me]["ev"].clear()
    def yield_(self): self._switch(self.cur)
    def block_until(self, pred, deadline=None):
        me = self.cur; s = self.threads[me]; s["blocked"] = pred; s["deadline"] = deadline
        self._switch(me)
        timed_out = not pred()
        s["blocked"] = None; s["deadline"] = None
        return not timed_out
    def run(self):
        r = self.runnable(); nxt = self.choose(r); self.trace.append(nxt); self.cur = nxt
        self.threads[nxt]["ev"].set(); self.main_ev.wait()
        return {t: s["res"] for t, s in self.threads.items()}, [t for t, s in self.threads.items() if not s["done"]]

def fakes(S):
    class Lock:
        def __init__(self): self.owner = None
        def acquire(self, blocking=True, timeout=-1):
            S.yield_()
            if self.owner is not None:
                if not blocking: return False
                S.block_until(lambda: self.owner is None)
            self.owner = S.cur; return True
        def release(self): self.owner = None; S.yield_()
        def locked(self): return self.owner is not None
        def _is_owned(self): return self.owner == S.cur
        __enter__ = acquire
        def __exit__(self, *a): self.release()
    class Condition:
        def __init__(self, lock=None):
            self.lock = lock or Lock(); self.waiters = []
        def __enter__(self): return self.lock.acquire()
        def __exit__(self, *a): self.lock.release()
        def acquire(self, *a, **k): return self.lock.acquire(*a, **k)
        def release(self): self.lock.release()
        def wait(self, timeout=None):
            me = S.cur; tok = {"n": False}; self.waiters.append(tok); self.lock.owner = None
            notified = S.block_until(lambda: tok["n"], None if timeout is None else S.now + max(timeout, 0))
            if not notified and tok in self.waiters: self.waiters.remove(tok)
            if self.lock.owner is not None: S.block_until(lambda: self.lock.owner is None)
            self.lock.owner = me
            return notified
        def notify(self, n=1):
            for tok in self.waiters[:n]: tok["n"] = True
            del self.waiters[:n]
        def notify_all(self): self.notify(len(self.waiters))
    def monotonic():
        S.now += 1e-6            # strictly increasing: heap entries never tie
        return S.now
    def sleep(d):
        S.block_until(lambda: False, S.now + d)
    th = types.SimpleNamespace(Lock=Lock, RLock=Lock, Condition=Condition, get_ident=lambda: S.cur)
    return th, monotonic, sleep
