(* C02: the decisions along a transfer — UpdateableGroup.update_pull, group_search_async, pull_async, copy_request_done. *)
From Coq Require Import List NArith Bool.
From Alp Require Import Base.Str Base.Types.
Import ListNotations.

(* ---- guards, as in the code ---- *)
Definition is_y (s : has) : bool := has_eqb s HY.
Definition is_m (s : has) : bool := has_eqb s HM.
Definition is_x (s : has) : bool := has_eqb s HX.
Definition is_n (s : has) : bool := has_eqb s HN.
Definition src_gone (s : has) : bool := has_eqb s HN || has_eqb s HX.          (* state == "N" or state == "X" *)
Definition already_in_group (s : has) : bool := has_eqb s HY || has_eqb s HM.  (* group_search_async re-check *)

(* ---- UpdateableGroup.update_pull ---- *)
Inductive dispatch := DCancel | DSkip | DPull | DPullForce.
(* [local_corrupt]: one of the nodes this daemon pulls to holds a copy recorded corrupt.  Only then is the search for an existing
   file skipped: a corrupt copy on another node of the group says nothing about the files on ours. *)
Definition update_pull (dst_state : has) (src_active : bool) (src_state : has) (src_ready : bool) (local_corrupt : bool) : dispatch :=
  if is_y dst_state then DCancel
  else if is_m dst_state then DSkip
  else if negb src_active then DSkip
  else if src_gone src_state then DCancel
  else if is_m src_state then DSkip
  else if negb src_ready then DSkip
  else if is_x dst_state && local_corrupt then DPullForce else DPull.

(* ---- group_search_async (DefaultGroupIO.pull): what it decides before handing the request to the node ---- *)
Inductive search := SCancel | SMarkSuspect | SHandOff.
Definition group_search (dst_state : has) (file_on_disk : bool) : search :=
  if already_in_group dst_state then SCancel else if file_on_disk then SMarkSuspect else SHandOff.

(* ---- pull_async: route ---- *)
Inductive transport := THardlink | TRsync | TBbcp | TInternal | TNoTool | TNoRoute.
(* [hardlink_works]: the link() call itself succeeds (same file system) *)
Definition route (local route_known same_archiveness hardlink_works has_bbcp has_rsync : bool) : transport :=
  if local then
    if same_archiveness && hardlink_works then THardlink
    else if has_rsync then TRsync else TInternal
  else if negb route_known then TNoRoute
  else if has_bbcp then TBbcp else if has_rsync then TRsync else TNoTool.

(* what a transport reports: ret == 0 with an md5 claim, or a failure with its check_src flag *)
Inductive md5claim := MTrusted | MDigest (equals_registered : bool) | MMissing.
Inductive toutcome := TOk (m : md5claim) | TFailed (check_src : bool).

(* ---- copy_request_done ---- *)
Inductive verdict := VCompleted | VFailed (flag_source : bool).
Definition request_done (o : toutcome) : verdict :=
  match o with
  | TFailed cs => VFailed cs
  | TOk MTrusted => VCompleted
  | TOk (MDigest true) => VCompleted
  | TOk (MDigest false) => VFailed true
  | TOk MMissing => VFailed true
  end.

(* ---- one whole attempt of the pull task ---- *)
Record post := { p_req_completed : bool; p_req_cancelled : bool; p_dst_copy : option has;   (* None = row untouched *)
                 p_dst_file_removed : bool; p_src_flagged : bool; p_post_add : bool }.
Definition untouched : post := {| p_req_completed := false; p_req_cancelled := false; p_dst_copy := None; p_dst_file_removed := false; p_src_flagged := false; p_post_add := false |}.

Definition pull_task (node_state : has) (t : transport) (o : toutcome) : post :=
  if is_y node_state then {| p_req_completed := false; p_req_cancelled := true; p_dst_copy := None; p_dst_file_removed := false; p_src_flagged := false; p_post_add := false |}
  else match t with
       | TNoRoute => untouched
       | TNoTool =>  (* ioresult = {"ret": -1, "check_src": False} *)
           {| p_req_completed := false; p_req_cancelled := false; p_dst_copy := None; p_dst_file_removed := true; p_src_flagged := false; p_post_add := false |}
       | _ => match request_done o with
              | VCompleted => {| p_req_completed := true; p_req_cancelled := false; p_dst_copy := Some HY; p_dst_file_removed := false; p_src_flagged := false; p_post_add := true |}
              | VFailed fs => {| p_req_completed := false; p_req_cancelled := false; p_dst_copy := None; p_dst_file_removed := true; p_src_flagged := fs; p_post_add := false |}
              end
       end.

(* ---- the chain for one pending request in one pass of the destination's daemon ---- *)
Inductive chain_result :=
| CCancelled | CSkipped | CMarkedSuspect | CRefusedByGate | CRan (p : post).
Definition chain (dst_group_state : has) (src_active : bool) (src_state : has) (src_ready : bool)
                 (file_on_disk gate_ok : bool) (node_state : has) (t : transport) (o : toutcome) : chain_result :=
  match update_pull dst_group_state src_active src_state src_ready (is_x node_state) with
  | DCancel => CCancelled
  | DSkip => CSkipped
  | DPullForce => if gate_ok then CRan (pull_task node_state t o) else CRefusedByGate
  | DPull => match group_search dst_group_state file_on_disk with
             | SCancel => CCancelled
             | SMarkSuspect => CMarkedSuspect
             | SHandOff => if gate_ok then CRan (pull_task node_state t o) else CRefusedByGate
             end
  end.
