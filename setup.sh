#!/bin/bash
# Build the hand-written Coq development (full .vo build, no -vos).  Offline; idempotent.
set -e
cd /verif/coq
{ echo "-Q theories Alp"; find theories -name '*.v' | LC_ALL=C sort; } > _CoqProject.new
if ! cmp -s _CoqProject.new _CoqProject 2>/dev/null; then mv _CoqProject.new _CoqProject; coq_makefile -f _CoqProject -o Makefile >/dev/null; else rm -f _CoqProject.new; fi
exec timeout 3000 make -j16 "$@"
