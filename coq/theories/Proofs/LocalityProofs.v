From Coq Require Import List NArith Bool Arith Lia.
From Alp Require Import Base.Str Base.Types Model.Locality.
Import ListNotations.
Open Scope N_scope.

Lemma vet_manage host rq n : vet host rq n = Manage <-> n_host n = host /\ n_active n = true /\ exists l, n_marker n = MLine l /\ rstrip l = n_name n.
Proof.
  unfold vet, selected, check_init. split.
  - destruct (str_eqb (n_host n) host) eqn:Eh; cbn [andb]; [|discriminate]. destruct (n_active n); [|discriminate].
    destruct (n_marker n) as [| |l]; try (destruct rq; discriminate).
    destruct (str_eqb (n_name n) (rstrip l)) eqn:El; [|destruct rq; discriminate]. intros _.
    apply str_eqb_eq in Eh, El. repeat split; auto. exists l. auto.
  - intros (Hh & Ha & l & Hm & Hl). rewrite Hh, str_eqb_refl, Ha, Hm, Hl, str_eqb_refl. reflexivity.
Qed.
Lemma vet_init host rq n : vet host rq n = QueueInit <-> rq = true /\ n_host n = host /\ n_active n = true /\ check_init n = false.
Proof.
  unfold vet, selected. split.
  - destruct (str_eqb (n_host n) host) eqn:Eh; cbn [andb]; [|discriminate]. destruct (n_active n); [|discriminate].
    destruct (check_init n); [discriminate|]. destruct rq; [|discriminate]. intros _. apply str_eqb_eq in Eh. auto.
  - intros (-> & Hh & Ha & Hc). rewrite Hh, str_eqb_refl, Ha, Hc. reflexivity.
Qed.
(* other hosts' nodes, inactive nodes: never anything *)
Lemma vet_foreign host rq n : n_host n <> host \/ n_active n = false -> vet host rq n = Ignore.
Proof.
  unfold vet, selected. intros [H|H].
  - apply str_eqb_neq in H. rewrite H. reflexivity.
  - rewrite H, andb_false_r. reflexivity.
Qed.

(* init never replaces an existing marker; it creates one only where none exists; the request is completed only when the
   node then passes the check *)
Lemma init_task_spec n : let '(n', done) := init_task n in
  (n_marker n' = n_marker n \/ (n_marker n = MAbsent /\ n_marker n' = MLine (n_name n ++ [nl]))) /\
  n_name n' = n_name n /\ n_host n' = n_host n /\ n_active n' = n_active n /\
  (done = true -> check_init n' = true).
Proof.
  unfold init_task. destruct (check_init n) eqn:Ec.
  - split; [left; reflexivity|]. repeat split; auto.
  - destruct (n_marker n) eqn:Em.
    + split; [right; split; reflexivity|]. cbn. repeat split; auto.
    + split; [left; exact Em|]. repeat split; auto. discriminate.
    + split; [left; exact Em|]. repeat split; auto. discriminate.
Qed.
Lemma iteration_io_local host rq nodes n : In n (fst (iteration host rq nodes)) ->
  In n nodes /\ n_host n = host /\ n_active n = true /\ check_init n = true.
Proof.
  unfold iteration. cbn [fst]. rewrite filter_In. intros [Hin Hv]. destruct (vet host (rq n) n) eqn:E; try discriminate.
  apply vet_manage in E as (Hh & Ha & l & Hm & Hl). repeat split; auto. unfold check_init. rewrite Hm, Hl. apply str_eqb_refl.
Qed.
Lemma iteration_leaves_others host rq nodes : Forall2 (fun n n' =>
    n_name n' = n_name n /\ n_host n' = n_host n /\ n_active n' = n_active n /\
    (n_marker n' <> n_marker n -> rq n = true /\ n_host n = host /\ n_active n = true /\ n_marker n = MAbsent))
  nodes (snd (iteration host rq nodes)).
Proof.
  unfold iteration. cbn [snd]. induction nodes as [|n l IH]; cbn [map]; constructor; [|exact IH].
  assert (Same : n_name n = n_name n /\ n_host n = n_host n /\ n_active n = n_active n /\
                 (n_marker n <> n_marker n -> rq n = true /\ n_host n = host /\ n_active n = true /\ n_marker n = MAbsent)).
  { split; [reflexivity|]. split; [reflexivity|]. split; [reflexivity|]. intros Hx. exfalso. apply Hx. reflexivity. }
  destruct (vet host (rq n) n) eqn:E; [exact Same | | exact Same].
  apply vet_init in E as (Hr & Hh & Ha & Hc). pose proof (init_task_spec n) as S. destruct (init_task n) as [n' d]. cbn [fst].
  destruct S as (Hm & Hn & Hh' & Ha' & _). split; [exact Hn|]. split; [exact Hh'|]. split; [exact Ha'|].
  intros Hx. destruct Hm as [Hm|[Hm Hm']]; [contradiction|]. auto.
Qed.

(* rstrip: removes exactly the trailing white space *)
Lemma rstrip_app_space s c : is_space c = true -> rstrip (s ++ [c]) = rstrip s.
Proof.
  intros Hc. induction s as [|x s IH]; cbn [app rstrip]; [rewrite Hc; reflexivity|]. rewrite IH. reflexivity.
Qed.
Lemma rstrip_nonspace_end s c : is_space c = false -> rstrip (s ++ [c]) = s ++ [c].
Proof.
  intros Hc. induction s as [|x s IH]; cbn [app rstrip]; [rewrite Hc; reflexivity|]. rewrite IH. destruct (s ++ [c]) eqn:E; [destruct s; discriminate | reflexivity].
Qed.
(* a name without trailing white space is recognised in the marker the daemon writes *)
Lemma own_marker_recognised name : rstrip name = name -> rstrip (name ++ [nl]) = name.
Proof. intros H. rewrite rstrip_app_space by reflexivity. exact H. Qed.

Definition ex_nodes : list node :=
  [ {| n_name := [97]; n_host := [104; 49]; n_active := true; n_marker := MLine [97; 10] |};
    {| n_name := [98]; n_host := [104; 49]; n_active := true; n_marker := MLine [120; 10] |};
    {| n_name := [99]; n_host := [104; 49]; n_active := true; n_marker := MAbsent |};
    {| n_name := [100]; n_host := [104; 50]; n_active := true; n_marker := MLine [100; 10] |};
    {| n_name := [101]; n_host := [104; 49]; n_active := false; n_marker := MLine [101; 10] |} ].
Lemma example_locality : map n_name (fst (iteration [104; 49] (fun _ => true) ex_nodes)) = [[97]] /\
  map n_marker (snd (iteration [104; 49] (fun _ => true) ex_nodes)) = [MLine [97; 10]; MLine [120; 10]; MLine [99; 10]; MLine [100; 10]; MLine [101; 10]].
Proof. vm_compute. split; reflexivity. Qed.
