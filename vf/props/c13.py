"""C13 — the up/down lock under every schedule of the deterministic scheduler."""
import itertools

from vf import core
from vf.core import cbool, clist, cnat, copt, ctup, cz
from vf.translate import core as T
from vf.harness import sched

TRUSTED = [
    "Coq 8.16.1 kernel + VM; no native_compute",
    "translator vf/translate for the guards of _UpDownLock.acquire / release",
    "the deterministic scheduler (vf/harness/sched.py): cooperative replacements for threading.Lock/Condition and time.monotonic; "
    "modelled, not verified: scheduling below mutex/condition granularity (CPython GIL atomicity of the statements inside a critical section), real time (virtual clock), spurious wake-ups",
]
RULE = ("all schedules (DFS over every scheduling decision) of 2 threads running bracketed programs of <= 2 (quick) / 3 (thorough) operations from "
        "{acquire up/down blocking, non-blocking, timed; release up/down; sleep}, plus sampled 3-thread programs; each run = one trace of critical sections replayed in the model; "
        "non-trivial = at least two sections by different threads; distinct by (programs, schedule)")

OUT = {"got": "Got", "refused": "Refused", "wouldblock": "WouldBlock", "timedout": "TimedOut", "slept": "Slept", "released": "ReleasedOk", "notheld": "NotHeld", "noop": "Noop"}


def gen(ctx):
    tree = T.parse(core.REPO / "alpenhorn/io/updownlock.py")
    a, r = "_UpDownLock.acquire", "_UpDownLock.release"
    env = {"self_count": "Z", "self__owners_me": "Z", "blocking": "bool", "remaining": "Z", "end_at": "Z", "timeout": "Z", "time_monotonic_": "Z"}
    d = [
        T.assigned(tree, a, "ok_to_lock", env, "g_ok_down", which=0),
        T.assigned(tree, a, "ok_to_lock", env, "g_ok_up", which=1),
        T.assigned(tree, r, "ok_to_unlock", env, "g_held_down", which=0),
        T.assigned(tree, r, "ok_to_unlock", env, "g_held_up", which=1),
    ]
    # if/while tests of acquire, in source order: while True, if is_down, if ok_to_lock, if is_down, if owners>0, if not blocking, if end_at is None, if remaining<=0
    import ast

    fa = T.find_func(tree, a)
    tests = [ast.unparse(x.test) for x in T.if_tests(fa)]
    want = ["True", "is_down", "ok_to_lock", "is_down", "self._owners[me] > 0", "not blocking", "end_at is None", "remaining <= 0"]
    if tests != want:
        raise T.Untranslatable(f"UNTRANSLATABLE: tests of acquire changed: {tests}")
    d.append(T.nth_test(tree, a, 4, env, "g_holds_other"))
    d.append(T.nth_test(tree, a, 5, env, "g_not_blocking"))
    d.append(T.nth_test(tree, a, 7, env, "g_out_of_time"))
    # end_at = None if timeout < 0 else time.monotonic() + timeout ; remaining = end_at - time.monotonic()
    ea = [x for x in ast.walk(fa) if isinstance(x, ast.Assign) and ast.unparse(x.targets[0]) == "end_at"]
    if len(ea) != 1 or ast.unparse(ea[0].value) != "None if timeout < 0 else time.monotonic() + timeout":
        raise T.Untranslatable("UNTRANSLATABLE: end_at computation changed: " + (ast.unparse(ea[0]) if ea else "missing"))
    ex = T.Expr(dict(env))
    d.append(f"Definition g_forever {ex.args(['timeout'])} : bool := {ex.tr(ea[0].value.test)}.")
    rm = [x for x in ast.walk(fa) if isinstance(x, ast.Assign) and ast.unparse(x.targets[0]) == "remaining"]
    if len(rm) != 1 or ast.unparse(rm[0].value) != "end_at - time.monotonic()":
        raise T.Untranslatable("UNTRANSLATABLE: remaining computation changed")
    d.append("Definition g_remaining (end_at now : Z) : Z := (end_at - now)%Z.")
    fr = T.find_func(tree, r)
    tests = [ast.unparse(x.test) for x in T.if_tests(fr)]
    want = ["is_down", "ok_to_unlock", "self._owners[me] == 0", "not ok_to_unlock", "is_down", "self.count == 0"]
    if tests != want:
        raise T.Untranslatable(f"UNTRANSLATABLE: tests of release changed: {tests}")
    d.append(T.nth_test(tree, r, 2, env, "g_not_owner"))
    d.append(T.nth_test(tree, r, 5, env, "g_now_free"))
    # the condition must share the state mutex, waits happen only on it, and notify_all (not notify) is used
    src = (core.REPO / "alpenhorn/io/updownlock.py").read_text()
    for needle in ["self._is_unlocked = threading.Condition(self._lock)", "with self._is_unlocked:", "self._is_unlocked.notify_all()", "with self._lock:"]:
        if needle not in src:
            raise T.Untranslatable(f"UNTRANSLATABLE: expected synchronisation statement not found: {needle}")
    return {"Gen_updown": T.HEADER + "\n".join(d) + "\n"}


def proofs(ctx):
    try:
        files = gen(ctx)
    except T.Untranslatable as e:
        ctx.broke("translator", "io/updownlock.py", str(e))
        files = None
    if files:
        core.check_tie(ctx, files, ["Tie_C13"])
    core.check_property_file(ctx, "C13.v")


# ---- run one schedule on the real lock -----------------------------------------------------------------------
def run_schedule(programs, choose, in_section=False):
    import alpenhorn.io.updownlock as udl

    events = []
    S = sched.Sched(choose)
    S.yield_in_section = in_section

    def on_event(kind, t, obj, *rest):
        events.append((kind, t, S.now) + tuple(rest))

    th, mono, slp = sched.fakes(S, on_event)
    saved = (udl.threading, udl.time)
    import types

    udl.threading = th
    udl.time = types.SimpleNamespace(monotonic=mono, sleep=slp)
    try:
        L = udl.UpDownLock()
        I = L._internals

        def make(t, prog):
            def f():
                held = []
                for op in prog:
                    if op[0] == "acq":
                        _, w, blocking, tmo = op
                        events.append(("call_acq", t, S.now, w, blocking, tmo))
                        try:
                            r = I.acquire(blocking, float(tmo) if tmo is not None else -1, w == "down")
                            events.append(("ret_acq", t, S.now, r))
                            if r:
                                held.append(w)
                        except RuntimeError:
                            events.append(("ret_acq", t, S.now, "error"))
                    elif op[0] == "rel":
                        events.append(("call_rel", t, S.now, op[1]))
                        try:
                            I.release(op[1] == "down")
                            events.append(("ret_rel", t, S.now, True))
                            if op[1] in held:
                                held.remove(op[1])
                        except RuntimeError:
                            events.append(("ret_rel", t, S.now, "error"))
                    elif op[0] == "sleep":
                        slp(op[1])
                # bracket: give back whatever is still held
                for w in list(held):
                    events.append(("call_rel", t, S.now, w))
                    try:
                        I.release(w == "down")
                        events.append(("ret_rel", t, S.now, True))
                    except RuntimeError:
                        events.append(("ret_rel", t, S.now, "error"))
                return "done"
            return f

        for t, prog in enumerate(programs):
            S.spawn(t, make(t, prog))
        res, stuck = S.run()
        return events, stuck, I.count, S.trace
    finally:
        udl.threading, udl.time = saved


def sections(events):
    """the serial list of critical sections: (label, outcome) in the order the mutex was taken"""
    out = []
    pending = {}  # thread -> current call
    waiting = {}  # thread -> last wake info
    errors = []
    n = len(events)
    for i, e in enumerate(events):
        kind, t = e[0], e[1]
        if kind in ("call_acq", "call_rel"):
            pending[t] = {"call": e, "first": True}
        elif kind == "woke":
            waiting[t] = e[3]  # notified?
        elif kind == "mutex":
            now = e[2]
            call = pending.get(t)
            if call is None:
                errors.append(f"mutex taken by thread {t} outside any call")
                continue
            # what does t do next?
            nxt = next((x for x in events[i + 1:] if x[1] == t and x[0] in ("wait", "ret_acq", "ret_rel")), None)
            c = call["call"]
            if c[0] == "call_rel":
                lab = ("rel", c[3], t)
                o = "noop" if nxt is None else ("released" if nxt[3] is True else "notheld")
                out.append((lab, o))
                continue
            w, blocking, tmo = c[3], c[4], c[5]
            if call["first"]:
                if c[2] != now:
                    errors.append("clock advanced between the call and its first section")
                lab = ("acq", blocking, tmo, now, w, t)
                call["first"] = False
            else:
                if waiting.get(t) is False:
                    out.append((("timeout", now, t), "noop"))
                lab = ("retry", now, t)
            if nxt is None:
                o = "noop"
            elif nxt[0] == "wait":
                o = "slept"
            elif nxt[3] is True:
                o = "got"
            elif nxt[3] == "error":
                o = "refused"
            else:
                o = "wouldblock" if not blocking else "timedout"
            out.append((lab, o))
    return out, errors


def monitor(ctx, programs, events, secs, stuck, count, trace):
    """the property, stated on the observed sections"""
    holders = []  # (t, w)
    calls = {}
    rp = {"family": "updown", "programs": programs, "schedule": [c for c, _ in trace]}
    # no lost wake-up: the release that frees the lock wakes every sleeper (a free lock is available to each of them)
    for e in events:
        if e[0] == "notify" and len(e) >= 5 and e[3] < e[4]:
            ctx.fail("C13:sleeper-not-woken", f"the release by thread {e[1]} that freed the lock woke {e[3]} of {e[4]} sleeping threads: the others sleep on a lock that is available to them", rp)
            break
    for lab, o in secs:
        if lab[0] in ("acq", "retry"):
            t = lab[-1]
            if lab[0] == "acq":
                calls[t] = lab
            w = calls[t][4]
            mine = [x for x in holders if x[0] == t]
            others_opposite = [x for x in holders if x[1] != w]
            if o == "got":
                if others_opposite:
                    ctx.fail("C13:exclusion", f"thread {t} got the lock {w} while {others_opposite} hold it in the other state", rp)
                holders.append((t, w))
            elif mine and mine[0][1] == w:
                ctx.fail("C13:reentrant", f"holder {t} could not re-acquire {w}: {o}", rp)
            elif mine and o != "refused":
                ctx.fail("C13:opposite-not-refused", f"holder {t} of {mine[0][1]} asking for {w} got {o}", rp)
            elif o == "refused" and not mine:
                ctx.fail("C13:refused-nonholder", f"thread {t} holds nothing but got RuntimeError", rp)
            elif o in ("slept", "wouldblock", "timedout") and not holders:
                ctx.fail("C13:free-lock-not-granted", f"thread {t} was not granted the free lock: {o}", rp)
            elif o in ("slept", "wouldblock", "timedout") and not others_opposite and not mine:
                # held only in the state asked for: the lock is available to this thread too
                ctx.fail("C13:shareable-lock-not-granted", f"thread {t} asked for {w} while the lock is held only as {w} by {holders}, and was not granted it: {o}", rp)
        elif lab[0] == "rel":
            _, w, t = lab
            if (t, w) in holders:
                if o != "released":
                    ctx.fail("C13:holder-release-rejected", f"holder {t} could not release {w}", rp)
                holders.remove((t, w))
            elif o == "released":
                ctx.fail("C13:nonholder-release", f"thread {t} released {w} without holding it", rp)
    # when the whole run uses one state only, nobody ever holds the opposite state: every acquire must succeed
    used = {op[1] for prog in programs for op in prog if op[0] == "acq"}
    if len(used) == 1:
        for e in events:
            if e[0] == "ret_acq" and e[3] is not True:
                ctx.fail("C13:refused-without-opposite-holder", f"thread {e[1]} was refused the lock {next(iter(used))!r} (returned {e[3]!r}) although no thread ever held or asked for the other state", rp)
                break
    if stuck:
        ctx.fail("C13:stuck", f"threads {stuck} never returned (lost wake-up or deadlock); final count {count}", rp)
    if not stuck and count != 0:
        ctx.fail("C13:count", f"all threads done, everything released, but count = {count}", rp)
    # timed acquire: every wait's deadline is within the call's deadline, and the call returns at a clock <= its deadline
    # unless the clock jumped while the thread was not scheduled
    cur = {}
    for e in events:
        if e[0] == "call_acq":
            cur[e[1]] = e
        elif e[0] == "wait" and e[1] in cur:
            c = cur[e[1]]
            if c[5] is None:
                if e[3] is not None:
                    ctx.fail("C13:timed", "untimed acquire waits with a timeout", rp)
            elif e[3] is None or e[2] + e[3] > c[2] + c[5]:
                ctx.fail("C13:timed-wait-exceeds-deadline", f"timed acquire (timeout {c[5]} at {c[2]}) waits until {None if e[3] is None else e[2] + e[3]}", rp)


def lab_term(lab):
    W = {"up": "Up", "down": "Down"}
    if lab[0] == "acq":
        _, b, tmo, now, w, t = lab
        return f"(LAcq {cbool(b)} {copt(tmo, cz, 'Z')} {cz(now)} {W[w]} {cnat(t)})"
    if lab[0] == "retry":
        return f"(LRetry {cz(lab[1])} {cnat(lab[2])})"
    if lab[0] == "timeout":
        return f"(LTimeout {cz(lab[1])} {cnat(lab[2])})"
    return f"(LRel {W[lab[1]]} {cnat(lab[2])})"


OPS = [("acq", "up", True, None), ("acq", "down", True, None), ("acq", "up", False, None), ("acq", "down", False, None),
       ("acq", "up", True, 2), ("acq", "down", True, 2), ("acq", "down", True, 0), ("rel", "up"), ("rel", "down"), ("sleep", 3)]


def all_schedules(ctx, programs, terms, cap):
    ex = sched.Explorer()
    n = 0
    while not ex.done and n < cap:
        events, stuck, count, trace = run_schedule(programs, ex.chooser())
        secs, errs = sections(events)
        for e in errs:
            ctx.broke("harness", f"section reconstruction: {e}", str(programs))
        monitor(ctx, programs, events, secs, stuck, count, trace)
        ctx.count("schedules")
        if len({l[-1] for l, _ in secs}) >= 2:
            ctx.distinct_add((programs, tuple(c for c, _ in trace)))
        if not stuck:
            terms.append((ctup(clist([lab_term(l) for l, _ in secs], "label"), clist([OUT[o] for _, o in secs], "outcome"), cz(count)), programs, [c for c, _ in trace]))
        n += 1
        ex.advance(trace)
    return n, ex.done


def random_schedules(ctx, programs, terms, n, in_section=False):
    for _ in range(n):
        r2 = __import__("random").Random(ctx.rng.getrandbits(32))
        events, stuck, count, trace = run_schedule(programs, lambda k: r2.randrange(k), in_section)
        secs, errs = sections(events)
        for e in errs:
            ctx.broke("harness", f"section reconstruction: {e}", str(programs))
        monitor(ctx, programs, events, secs, stuck, count, trace)
        ctx.count("schedules")
        ctx.distinct_add((programs, tuple(c for c, _ in trace)))
        if not stuck:
            terms.append((ctup(clist([lab_term(l) for l, _ in secs], "label"), clist([OUT[o] for _, o in secs], "outcome"), cz(count)), programs, [c for c, _ in trace]))


# a timed waiter that is woken by a release and beaten to the lock by a third thread: its second wait must end at the first deadline
WOKEN_AND_BEATEN = [
    ((("acq", "up", True, None), ("sleep", 3), ("rel", "up")), (("sleep", 3), ("acq", "up", True, None), ("sleep", 5)), (("acq", "down", True, 5),)),
    ((("acq", "down", True, None), ("sleep", 1), ("rel", "down")), (("sleep", 1), ("acq", "down", True, None), ("sleep", 5)), (("acq", "up", True, 2),)),
    ((("acq", "up", True, None), ("sleep", 3), ("rel", "up")), (("sleep", 3), ("acq", "up", True, 2), ("sleep", 3), ("rel", "up"), ("acq", "up", False, None), ("sleep", 3)), (("acq", "down", True, 5),)),
]


# schedules at the granularity of the internal mutex: a thread can be pre-empted inside its critical section; a non-blocking call by
# another thread meanwhile is decided by the lock's state, not by the mutex being busy
MUTEX_GRANULARITY = [
    ((("acq", "up", True, None), ("acq", "up", False, None), ("acq", "up", False, None)), (("acq", "up", True, None), ("rel", "up"), ("acq", "up", True, None))),
    ((("acq", "down", True, None), ("acq", "down", False, None)), (("acq", "down", True, None),), (("acq", "down", False, None), ("acq", "down", False, None))),
]


def explore(ctx):
    terms = []
    rng = ctx.rng
    progs2 = []
    maxlen = 2 if ctx.quick() else 3
    base_ops = OPS
    # two threads: every pair of programs of length 1..maxlen over a reduced alphabet for the second thread (symmetry)
    singles = [[o] for o in base_ops]
    pairs = [[a, b] for a in base_ops for b in base_ops]
    progsA = singles + pairs if maxlen >= 2 else singles
    sel = []
    for pa in progsA:
        for pb in singles + ([p for p in pairs if rng.random() < (0.08 if ctx.quick() else 0.5)]):
            sel.append((pa, pb))
    rng.shuffle(sel)
    budget = 2500 if ctx.quick() else 60000
    used = 0
    complete = 0
    corpus = [([("acq", "up", True, None)], [("acq", "down", True, None)]),
              ([("acq", "up", True, None), ("sleep", 3)], [("acq", "down", True, 2)]),
              ([("acq", "up", True, None), ("sleep", 3)], [("acq", "down", True, 5)]),
              ([("acq", "up", True, None), ("acq", "down", False, None)], [("acq", "up", True, None), ("rel", "down")])]
    for k, (pa, pb) in enumerate(corpus + sel):
        if used >= budget:
            break
        n, done = all_schedules(ctx, (tuple(pa), tuple(pb)), terms, 400)
        used += n
        complete += done
        if k < 2:
            ctx.sample({"programs": [pa, pb], "schedules_enumerated": n, "exhaustive": done})
    n, done = all_schedules(ctx, ((("acq", "up", True, None), ("sleep", 1)), (("acq", "down", True, None), ("sleep", 5)), (("acq", "down", True, 3),)), terms, 300)
    used += n
    for progs in MUTEX_GRANULARITY:
        random_schedules(ctx, progs, terms, 150 if ctx.quick() else 3000, in_section=True)
    for progs in WOKEN_AND_BEATEN:
        n, done = all_schedules(ctx, progs, terms, 100 if ctx.quick() else 2000)
        used += n
        random_schedules(ctx, progs, terms, 100 if ctx.quick() else 2000)
    # three threads, sampled programs, all schedules up to a cap
    for _ in range(15 if ctx.quick() else 400):
        progs = tuple(tuple(rng.choice(base_ops) for _ in range(rng.randint(1, 2))) for _ in range(3))
        n, done = all_schedules(ctx, progs, terms, 60 if ctx.quick() else 300)
        used += n
    ctx.notes.append(f"{complete} program pairs had their schedule tree enumerated completely")
    ctx.cov["exhaustive_program_pairs"] = complete
    bad = core.run_cases(ctx, "updown", "Corr.C13", "case", "check", [t for t, _, _ in terms], shard=400, extra_imports=("Model.UpDown",))
    for i in bad[:3]:
        ctx.broke("correspondence", f"up/down lock: model and implementation differ on programs {terms[i][1]} schedule {terms[i][2]}: {terms[i][0][:300]}")


def search(ctx):
    explore(ctx)


def replay(ctx, rp):
    r = rp["replay"]
    programs = tuple(tuple(tuple(op) for op in p) for p in r["programs"])
    it = iter(r["schedule"])
    events, stuck, count, trace = run_schedule(programs, lambda n: next(it, 0))
    secs, _ = sections(events)
    for s in secs:
        print(s)
    print("stuck:", stuck, "count:", count)
    monitor(ctx, programs, events, secs, stuck, count, trace)
    for f in ctx.failing:
        print(f["what"])
    return 1 if ctx.failing else 0
