(* C05: TransportGroupIO.pull_force — which transport node a pull is handed to. *)
From Coq Require Import List NArith ZArith Bool Arith.
From Alp Require Import Base.Str Base.Types.
Import ListNotations.

Record tnode := { t_id : N; t_avail : option Z;      (* avail_gb as an order key (exact multiples in the harness); None = unknown *)
                  t_under_min : bool; t_over_max : bool; t_fits : bool }.
(* the sort key: avail_gb, or id * 1e9 when unknown *)
Definition key (n : tnode) : Z := match t_avail n with Some a => a | None => (Z.of_N (t_id n) * 1000000000)%Z end.
Fixpoint insert (n : tnode) (l : list tnode) : list tnode :=
  match l with [] => [n] | m :: l' => if (key n <? key m)%Z then n :: l else m :: insert n l' end.
Definition sort (l : list tnode) : list tnode := fold_right insert [] (rev l).     (* stable, like sorted() *)
Definition eligible (n : tnode) : bool := negb (t_under_min n) && negb (t_over_max n) && t_fits n.
Definition choose (local : bool) (nodes : list tnode) : option N :=
  if local then match find eligible (sort nodes) with Some n => Some (t_id n) | None => None end else None.
