(* C13 — Directory-tree lock: two-state exclusion without lost wake-ups.
   Statements quantify over every label sequence = every schedule, any number of threads. *)
From Coq Require Import List ZArith Bool Arith.
From Alp Require Import Model.UpDown Proofs.UpDownProofs.
From Alp Require Regress.UpDownOld.
Import ListNotations.
Open Scope Z_scope.

(* never held 'up' and 'down' at the same time (ghost tokens = successful acquires not yet released) *)
Theorem C13_exclusion : forall ls t1 t2, ~ (In (t1, Up) (snd (greach ls)) /\ In (t2, Down) (snd (greach ls))).
Proof. exact exclusion. Qed.
Print Assumptions C13_exclusion.

(* a holder may re-acquire in the same state ... *)
Theorem C13_reentrant : forall ls t w b tmo now, In (t, w) (snd (greach ls)) -> pcs (reach ls) t = Idle ->
  snd (step (reach ls) (LAcq b tmo now w t)) = Got.
Proof. exact reentrant. Qed.
Print Assumptions C13_reentrant.

(* ... and is refused (RuntimeError, lock state unchanged) when asking for the opposite state *)
Theorem C13_opposite_refused : forall ls t w b tmo now, In (t, w) (snd (greach ls)) -> pcs (reach ls) t = Idle ->
  step (reach ls) (LAcq b tmo now (opp w) t) =
    ({| count := count (reach ls); owners := owners (reach ls); pcs := upd (pcs (reach ls)) t Idle |}, Refused).
Proof. exact opposite_refused. Qed.
Print Assumptions C13_opposite_refused.

(* a release by a non-holder is rejected and changes nothing *)
Theorem C13_nonholder_rejected : forall ls t w, (forall w', ~ In (t, w') (snd (greach ls))) ->
  step (reach ls) (LRel w t) = (reach ls, NotHeld) \/ step (reach ls) (LRel w t) = (reach ls, Noop).
Proof. exact nonholder_rejected. Qed.
Print Assumptions C13_nonholder_rejected.

(* no lost wake-up: under every schedule, a free lock has no sleeper *)
Theorem C13_no_lost_wakeup : forall ls t w dl, count (reach ls) = 0 -> pcs (reach ls) t <> Waiting w dl.
Proof. exact free_lock_no_sleeper. Qed.
Print Assumptions C13_no_lost_wakeup.

(* no deadlock: whenever a thread sleeps, some thread that is not sleeping holds the lock and its release
   succeeds (so well-bracketed programs always make progress) *)
Theorem C13_no_deadlock : forall ls t w dl, pcs (reach ls) t = Waiting w dl ->
  exists t' w', In (t', w') (snd (greach ls)) /\ pcs (reach ls) t' = Idle /\ snd (step (reach ls) (LRel w' t')) = ReleasedOk.
Proof. exact sleeper_has_live_holder. Qed.
Print Assumptions C13_no_deadlock.

(* timed acquire (virtual clock): the deadline is the clock at the call plus the timeout, it never moves,
   the timed wait ends once the clock reaches it, and the next test then returns for good *)
Theorem C13_deadline_set : forall s b n now w t, pcs s t = Idle ->
  forall d, deadline_of (pcs (fst (step s (LAcq b (Some n) now w t))) t) = Some d -> d = Some (now + n).
Proof. exact deadline_set. Qed.
Print Assumptions C13_deadline_set.
Theorem C13_deadline_stable : forall s l t d, deadline_of (pcs s t) = Some d ->
  deadline_of (pcs (fst (step s l)) t) = Some d \/ pcs (fst (step s l)) t = Idle.
Proof. exact deadline_stable. Qed.
Print Assumptions C13_deadline_stable.
Theorem C13_timeout_fires : forall s t w d now, pcs s t = Waiting w (Some d) -> d <= now ->
  pcs (fst (step s (LTimeout now t))) t = Woken w (Some d).
Proof. exact timeout_fires. Qed.
Print Assumptions C13_timeout_fires.
Theorem C13_timed_returns : forall s t w d now, pcs s t = Woken w (Some d) -> d <= now ->
  pcs (fst (step s (LRetry now t))) t = Idle.
Proof. exact retry_after_deadline_returns. Qed.
Print Assumptions C13_timed_returns.

(* the algorithm before the repair (test and wait in two critical sections) does lose wake-ups *)
Theorem C13_old_lost_wakeup_refuted :
  exists labels, let s := fold_left UpDownOld.step labels UpDownOld.init in
                 UpDownOld.count s = 0 /\ UpDownOld.pcs s 1%nat = UpDownOld.Waiting UpDownOld.Down.
Proof. exact UpDownOld.lost_wakeup_refuted. Qed.
Print Assumptions C13_old_lost_wakeup_refuted.

Example C13_example : outcomes init ex_trace = [Got; Slept; Got; ReleasedOk; ReleasedOk; Got]
  /\ snd (greach ex_trace) = [(1%nat, Down)].
Proof. exact example_trace. Qed.
