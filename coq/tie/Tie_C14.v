From Coq Require Import List NArith ZArith Bool Lia ZifyBool.
From Alp Require Import Base.Str Base.Types Model.Reserve.
From Run Require Gen_reserve.
Open Scope Z_scope.
Lemma tie_insufficient b r s : Gen_reserve.g_insufficient b r s = insufficient b r s.
Proof. unfold Gen_reserve.g_insufficient, insufficient. destruct b; reflexivity. Qed.
Lemma tie_release_too_much r s : Gen_reserve.g_release_too_much r s = release_too_much r s.
Proof. reflexivity. Qed.
Lemma tie_factor : Gen_reserve.g_reserve_factor = factor.
Proof. reflexivity. Qed.
Lemma tie_gate_under_min b : Gen_reserve.g_gate_under_min b = b. Proof. reflexivity. Qed.
Lemma tie_gate_over_max b : Gen_reserve.g_gate_over_max b = b. Proof. reflexivity. Qed.
Lemma tie_gate_no_space b : Gen_reserve.g_gate_no_space b = negb b. Proof. reflexivity. Qed.
Lemma tie_check_only b : Gen_reserve.g_really_reserve b = negb b. Proof. reflexivity. Qed.
(* StorageNode.under_min / check_over_max *)
Lemma tie_over_max total m : node_over_max total (Some m) = if Gen_reserve.g_no_limit false m then false else Gen_reserve.g_over_max total m.
Proof. unfold node_over_max, Gen_reserve.g_no_limit, Gen_reserve.g_over_max. cbn [orb]. destruct (m <=? 0) eqn:E; [reflexivity|]. destruct (m <=? total) eqn:F; lia. Qed.
Lemma tie_no_limit total m : Gen_reserve.g_no_limit true m = true /\ node_over_max total None = false.
Proof. split; reflexivity. Qed.
Lemma tie_under_min a m : node_under_min (Some a) m = if Gen_reserve.g_avail_unknown false then false else Gen_reserve.g_under_min a m.
Proof. reflexivity. Qed.
Lemma tie_avail_unknown m : Gen_reserve.g_avail_unknown true = true /\ node_under_min None m = false.
Proof. split; reflexivity. Qed.
