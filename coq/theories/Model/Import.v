(* C04: daemon/auto_import.py — import_file's filters, _import_file's decisions, update_import's request vetting, and
   n concurrent _import_file tasks for one path at statement granularity. *)
From Coq Require Import List NArith Bool Arith.
From Alp Require Import Base.Str Base.Types Model.Path.
Import ListNotations.

(* ---- the file name: PurePath(path).relative_to(acq) on '/'-separated names: the components of acq taken off the front;
   "." when nothing is left; None (ValueError) when acq is not a parent of the path ---- *)
Fixpoint strip_prefix (a b : list str) : option (list str) :=
  match a, b with
  | [], _ => Some b
  | x :: a', y :: b' => if str_eqb x y then strip_prefix a' b' else None
  | _ :: _, [] => None
  end.
Definition relative_to (p acq : str) : option str :=
  match strip_prefix (split acq) (split p) with
  | Some [] => Some [46%N]
  | Some l => Some (join l)
  | None => None
  end.
(* the name the file is registered under; refused when acq is not a parent or what is left is not a canonical name (fix F-C06d) *)
Definition file_name (p acq : str) : option str :=
  match relative_to p acq with Some n => if invalid_import_path n then None else Some n | None => None end.

(* ---- what _import_file looks at (one path on one node) ---- *)
Record facts := {
  is_symlink : bool; is_regular : bool; dot_name : bool; in_temp_dir : bool; through_symlink : bool;
  locked : bool; ipath : str;                      (* the path being imported, relative to the node root *)
  detected : option str;           (* acquisition name returned by the import-detect extension *)
  register : bool;
  acq_known : bool; file_known : bool;            (* records exist already *)
  copy_row : option (has * wants) }.              (* record for (file, node), if any *)

Inductive outcome :=
| ONotAFile | OBadName | OThroughSymlink | OLocked (* request stays pending *) | ONoDetection | OBadAcq | ODuplicate | OUnregistered
| OImported (new_acq new_file : bool) (copy_after : has * wants).

Definition tracked (r : option (has * wants)) : bool := match r with Some (h, _) => negb (has_eqb h HN) | None => false end.
(* an existing (absent) copy row: wanted ones come back as suspect, released ones as present and wanted *)
Definition revive (r : has * wants) : has * wants := if wants_eqb (snd r) WY then (HM, WY) else (HY, WY).

Definition import_decision (f : facts) : outcome :=
  if is_symlink f || negb (is_regular f) then ONotAFile
  else if through_symlink f then OThroughSymlink
  else if dot_name f || in_temp_dir f then OBadName
  else if locked f then OLocked
  else match detected f with
       | None => ONoDetection
       | Some acq =>
           if invalid_import_path acq then OBadAcq
           else if is_none (file_name (ipath f) acq) then OBadAcq
           else if tracked (copy_row f) then ODuplicate
           else if negb (acq_known f) && negb (register f) then OUnregistered
           else if negb (file_known f) && negb (register f) then OUnregistered
           else OImported (negb (acq_known f)) (negb (file_known f))
                          (match copy_row f with Some r => revive r | None => (HY, WY) end)
       end.

Definition completes_request (o : outcome) : bool := match o with OLocked => false | _ => true end.
Definition fires_rules (o : outcome) : bool := match o with OImported _ _ _ => true | _ => false end.
Definition creates_records (o : outcome) : bool := match o with OImported a f _ => a || f | _ => false end.

(* ---- UpdateableNode.update_import: vetting of a request before any task is queued ---- *)
Inductive vet := VInvalid | VDuplicate | VScan | VImport.
Definition vet_request (absolute is_marker recurse resolves in_tree : bool) (path : str) : vet :=
  if absolute then VInvalid
  else if is_marker then VDuplicate
  else if recurse then (if negb resolves then VInvalid else if negb in_tree then VInvalid else VScan)
  else if invalid_import_path path then VInvalid else VImport.

(* ---- n tasks importing the same path, interleaved at statement granularity (register = true) ---- *)
Inductive pc := P0 | P1 | P2 | P3 | P5 | P6 | P7 | P8 | PDone (dup : bool).
Record db := { d_acq : bool; d_file : bool; d_copy : option (has * wants) }.
Record cstate := { c_db : db; c_pcs : list pc }.

Definition task_step (d : db) (p : pc) : db * pc :=
  match p with
  | P0 => (d, if tracked (d_copy d) then PDone true else P1)                                   (* SELECT copy tracked? *)
  | P1 => (d, if d_acq d then P3 else P2)                                                      (* SELECT acq *)
  | P2 => ({| d_acq := true; d_file := d_file d; d_copy := d_copy d |}, P3)                    (* INSERT acq (IntegrityError -> SELECT) *)
  | P3 => (d, if d_file d then P6 else P5)                                                     (* SELECT file; hash and stat if absent *)
  | P5 => ({| d_acq := d_acq d; d_file := true; d_copy := d_copy d |}, P6)                     (* INSERT file (IntegrityError -> SELECT) *)
  | P6 => match d_copy d with                                                                  (* SELECT copy *)
          | Some r => ({| d_acq := d_acq d; d_file := d_file d; d_copy := Some (revive r) |}, P8)   (* ... UPDATE *)
          | None => (d, P7)
          end
  | P7 => match d_copy d with                                                                  (* INSERT copy *)
          | Some _ => (d, PDone true)                                                          (* IntegrityError: another worker won *)
          | None => ({| d_acq := d_acq d; d_file := d_file d; d_copy := Some (HY, WY) |}, P8)
          end
  | P8 => (d, PDone false)                                                                     (* complete the request, fire the rules *)
  | PDone b => (d, PDone b)
  end.

Fixpoint set_nth {A} (n : nat) (x : A) (l : list A) : list A :=
  match l, n with [], _ => [] | _ :: t, O => x :: t | h :: t, S m => h :: set_nth m x t end.
Definition cstep (s : cstate) (t : nat) : cstate :=
  match nth_error (c_pcs s) t with
  | Some p => let '(d', p') := task_step (c_db s) p in {| c_db := d'; c_pcs := set_nth t p' (c_pcs s) |}
  | None => s
  end.
Definition crun (n : nat) (d0 : db) (schedule : list nat) : cstate := fold_left cstep schedule {| c_db := d0; c_pcs := repeat P0 n |}.
Definition finished (p : pc) : bool := match p with PDone _ => true | _ => false end.
