(* Correspondence for C18: index before, options, tables after the real command *)
From Coq Require Import List NArith ZArith Bool.
From Alp Require Import Base.Str Base.Types Model.CliSelect.
Import ListNotations.
Definition K (i f n : N) (h : has) (w : wants) : cpy := {| k_id := i; k_file := f; k_node := n; k_has := h; k_wants := w |}.
Definition F (i a : N) (s : option Z) (r : Z) : fil := {| f_id := i; f_acq := a; f_size := s; f_reg := r |}.
Definition Q (i f a b : N) (d c : bool) : rq := {| q_id := i; q_file := f; q_from := a; q_to := b; q_done := d; q_canc := c |}.
Definition IX (cs : list cpy) (fs : list fil) (rs : list rq) (ng : list (N * N)) : idx := {| copies := cs; files := fs; reqs := rs; ngroup := ng |}.
Definition wl_eqb (a b : list (N * wants)) : bool := list_eqb (fun x y => N.eqb (fst x) (fst y) && wants_eqb (snd x) (snd y)) a b.
Definition hl_eqb (a b : list (N * has)) : bool := list_eqb (fun x y => N.eqb (fst x) (fst y) && has_eqb (snd x) (snd y)) a b.
Definition CO (n : N) (acqs : list N) (days : option Z) (listed : option (list N)) (size : option Z) (ts : list N) (g : wants) (bad : bool) : clean_opts :=
  {| co_node := n; co_acqs := acqs; co_days := days; co_now := 0%Z; co_listed := listed; co_size := size; co_targets := ts; co_goal := g; co_bad := bad |}.
Definition ccase := (idx * clean_opts * list (N * wants))%type.
Definition ccheck (c : ccase) : bool := let '(i, o, after) := c in wl_eqb (map (fun k => (k_id k, k_wants k)) (copies (clean_apply o i))) after.
Definition VO (n : N) (acqs : list N) (listed : option (list N)) (cancel corrupt healthy_ missing all : bool) : verify_opts :=
  {| vo_node := n; vo_acqs := acqs; vo_listed := listed; vo_cancel := cancel; vo_corrupt := corrupt; vo_healthy := healthy_; vo_missing := missing; vo_all := all |}.
Definition vcase := (idx * verify_opts * list (N * has))%type.
Definition vcheck (c : vcase) : bool := let '(i, o, after) := c in hl_eqb (map (fun k => (k_id k, k_has k)) (copies (verify_apply o i))) after.
Definition SO (n g : option N) (acqs : list N) (listed : option (list N)) (ts : list N) : sync_opts :=
  {| so_node := n; so_group := g; so_acqs := acqs; so_listed := listed; so_targets := ts |}.
Definition rq_obs (r : rq) := (q_file r, q_from r, q_to r, q_done r, q_canc r).
Definition rl_eqb (a b : list (N * N * N * bool * bool)) : bool :=
  list_eqb (fun x y => let '(f1, a1, b1, d1, c1) := x in let '(f2, a2, b2, d2, c2) := y in
                       N.eqb f1 f2 && N.eqb a1 a2 && N.eqb b1 b2 && Bool.eqb d1 d2 && Bool.eqb c1 c2) a b.
Definition scase := (idx * sync_opts * bool * list (N * N * N * bool * bool))%type.
Definition scheck (c : scase) : bool :=
  let '(i, o, cancel, after) := c in rl_eqb (map rq_obs (reqs (if cancel then cancel_apply o i else sync_apply o i))) after.
Definition fcase := (idx * N * option N * wants * list (N * wants))%type.
Definition fcheck (c : fcase) : bool :=
  let '(i, file, node, goal, after) := c in wl_eqb (map (fun k => (k_id k, k_wants k)) (copies (fclean_apply file node goal i))) after.
