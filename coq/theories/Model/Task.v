(* C12 (Task contract): scheduler/task.py Task.__call__, on_cleanup, do_cleanup. *)
From Coq Require Import List NArith ZArith Bool.
Import ListNotations.

Inductive act := Reg (c : N) (first : bool).                 (* task.on_cleanup(c, first=...) inside the body *)
Inductive seg_end := Yield (v : option Z) | Stop.            (* yield / yield v / the body returns *)
Definition segment := (list act * seg_end)%type.

Record task := { t_key : N; t_excl : bool; t_body : list segment; t_cleanup : list N }.

Inductive eff := RanCleanup (c : N) | Requeue (key : N) (excl : bool) (wait : Z).

Definition register (dq : list N) (a : act) : list N :=
  match a with Reg c true => c :: dq | Reg c false => dq ++ [c] end.

(* one invocation by a worker: (task afterwards, finished?, effects in order) *)
Definition call (t : task) : task * bool * list eff :=
  match t_body t with
  | [] => ({| t_key := t_key t; t_excl := t_excl t; t_body := []; t_cleanup := [] |}, true, map RanCleanup (t_cleanup t))
  | (acts, e) :: rest =>
      let dq := fold_left register acts (t_cleanup t) in
      match e with
      | Yield v => ({| t_key := t_key t; t_excl := t_excl t; t_body := rest; t_cleanup := dq |}, false,
                    [Requeue (t_key t) (t_excl t) (match v with Some z => z | None => 0%Z end)])
      | Stop => ({| t_key := t_key t; t_excl := t_excl t; t_body := []; t_cleanup := [] |}, true, map RanCleanup dq)
      end
  end.

(* the worker keeps invoking the task each time it is delivered again, until it reports finished *)
Fixpoint drive (fuel : nat) (t : task) : list (list eff) :=
  match fuel with
  | O => []
  | S f => let '(t', fin, effs) := call t in if fin then [effs] else effs :: drive f t'
  end.

Definition is_yield (s : segment) : bool := match snd s with Yield _ => true | Stop => false end.
(* a body as Python produces it: some yielding segments, then the final one *)
Definition wf_body (b : list segment) : Prop := exists ys acts, b = ys ++ [(acts, Stop)] /\ forallb is_yield ys = true.
Definition all_acts (b : list segment) : list act := flat_map fst b.
Definition reg_id (a : act) : N := match a with Reg c _ => c end.
