From Coq Require Import List NArith Bool Lia.
From Alp Require Import Model.Rules.
Import ListNotations.
Open Scope N_scope.

Lemma is_row_eq n g r : is_row n g r = true <-> r_node r = n /\ r_group r = g.
Proof. unfold is_row. rewrite andb_true_iff, !N.eqb_eq. tauto. Qed.
Lemma set_flag_keys f b r : r_node (set_flag f b r) = r_node r /\ r_group (set_flag f b r) = r_group r.
Proof. destruct f; split; reflexivity. Qed.
Lemma is_row_set n g f b r : is_row n g (set_flag f b r) = is_row n g r.
Proof. unfold is_row. destruct (set_flag_keys f b r) as [-> ->]. reflexivity. Qed.
Lemma get_set f f' b r : get_flag f' (set_flag f b r) = match f, f' with FSync, FSync | FClean, FClean => b | _, _ => get_flag f' r end.
Proof. destruct f, f'; reflexivity. Qed.

Lemma lookup_update n g f b n' g' t :
  lookup n' g' (update_first n g f b t) =
  if N.eqb n n' && N.eqb g g' then option_map (set_flag f b) (lookup n g t) else lookup n' g' t.
Proof.
  induction t as [|r t IH]; cbn [update_first lookup].
  - destruct (N.eqb n n' && N.eqb g g'); reflexivity.
  - destruct (is_row n g r) eqn:E.
    + cbn [lookup]. rewrite is_row_set. apply is_row_eq in E as [En Eg]. unfold is_row at 1 2. rewrite En, Eg.
      rewrite (N.eqb_sym n n'), (N.eqb_sym g g').
      destruct (N.eqb n' n && N.eqb g' g) eqn:F; [reflexivity|].
      reflexivity.
    + cbn [lookup]. destruct (is_row n' g' r) eqn:F.
      * destruct (N.eqb n n' && N.eqb g g') eqn:K; [|reflexivity].
        apply andb_true_iff in K as [K1 K2]. apply N.eqb_eq in K1, K2. subst. congruence.
      * exact IH.
Qed.
Lemma lookup_app_new n g f n' g' t : lookup n g t = None ->
  lookup n' g' (t ++ [new_row n g f]) = if N.eqb n n' && N.eqb g g' then Some (new_row n g f) else lookup n' g' t.
Proof.
  intros H. induction t as [|r t IH]; cbn [app lookup].
  - unfold is_row. destruct f; cbn [new_row r_node r_group]; rewrite (N.eqb_sym n n'), (N.eqb_sym g g'); destruct (N.eqb n' n && N.eqb g' g); reflexivity.
  - cbn [lookup] in H. destruct (is_row n g r) eqn:E; [discriminate|].
    destruct (is_row n' g' r) eqn:F.
    + destruct (N.eqb n n' && N.eqb g g') eqn:K; [|reflexivity].
      apply andb_true_iff in K as [K1 K2]. apply N.eqb_eq in K1, K2. subst. congruence.
    + apply IH, H.
Qed.

(* one command: the flag it names ends as asked (unless refused); every other flag of every pair is as before *)
Definition same_target (c : cmd) (f : flag) (n g : N) : bool :=
  N.eqb (c_node c) n && N.eqb (c_group c) g && match c_flag c, f with FSync, FSync | FClean, FClean => true | _, _ => false end.
Lemma step_frame group_of t c f n g : same_target c f n g = false -> eff f n g (fst (step group_of t c)) = eff f n g t.
Proof.
  intros H. unfold step. destruct (c_enable c && N.eqb (group_of (c_node c)) (c_group c)); [reflexivity|].
  destruct (lookup (c_node c) (c_group c) t) as [r|] eqn:L.
  - destruct (Bool.eqb (get_flag (c_flag c) r) (c_enable c)); [reflexivity|]. cbn [fst]. unfold eff. rewrite lookup_update.
    unfold same_target in H. destruct (N.eqb (c_node c) n && N.eqb (c_group c) g) eqn:K; [|reflexivity].
    apply andb_true_iff in K as [K1 K2]. apply N.eqb_eq in K1, K2. subst. rewrite L. cbn [option_map]. rewrite get_set.
    cbn [andb] in H. destruct (c_flag c), f; try discriminate; reflexivity.
  - destruct (c_enable c); [|reflexivity]. cbn [fst]. unfold eff. rewrite (lookup_app_new _ _ _ _ _ _ L).
    unfold same_target in H. destruct (N.eqb (c_node c) n && N.eqb (c_group c) g) eqn:K; [|reflexivity].
    apply andb_true_iff in K as [K1 K2]. apply N.eqb_eq in K1, K2. subst. rewrite L. cbn [andb] in H.
    destruct (c_flag c), f; try discriminate; reflexivity.
Qed.
Lemma step_own group_of t c : snd (step group_of t c) <> Refused -> eff (c_flag c) (c_node c) (c_group c) (fst (step group_of t c)) = c_enable c.
Proof.
  unfold step. destruct (c_enable c && N.eqb (group_of (c_node c)) (c_group c)); [intros H; contradiction H; reflexivity|]. intros _.
  destruct (lookup (c_node c) (c_group c) t) as [r|] eqn:L.
  - destruct (Bool.eqb (get_flag (c_flag c) r) (c_enable c)) eqn:E; cbn [fst]; unfold eff.
    + rewrite L. apply eqb_prop, E.
    + rewrite lookup_update, !N.eqb_refl, L. cbn [andb option_map]. rewrite get_set. destruct (c_flag c); reflexivity.
  - destruct (c_enable c) eqn:E; cbn [fst]; unfold eff.
    + rewrite (lookup_app_new _ _ _ _ _ _ L), !N.eqb_refl. cbn [andb]. destruct (c_flag c); reflexivity.
    + rewrite L. reflexivity.
Qed.
Lemma step_refused group_of t c : snd (step group_of t c) = Refused -> fst (step group_of t c) = t /\ c_enable c = true /\ group_of (c_node c) = c_group c.
Proof.
  unfold step. destruct (c_enable c && N.eqb (group_of (c_node c)) (c_group c)) eqn:E.
  - intros _. apply andb_true_iff in E as [E1 E2]. apply N.eqb_eq in E2. auto.
  - destruct (lookup _ _ t) as [r|]; [destruct (Bool.eqb _ _) | destruct (c_enable c)]; discriminate.
Qed.

(* any sequence of commands: a flag nobody addressed (with effect) keeps its value --- in particular the rules of a node's other
   destinations are not touched by configuring one of them *)
Lemma run_frame group_of cs : forall t f n g, forallb (fun c => negb (same_target c f n g)) cs = true -> eff f n g (run group_of cs t) = eff f n g t.
Proof.
  induction cs as [|c cs IH]; intros t f n g H; [reflexivity|]. cbn [forallb] in H. apply andb_true_iff in H as [H1 H2].
  unfold run. cbn [fold_left]. fold (run group_of cs (fst (step group_of t c))). rewrite IH by exact H2.
  apply step_frame. apply negb_true_iff, H1.
Qed.
(* the last accepted command about a flag decides it *)
Lemma run_last group_of cs c t : snd (step group_of (run group_of cs t) c) <> Refused ->
  eff (c_flag c) (c_node c) (c_group c) (run group_of (cs ++ [c]) t) = c_enable c.
Proof.
  intros H. unfold run. rewrite fold_left_app. cbn [fold_left]. apply step_own, H.
Qed.
(* no rule from a node into its own group is ever switched on *)
Lemma no_self_loop group_of c t : group_of (c_node c) = c_group c -> eff (c_flag c) (c_node c) (c_group c) t = false ->
  eff (c_flag c) (c_node c) (c_group c) (fst (step group_of t c)) = false.
Proof.
  intros Hg H0. unfold step. rewrite Hg, N.eqb_refl, andb_true_r. destruct (c_enable c) eqn:E; [exact H0|].
  unfold eff in H0 |- *. destruct (lookup (c_node c) (c_group c) t) as [r|] eqn:L.
  - rewrite H0. cbn [Bool.eqb fst]. rewrite L. exact H0.
  - cbn [fst]. rewrite L. reflexivity.
Qed.
