(* C07: which nodes a daemon manages — update_loop's node query, UpdateableNode.check_init, DefaultNodeIO.check_init / init. *)
From Coq Require Import List NArith Bool Arith.
From Alp Require Import Base.Str Base.Types.
Import ListNotations.
Open Scope N_scope.

(* str.isspace() per code point (Python 3: ASCII white space, the four separators 28..31, and the Unicode spaces) *)
Definition is_space (c : N) : bool :=
  ((9 <=? c) && (c <=? 13)) || ((28 <=? c) && (c <=? 32)) || (c =? 133) || (c =? 160) || (c =? 5760) || ((8192 <=? c) && (c <=? 8202))
  || (c =? 8232) || (c =? 8233) || (c =? 8239) || (c =? 8287) || (c =? 12288).
(* str.rstrip() *)
Fixpoint rstrip (s : str) : str :=
  match s with
  | [] => []
  | c :: s' => match rstrip s' with [] => if is_space c then [] else [c] | t => c :: t end
  end.

(* what is at <root>/ALPENHORN_NODE *)
Inductive marker := MAbsent | MUnreadable | MLine (first_line : str).
Record node := { n_name : str; n_host : str; n_active : bool; n_marker : marker }.

Definition selected (host : str) (n : node) : bool := str_eqb (n_host n) host && n_active n.           (* the query of update_loop *)
Definition check_init (n : node) : bool :=
  match n_marker n with MLine l => str_eqb (n_name n) (rstrip l) | _ => false end.

Inductive decision := Ignore | QueueInit | Manage.
Definition vet (host : str) (init_requested : bool) (n : node) : decision :=
  if selected host n then (if check_init n then Manage else if init_requested then QueueInit else Ignore) else Ignore.

(* the init task: DefaultNodeIO.init creates the marker with mode "x" *)
Definition nl : N := 10.
Definition with_marker (n : node) (m : marker) : node := {| n_name := n_name n; n_host := n_host n; n_active := n_active n; n_marker := m |}.
Definition init_task (n : node) : node * bool :=         (* (node afterwards, request completed) *)
  if check_init n then (n, true)
  else match n_marker n with
       | MAbsent => let n' := with_marker n (MLine (n_name n ++ [nl])) in (n', check_init n')
       | _ => (n, false)
       end.

(* one iteration of the daemon on [host]: the nodes it performs I/O on, and the nodes afterwards *)
Definition iteration (host : str) (requested : node -> bool) (nodes : list node) : list node * list node :=
  (filter (fun n => match vet host (requested n) n with Manage => true | _ => false end) nodes,
   map (fun n => match vet host (requested n) n with QueueInit => fst (init_task n) | _ => n end) nodes).
