"""C10 — containment of database faults: Worker.run / Task clean-up / transactions / retry."""
import ast
import os
import threading
import time

import pathlib

from vf import core
from vf.core import cbool, clist, cnat, ctup
from vf.translate import core as T

TRUSTED = [
    "Coq 8.16.1 kernel + VM; no native_compute",
    "translator vf/translate for RetryOperationalError.execute_sql's guard, WorkerPool.check's tests and the shape of Worker.run's exception handlers",
    "sqlite transaction atomicity (rollback of atomic() blocks); faults are injected by wrapping Database.execute_sql, so BEGIN/COMMIT themselves never fail; "
    "the retry mixin is exercised over a stub base class because the fallback connector does not work with the installed peewee 4.5 (observation F-C10b); "
    "modelled, not verified: workers >= 1 (with zero workers tasks run in the main thread where nothing catches OperationalError: observation O-3)",
]
RULE = ("scripted tasks (statements, clean-up registrations first/last, yields, non-DB exceptions) x fault sets (single, repeated, in clean-ups) through the real Task and Worker.run; "
        "real pull tasks with an OperationalError at every statement index k; the retry mixin over all 16 flag combinations; WorkerPool.check with real threads; "
        "non-trivial = at least one fault hit; distinct by (script, fault set)")


def gen(ctx):
    base = T.parse(core.REPO / "alpenhorn/db/_base.py")
    pool = T.parse(core.REPO / "alpenhorn/scheduler/pool.py")
    atoms = {"self.autoconnect": ("autoconnect", "bool"), "self.in_transaction()": ("in_txn", "bool"), "global_abort.is_set()": ("aborting", "bool"),
             "worker.is_alive()": ("alive", "bool")}
    d = [
        T.nth_test(base, "RetryOperationalError.execute_sql", 0, {}, "g_no_retry", ["autoconnect", "in_txn"], atoms=atoms, expect_count=2),
        T.nth_test(pool, "WorkerPool.check", 0, {}, "g_pool_aborting", atoms=atoms, expect_count=2),
        T.nth_test(pool, "WorkerPool.check", 1, {}, "g_respawn", atoms=atoms),
    ]
    f = T.find_func(base, "RetryOperationalError.execute_sql")
    calls = [ast.unparse(x) for x in ast.walk(f) if isinstance(x, ast.Call) and "execute_sql" in ast.unparse(x.func)]
    if calls != ["super().execute_sql(sql, params, commit)", "super().execute_sql(sql, params, commit)"]:
        raise T.Untranslatable(f"UNTRANSLATABLE: execute_sql attempts changed: {calls}")
    handlers = [ast.unparse(h.type) for h in ast.walk(f) if isinstance(h, ast.ExceptHandler)]
    if handlers != ["pw.OperationalError"]:
        raise T.Untranslatable(f"UNTRANSLATABLE: execute_sql handlers changed: {handlers}")
    # Worker.run: the try around task() and its handlers
    run = T.find_func(pool, "Worker.run")
    tries = [x for x in ast.walk(run) if isinstance(x, ast.Try) and any("task()" in ast.unparse(s) for s in x.body)]
    if len(tries) != 1:
        raise T.Untranslatable("UNTRANSLATABLE: Worker.run: cannot locate the try around task()")
    hs = tries[0].handlers
    if [ast.unparse(h.type) for h in hs] != ["OperationalError", "Exception"]:
        raise T.Untranslatable("UNTRANSLATABLE: Worker.run handlers changed: " + str([ast.unparse(h.type) for h in hs]))
    dberr = ast.unparse(hs[0])
    order = [dberr.find(s) for s in ("task.do_cleanup()", "self._queue.task_done(key)", "task.requeue()")] + [dberr.rfind("return 1")]
    if -1 in order or order != sorted(order):
        raise T.Untranslatable(f"UNTRANSLATABLE: Worker.run OperationalError handler: expected do_cleanup, task_done, requeue, return in this order: {order}")
    if "global_abort.set()" not in ast.unparse(hs[1]) or "task_done" in ast.unparse(hs[1]):
        raise T.Untranslatable("UNTRANSLATABLE: Worker.run generic handler changed")
    inner = [x for x in ast.walk(hs[0]) if isinstance(x, ast.ExceptHandler) and x is not hs[0]]
    if sorted(ast.unparse(h.type) for h in inner) != ["Exception", "OperationalError"]:
        raise T.Untranslatable("UNTRANSLATABLE: Worker.run clean-up loop handlers changed")
    after = [ast.unparse(s) for s in run.body[-1].body[-1].body if True] if False else None  # structure beyond this is covered by T2
    return {"Gen_worker": T.HEADER + "\n".join(d) + "\n"}


def proofs(ctx):
    try:
        files = gen(ctx)
    except T.Untranslatable as e:
        ctx.broke("translator", "scheduler/pool.py / db/_base.py", str(e))
        files = None
    if files:
        core.check_tie(ctx, files, ["Tie_C10"])
    core.check_property_file(ctx, "C10.v")


# ---- scripted tasks through the real Task and Worker.run ------------------------------------------------------------
def gen_script(rng):
    nseg = rng.choice([1, 1, 1, 2, 3])
    segs, sid, cid = [], 0, 100
    for _ in range(nseg):
        acts = []
        for _ in range(rng.randint(0, 5)):
            r = rng.random()
            if r < 0.55:
                sid += 1
                acts.append(("stmt", sid))
            elif r < 0.95:
                cid += 1
                body = []
                for _ in range(rng.randint(0, 2)):
                    sid += 1
                    body.append(sid)
                acts.append(("reg", rng.random() < 0.6, cid, body))
            else:
                acts.append(("other",))
        segs.append(acts)
    nst = sid
    k = rng.choice([0, 1, 1, 1, 2, 3])
    faults = sorted(rng.sample(range(1, nst + 1), min(k, nst))) if nst else []
    return segs, faults, rng.random() < 0.5


def run_script(segs, faults, requeue):
    """real Task + real Worker.run; returns per-delivery observations"""
    import peewee as pw
    from alpenhorn.scheduler import pool
    from alpenhorn.scheduler.task import Task
    from vf.harness import world as w

    queue = w.StepQueue.make()
    started = []
    active = set(faults)
    executed = []

    def stmt(s, in_cleanup=False):
        if s in active:
            raise pw.OperationalError(f"injected at {s}")
        if not in_cleanup:
            executed.append(s)

    def make_cleanup(cid, body):
        def c():
            started.append(cid)
            for s in body:
                stmt(s, True)
        return c

    class Boom(Exception):
        pass

    def run_acts(task, acts):
        for a in acts:
            if a[0] == "stmt":
                stmt(a[1])
            elif a[0] == "reg":
                task.on_cleanup(make_cleanup(a[2], a[3]), first=a[1])
            else:
                raise Boom("not a database error")

    if len(segs) > 1:
        def func(task):
            for i, acts in enumerate(segs):
                run_acts(task, acts)
                if i < len(segs) - 1:
                    yield
    else:
        def func(task):
            run_acts(task, segs[0])

    Task(func, queue, "k", requeue=requeue, name="scripted")
    obs = []
    pool.global_abort.clear()
    for _ in range(len(segs) + 1):
        if queue.qsize == 0:
            break
        started.clear()
        done = {"n": 0}
        got = {"n": 0}
        w1 = pool.Worker(queue, 0)

        class QP:
            @staticmethod
            def get(timeout=None):
                if got["n"] >= 1:
                    w1._worker_stop.set()
                    return None
                got["n"] += 1
                return queue.get(timeout=timeout)

            @staticmethod
            def task_done(key):
                done["n"] += 1
                return queue.task_done(key)

        w1._queue = QP
        before = queue.qsize
        r = w1.run()
        aborted = pool.global_abort.is_set()
        pool.global_abort.clear()
        exited = r == 1
        newq = queue.qsize
        # a task that re-queued itself and a fresh copy both show up as one more queued item: tell them apart by identity
        requeued_self = (not exited) and newq == before  # it was taken (-1) and came back (+1)
        requeued_copy = exited and newq == before
        obs.append((list(started), done["n"], exited, aborted, requeued_copy, requeued_self))
        if exited or aborted or not requeued_self:
            break
    leftover_inprogress = queue.inprogress_size
    # "event-triggered imports are re-queued": with the database healthy again, what was put back must do the work from the start
    run_script.rerun = None
    if obs and obs[-1][4] and not pool.global_abort.is_set():
        active.clear()
        executed.clear()
        started.clear()
        for _ in range(len(segs) + 2):
            if queue.qsize == 0:
                break
            got = {"n": 0}
            w2 = pool.Worker(queue, 1)

            class QP2:
                @staticmethod
                def get(timeout=None):
                    if got["n"] >= 1:
                        w2._worker_stop.set()
                        return None
                    got["n"] += 1
                    return queue.get(timeout=timeout)

                task_done = staticmethod(queue.task_done)

            w2._queue = QP2
            w2.run()
            if pool.global_abort.is_set():
                break
        pool.global_abort.clear()
        run_script.rerun = (list(executed), list(started), queue.qsize, queue.inprogress_size)
    return obs, leftover_inprogress


def act_term(a):
    if a[0] == "stmt":
        return f"(Stmt {cnat(a[1])})"
    if a[0] == "reg":
        return f"(Reg {cbool(a[1])} {cnat(a[2])} {clist([cnat(s) for s in a[3]], 'nat')})"
    return "Other"


def explore_scripts(ctx, n):
    terms, keep = [], []
    for i in range(n):
        segs, faults, requeue = gen_script(ctx.rng)
        obs, inprog = run_script(segs, faults, requeue)
        ctx.count("scripted-task")
        if faults:
            ctx.distinct_add((repr(segs), tuple(faults), requeue))
        has_other = any(a[0] == "other" for acts in segs for a in acts)
        rp = {"family": "script", "segments": segs, "faults": faults, "requeue": requeue, "observed": obs}
        # monitor (database faults only): no abort, slot released exactly once per delivery, clean-ups exactly once overall
        if not has_other:
            if any(o[3] for o in obs):
                ctx.fail("C10:abort", f"database faults {faults} aborted the daemon", rp)
            if any(o[1] != 1 for o in obs) or inprog != 0:
                ctx.fail("C10:slot", f"task_done calls per delivery {[o[1] for o in obs]}, in-progress afterwards {inprog}", rp)
            ran = [c for o in obs for c in o[0]]
            if len(ran) != len(set(ran)):
                ctx.fail("C10:cleanup-twice", f"a clean-up was started more than once: {ran}", rp)
            last = obs[-1]
            if last[2] or not last[5]:
                # the task ended here (normally or by fault): every registration made before the end must have been started
                reg = []
                stop = False
                for acts in segs[: len(obs)]:
                    for a in acts:
                        if a[0] == "stmt" and a[1] in faults:
                            stop = True
                            break
                        if a[0] == "reg":
                            reg.append(a[2])
                    if stop:
                        break
                if sorted(reg) != sorted(ran):
                    ctx.fail("C10:cleanup-missed", f"registered {reg}, started {ran}", rp)
            if last[4] != (last[2] and requeue):
                ctx.fail("C10:requeue", f"worker exit={last[2]}, requeue flag={requeue}, fresh copy queued={last[4]}", rp)
            if run_script.rerun is not None:
                ex, st, qs, ip = run_script.rerun
                want = [a[1] for acts in segs for a in acts if a[0] == "stmt"]
                wantc = sorted(a[2] for acts in segs for a in acts if a[0] == "reg")
                if ex != want or sorted(st) != wantc or qs or ip:
                    rp2 = dict(rp, rerun={"executed": ex, "cleanups": st, "queued": qs, "in_progress": ip})
                    ctx.fail("C10:requeued-work-lost", f"the re-queued task, run with the database healthy, executed statements {ex} (the task's statements: {want}), clean-ups {sorted(st)} (registered: {wantc}), left {qs} queued / {ip} in progress", rp2)
        obs_t = clist([ctup(clist([cnat(c) for c in o[0]], "nat"), cnat(o[1]), cbool(o[2]), cbool(o[3]), cbool(o[4]), cbool(o[5])) for o in obs], "obs")
        terms.append(ctup(clist([cnat(f) for f in faults], "nat"), cbool(requeue), clist([clist([act_term(a) for a in acts], "act") for acts in segs], "(list act)"), obs_t))
        keep.append(rp)
        if i == 0:
            ctx.sample(rp)
    bad = core.run_cases(ctx, "script", "Corr.C10", "case", "check", terms, shard=300, extra_imports=("Model.Worker",))
    for i in bad[:3]:
        ctx.broke("correspondence", f"worker: model and implementation differ: {keep[i]}")


# ---- the retry mixin over a stub base ------------------------------------------------------------------------------
def explore_retry(ctx):
    import peewee as pw
    from alpenhorn.db._base import RetryOperationalError

    cases = []
    for a in (False, True):
        for t in (False, True):
            for f1 in (False, True):
                for f2 in (False, True):
                    calls = {"n": 0, "closed": 0}

                    class Base:
                        autoconnect = a

                        def execute_sql(self, sql, params=None, commit=None):
                            calls["n"] += 1
                            if (calls["n"] == 1 and f1) or (calls["n"] == 2 and f2):
                                raise pw.OperationalError("injected")
                            return "cursor"

                        def in_transaction(self):
                            return t

                        def is_closed(self):
                            return False

                        def close(self):
                            calls["closed"] += 1

                    class DB(RetryOperationalError, Base):
                        pass

                    try:
                        DB().execute_sql("SELECT 1")
                        err = False
                    except pw.OperationalError:
                        err = True
                    ctx.count("retry")
                    ctx.distinct_add(("retry", a, t, f1, f2))
                    exp_attempts = 2 if (f1 and a and not t) else 1
                    exp_err = (f1 and f2) if (a and not t) else f1
                    if (calls["n"], err) != (exp_attempts, exp_err) or (calls["n"] == 2 and calls["closed"] != 1):
                        ctx.fail("C10:retry", f"autoconnect={a} in_txn={t} fail1={f1} fail2={f2}: {calls['n']} attempts, error={err}, closes={calls['closed']}",
                                 {"family": "retry", "autoconnect": a, "in_txn": t, "fail1": f1, "fail2": f2})
                    cases.append(ctup(cbool(a), cbool(t), cbool(f1), cbool(f2), ctup(cnat(calls["n"]), cbool(err))))
    bad = core.run_cases(ctx, "retry", "Corr.C10", "rcase", "rcheck", cases, extra_imports=("Model.Worker",))
    for i in bad:
        ctx.broke("correspondence", f"retry: model and implementation differ: {cases[i]}")


# ---- the pool replaces dead workers (real threads) ---------------------------------------------------------------------
def explore_pool(ctx):
    import peewee as pw
    from alpenhorn.scheduler import pool
    from alpenhorn.scheduler.task import Task
    from vf.harness import world as w

    queue = w.StepQueue.make()
    pool.global_abort.clear()
    p = pool.WorkerPool(2, queue)
    try:
        ran = []

        def bad(task):
            task.on_cleanup(lambda: ran.append("cleanup"))
            raise pw.OperationalError("injected")

        def good(task):
            ran.append("good")

        Task(bad, queue, "a", requeue=False)
        deadline = time.time() + 5
        while time.time() < deadline and not any(not wk.is_alive() for wk in p._workers):
            time.sleep(0.01)
        dead = [wk.is_alive() for wk in p._workers]
        p.check()
        time.sleep(0.05)
        alive_after = [wk.is_alive() for wk in p._workers]
        Task(good, queue, "a")
        deadline = time.time() + 5
        while time.time() < deadline and "good" not in ran:
            time.sleep(0.01)
        ctx.count("pool")
        ctx.distinct_add(("pool", tuple(dead)))
        if all(dead) or not all(alive_after) or "good" not in ran or ran.count("cleanup") != 1 or pool.global_abort.is_set() or queue.inprogress_size != 0:
            ctx.fail("C10:pool", f"worker alive before check {dead}, after {alive_after}, ran {ran}, abort={pool.global_abort.is_set()}, in-progress={queue.inprogress_size}",
                     {"family": "pool"})
        ctx.sample({"pool": {"alive_before_check": dead, "alive_after_check": alive_after, "ran": ran}})
    finally:
        p.shutdown()
        pool.global_abort.clear()


# ---- real pull tasks with a fault at every statement ---------------------------------------------------------------------
def explore_real_pulls(ctx):
    from vf.props import c14

    base = ctx.tmp()
    for kind in ["ok", "present", "cross", "md5", "nosrc"]:
        k = 1
        while k < 40:
            h = c14.Hist(base, ctx.rng)
            w = h.w
            rid, queued = h.dispatch(50, False, False, 10 ** 6, kind)
            if not queued:
                break
            before = w.dump_index()
            with_fault = k
            # count statements: run once without fault on a twin first time to know the range
            rid2, r, aborted = h.finish_oldest(with_fault)
            after = w.dump_index()
            ctx.count("real-pull-fault")
            ctx.distinct_add(("pull", kind, k))
            rp = {"family": "real-pull", "kind": kind, "fault_at_statement": k}
            if aborted:
                ctx.fail("C10:abort-real", f"pull ({kind}) with OperationalError at statement {k}: global_abort set", rp)
            if h.reserved() != 0:
                ctx.fail("C10:reservation", f"pull ({kind}) with OperationalError at statement {k}: {h.reserved()} bytes stay reserved", rp)
            if h.queue.inprogress_size != 0:
                ctx.fail("C10:slot-real", f"pull ({kind}) with OperationalError at statement {k}: queue slot not released", rp)
            # all-or-nothing of the completion block: destination copy recorded Y iff request completed
            req = w.ArchiveFileCopyRequest.get(id=rid)
            dst = w.ArchiveFileCopy.get_or_none(file=req.file, node=h.dst)
            has_y = dst is not None and dst.has_file == "Y"
            if kind != "present" and bool(req.completed) != has_y:
                ctx.fail("C10:half-applied", f"pull ({kind}) fault at {k}: request completed={bool(req.completed)} but destination copy healthy={has_y}", rp)
            if r != 1:
                break  # the fault index is past the last statement: the task ran to its end
            k += 1
    ctx.sample({"real_pull_faults": "OperationalError at statement k = 1.. until the task completes, for 5 pull outcomes"})


def explore_real_imports(ctx):
    """an event-triggered import (watchdog: no request, requeue=True) through the real Worker.run with an OperationalError at its k-th
    statement, for every k: the worker exits (to be replaced), the import is re-queued, and once the database is healthy the file is registered"""
    import shutil

    from alpenhorn.daemon import auto_import as AI
    from alpenhorn.daemon import update as U
    from alpenhorn.scheduler import pool
    from vf.harness import world as w

    base = ctx.tmp() / "imports"
    for pre in ("none", "acq", "file"):
        k, nstmt = 0, None
        while nstmt is None or k <= nstmt:
            shutil.rmtree(base, ignore_errors=True)
            sdb = w.fresh_db(shared=True)
            g = w.mkgroup("g")
            node = w.mknode(base, "n", g, stype="F")
            (pathlib.Path(node.root) / "acq1").mkdir()
            (pathlib.Path(node.root) / "acq1" / "data.dat").write_bytes(b"payload")
            if pre in ("acq", "file"):
                a = w.mkacq("acq1")
                if pre == "file":
                    w.mkfile(a, "data.dat", b"payload")
            queue = w.StepQueue.make()
            un = U.UpdateableNode(queue, w.StorageNode.get(id=node.id))
            AI.import_file(un, queue, pathlib.PurePath("acq1/data.dat"), True, None)
            pool.global_abort.clear()
            wk = pool.Worker(queue, 0)
            got = {"n": 0}

            class QP:
                @staticmethod
                def get(timeout=None, _got=got, _wk=wk):
                    if _got["n"] >= 1:
                        _wk._worker_stop.set()
                        return None
                    _got["n"] += 1
                    return queue.get(timeout=0.001)

                task_done = staticmethod(queue.task_done)

            wk._queue = QP
            with w.SqlFault(sdb, fail_at=(k or None)) as sf:
                r = wk.run()
            if nstmt is None:
                nstmt = sf.n
            aborted = pool.global_abort.is_set()
            pool.global_abort.clear()
            requeued = queue.qsize
            # database healthy again: replacement workers take whatever is queued
            exits, aborted2 = w.drain_with_workers(queue)
            copies = [(c.has_file, c.wants_file) for c in w.ArchiveFileCopy.select()]
            ctx.count("real-import-fault")
            ctx.distinct_add(("import", pre, k))
            rp = {"family": "real-import", "pre": pre, "fault_at_statement": k, "statements": nstmt}
            if aborted or aborted2:
                ctx.fail("C10:abort-real", f"event-triggered import with OperationalError at statement {k}: global_abort set", rp)
            if k and k <= nstmt:
                if r != 1:
                    ctx.fail("C10:worker-not-replaced", f"event-triggered import: OperationalError at statement {k} of {nstmt}, but the worker did not exit (Worker.run returned {r}): it is never replaced", rp)
                if requeued != 1:
                    ctx.fail("C10:not-requeued", f"event-triggered import: OperationalError at statement {k} of {nstmt}: {requeued} task(s) in the queue afterwards, expected the re-queued import", rp)
            if copies != [("Y", "Y")] or queue.inprogress_size or queue.qsize:
                ctx.fail("C10:import-lost", f"event-triggered import with OperationalError at statement {k} of {nstmt}: after recovery the copies on the node are {copies} (expected one present copy); queued={queue.qsize} in progress={queue.inprogress_size}", rp)
            k += 1
    shutil.rmtree(base, ignore_errors=True)


def explore_catchup_scan(ctx):
    """the catch-up scan queued when a node's watcher starts (the other event-triggered import work: requeue=True, no request) through the
    real Worker.run with an OperationalError at its k-th statement, for every k: the worker exits, the scan is queued again, and once the
    database is healthy every file that was already on the node is registered --- the watcher is running, so nothing else would ever queue it"""
    import shutil

    from alpenhorn.daemon import auto_import as AI
    from alpenhorn.daemon import update as U
    from alpenhorn.io.default import DefaultNodeIO
    from alpenhorn.scheduler import pool
    from vf.harness import world as w

    class StandInObserver:
        def __init__(self, timeout=None):
            self.watches = []

        def start(self):
            pass

        def schedule(self, handler, path, recursive=True):
            self.watches.append((handler, path))
            return self.watches[-1]

        def unschedule(self, wt):
            self.watches.remove(wt)

        def stop(self):
            pass

        def join(self, *a):
            pass

    base = ctx.tmp() / "catchup"
    saved = DefaultNodeIO.observer
    DefaultNodeIO.observer = StandInObserver
    try:
        k, nstmt = 0, None
        while nstmt is None or k <= nstmt:
            shutil.rmtree(base, ignore_errors=True)
            AI._observers.clear()
            AI._watchers.clear()
            sdb = w.fresh_db(shared=True)
            g = w.mkgroup("g")
            node = w.mknode(base, "n", g, stype="F", auto_import=True)
            (pathlib.Path(node.root) / "acq1" / "sub").mkdir(parents=True)
            for rel in ("acq1/f1", "acq1/sub/f2"):
                (pathlib.Path(node.root) / rel).write_bytes(rel.encode())
            queue = w.StepQueue.make()
            un = U.UpdateableNode(queue, w.StorageNode.get(id=node.id))
            AI.update_observer(un, queue)
            queued_at_start = queue.qsize
            pool.global_abort.clear()
            wk = pool.Worker(queue, 0)
            got = {"n": 0}

            class QP:
                @staticmethod
                def get(timeout=None, _got=got, _wk=wk):
                    if _got["n"] >= 1:
                        _wk._worker_stop.set()
                        return None
                    _got["n"] += 1
                    return queue.get(timeout=0.001)

                task_done = staticmethod(queue.task_done)

            wk._queue = QP
            with w.SqlFault(sdb, fail_at=(k or None)) as sf:
                r = wk.run()
            if nstmt is None:
                nstmt = sf.n
            aborted = pool.global_abort.is_set()
            pool.global_abort.clear()
            # the next main-loop iteration: the watcher exists already, so update_observer queues nothing
            AI.update_observer(un, queue)
            exits, aborted2 = w.drain_with_workers(queue)
            names = sorted(f"{c.file.acq.name}/{c.file.name}" for c in w.ArchiveFileCopy.select() if c.has_file == "Y")
            ctx.count("catchup-scan-fault")
            ctx.distinct_add(("catchup", k))
            rp = {"family": "catchup-scan", "fault_at_statement": k, "statements": nstmt, "queued_when_the_watcher_started": queued_at_start, "imported": names}
            if queued_at_start != 1:
                ctx.broke("harness", "catch-up scan", f"starting the watcher queued {queued_at_start} tasks")
                break
            if aborted or aborted2:
                ctx.fail("C10:abort-real", f"catch-up scan with OperationalError at statement {k}: global_abort set", rp)
            if k and k <= nstmt and r != 1:
                ctx.fail("C10:worker-not-replaced", f"catch-up scan: OperationalError at statement {k} of {nstmt}, but the worker did not exit (Worker.run returned {r})", rp)
            if names != ["acq1/f1", "acq1/sub/f2"] or queue.inprogress_size or queue.qsize:
                ctx.fail("C10:import-lost", f"catch-up scan with OperationalError at statement {k} of {nstmt}: after recovery the files imported are {names} (two were on the node when its watcher started); "
                         f"queued={queue.qsize} in progress={queue.inprogress_size}", rp)
            k += 1
    finally:
        DefaultNodeIO.observer = saved
        AI._observers.clear()
        AI._watchers.clear()
    shutil.rmtree(base, ignore_errors=True)


def explore_connect(ctx):
    """the fallback connector: the database object that the real `_connect` hands out must carry the retry (the mixin first in its method
    resolution order).  peewee 4.5 cannot re-class its own database objects (observation O-3), so `db_url.connect` is made to return a plain
    Python front-end with the interface the mixin relies on; one transient OperationalError outside a transaction must then be absorbed by
    one reconnect and one retry, a persistent one reported after exactly one retry, and none retried inside a transaction."""
    import peewee as pw
    from alpenhorn.db import _base as B

    src = ast.unparse(T.find_func(T.parse(core.REPO / "alpenhorn/db/_base.py"), "_connect"))
    ctx.attempted.append("connect-pin")
    if "db.__class__ = type('RetryableDatabase', (RetryOperationalError, type(db)), {})" in src:
        ctx.obligations.append("connect-pin")
    else:
        ctx.broke("translator", "_connect", "UNTRANSLATABLE: _connect no longer builds the database class as type('RetryableDatabase', (RetryOperationalError, type(db)), {}) (the retry mixin first)")

    for in_txn in (False, True):
        for fails in (0, 1, 2):
            st = {"sent": 0, "closed": 0}

            class FrontEnd:
                autoconnect = True

                def execute_sql(self, sql, params=None, commit=None, _st=st, _fails=fails):
                    _st["sent"] += 1
                    if _st["sent"] <= _fails:
                        raise pw.OperationalError("server has gone away (injected by the harness)")
                    return "cursor"

                def in_transaction(self, _t=in_txn):
                    return _t

                def is_closed(self):
                    return False

                def close(self, _st=st):
                    _st["closed"] += 1

            orig = B.db_url.connect
            B.db_url.connect = lambda url, **kw: FrontEnd()
            try:
                try:
                    db = B._connect({"url": "frontend://harness"})
                except TypeError as e:
                    ctx.broke("harness", "_connect", f"the real _connect could not re-class the front-end: {e}")
                    return
            finally:
                B.db_url.connect = orig
            try:
                db.execute_sql("SELECT 1")
                err = False
            except pw.OperationalError:
                err = True
            ctx.count("connect-retry")
            ctx.distinct_add(("connect", in_txn, fails))
            exp_sent = 1 if (fails == 0 or in_txn) else 2
            exp_err = fails >= 1 if in_txn else fails >= 2
            rp = {"family": "connect", "in_transaction": in_txn, "statements_failing": fails, "sent": st["sent"], "reconnects": st["closed"], "error_reported": err}
            if (st["sent"], err) != (exp_sent, exp_err) or (exp_sent == 2 and st["closed"] != 1):
                ctx.fail("C10:retry", f"database built by _connect, in a transaction={in_txn}, the first {fails} send(s) fail with OperationalError: the statement was sent {st['sent']} time(s), "
                         f"{st['closed']} reconnect(s), error reported={err}; expected {exp_sent} send(s), error={exp_err}", rp)


def explore(ctx):
    explore_scripts(ctx, 400 if ctx.quick() else 8000)
    explore_retry(ctx)
    explore_connect(ctx)
    explore_pool(ctx)
    explore_real_pulls(ctx)
    explore_real_imports(ctx)
    explore_catchup_scan(ctx)


def search(ctx):
    explore_scripts(ctx, 5000)


def replay(ctx, rp):
    r = rp["replay"]
    if r.get("family") == "script":
        segs = [[tuple(a[:3]) + (a[3],) if a[0] == "reg" else tuple(a) for a in acts] for acts in r["segments"]]
        print(run_script(segs, r["faults"], r["requeue"]))
        return 2
    print(r)
    return 2
