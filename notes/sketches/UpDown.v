(* Feasibility sketch: repaired UpDownLock at critical-section granularity.
   The condition variable shares the mutex, so "test and enqueue" is one atomic section. *)
From Coq Require Import List ZArith Bool Lia Arith ZifyBool.
Import ListNotations.
Open Scope Z_scope.
Local Arguments Z.add : simpl never.
Local Arguments Z.sub : simpl never.
Local Arguments Z.leb : simpl never.
Local Arguments Z.ltb : simpl never.
Local Arguments Z.eqb : simpl never.
Local Arguments Z.mul : simpl never.
Local Arguments Z.of_nat : simpl never.
Local Arguments Z.opp : simpl never.

Definition tid := nat.
Inductive want := Up | Down.
Definition sgn (w : want) : Z := match w with Up => 1 | Down => -1 end.

Inductive pc :=
| Idle                                  (* not inside an acquire *)
| Waiting (w : want)                    (* blocked on the condition, not yet notified *)
| Woken (w : want).                     (* notified: must re-run the test under the mutex *)

Record st := { count : Z; owners : tid -> Z; pcs : tid -> pc }.

Definition upd {A} (f : tid -> A) (t : tid) (v : A) : tid -> A :=
  fun u => if Nat.eqb u t then v else f u.

Definition compatible (w : want) (c : Z) : bool :=
  match w with Up => 0 <=? c | Down => c <=? 0 end.

Inductive outcome := Got | Refused (* RuntimeError *) | WouldBlock | Slept | ReleasedOk | NotHeld | Noop.

(* one critical section of acquire: thread t is Idle (first attempt) or Woken (retry) *)
Definition try_acquire (blocking : bool) (w : want) (t : tid) (s : st) : st * outcome :=
  if compatible w (count s) then
    ({| count := count s + sgn w; owners := upd (owners s) t (owners s t + 1); pcs := upd (pcs s) t Idle |}, Got)
  else if 0 <? owners s t then ({| count := count s; owners := owners s; pcs := upd (pcs s) t Idle |}, Refused)
  else if negb blocking then ({| count := count s; owners := owners s; pcs := upd (pcs s) t Idle |}, WouldBlock)
  else ({| count := count s; owners := owners s; pcs := upd (pcs s) t (Waiting w) |}, Slept).

Definition wake_all (p : tid -> pc) : tid -> pc :=
  fun u => match p u with Waiting w => Woken w | x => x end.

Definition release (w : want) (t : tid) (s : st) : st * outcome :=
  let held := match w with Up => 0 <? count s | Down => count s <? 0 end in
  if held && (0 <? owners s t) then
    let c := count s - sgn w in
    ({| count := c; owners := upd (owners s) t (owners s t - 1);
        pcs := if c =? 0 then wake_all (pcs s) else pcs s |}, ReleasedOk)
  else (s, NotHeld).

Inductive label :=
| LAcq (blocking : bool) (w : want) (t : tid)   (* enabled when pcs t = Idle *)
| LRetry (t : tid)                              (* enabled when pcs t = Woken w *)
| LRel (w : want) (t : tid).                    (* enabled when pcs t = Idle *)

Definition step (s : st) (l : label) : st :=
  match l with
  | LAcq b w t => match pcs s t with Idle => fst (try_acquire b w t s) | _ => s end
  | LRetry t => match pcs s t with Woken w => fst (try_acquire true w t s) | _ => s end
  | LRel w t => match pcs s t with Idle => fst (release w t s) | _ => s end
  end.

Definition init : st := {| count := 0; owners := fun _ => 0; pcs := fun _ => Idle |}.

(* Invariant: owners are non-negative; a thread with owners > 0 is not sleeping;
   every sleeper wants the state opposite to a non-zero count (so a free lock has no sleeper). *)
Definition Inv (s : st) : Prop :=
  (forall t, 0 <= owners s t) /\
  (forall t w, pcs s t = Waiting w -> compatible w (count s) = false /\ owners s t = 0).

Lemma inv_init : Inv init.
Proof. split; cbn; intros; [lia | discriminate]. Qed.

Lemma upd_same {A} (f : tid -> A) t v : upd f t v t = v.
Proof. unfold upd. now rewrite Nat.eqb_refl. Qed.
Lemma upd_other {A} (f : tid -> A) t u v : u <> t -> upd f t v u = f u.
Proof. unfold upd. intros H. destruct (Nat.eqb_spec u t); congruence. Qed.

Lemma inv_step s l : Inv s -> Inv (step s l).
Proof.
  intros [Hown Hw]. destruct l as [b w t | t | w t]; cbn [step].
  - destruct (pcs s t) eqn:Hpc; try (split; assumption).
    unfold try_acquire.
    destruct (compatible w (count s)) eqn:Hc; cbn.
    + split.
      * intros u. cbn [count owners pcs]. unfold upd. destruct (Nat.eqb u t); [specialize (Hown t); lia | apply Hown].
      * intros u w' Hu. cbn [count owners pcs] in Hu |- *. unfold upd in Hu |- *. destruct (Nat.eqb_spec u t) as [->|Hne]; [discriminate|].
        destruct (Hw u w' Hu) as [Hc' Ho]. split; [|exact Ho].
        destruct w, w'; cbn in *; lia.
    + destruct (0 <? owners s t) eqn:Ho; cbn.
      * split; [exact Hown|]. intros u w' Hu. cbn [count owners pcs] in Hu |- *. unfold upd in Hu. destruct (Nat.eqb_spec u t); [discriminate|]. now apply Hw.
      * destruct b; cbn.
        -- split; [exact Hown|]. intros u w' Hu. cbn [count owners pcs] in Hu |- *. unfold upd in Hu. destruct (Nat.eqb_spec u t) as [->|Hne].
           ++ injection Hu as <-. split; [exact Hc|]. specialize (Hown t). lia.
           ++ now apply Hw.
        -- split; [exact Hown|]. intros u w' Hu. cbn [count owners pcs] in Hu |- *. unfold upd in Hu. destruct (Nat.eqb_spec u t); [discriminate|]. now apply Hw.
  - destruct (pcs s t) eqn:Hpc; try (split; assumption).
    unfold try_acquire.
    destruct (compatible w (count s)) eqn:Hc; cbn.
    + split.
      * intros u. cbn [count owners pcs]. unfold upd. destruct (Nat.eqb u t); [specialize (Hown t); lia | apply Hown].
      * intros u w' Hu. cbn [count owners pcs] in Hu |- *. unfold upd in Hu |- *. destruct (Nat.eqb_spec u t) as [->|Hne]; [discriminate|].
        destruct (Hw u w' Hu) as [Hc' Ho]. split; [|exact Ho].
        destruct w, w'; cbn in *; lia.
    + destruct (0 <? owners s t) eqn:Ho; cbn.
      * split; [exact Hown|]. intros u w' Hu. cbn [count owners pcs] in Hu |- *. unfold upd in Hu. destruct (Nat.eqb_spec u t); [discriminate|]. now apply Hw.
      * split; [exact Hown|]. intros u w' Hu. cbn [count owners pcs] in Hu |- *. unfold upd in Hu. destruct (Nat.eqb_spec u t) as [->|Hne].
        -- injection Hu as <-. split; [exact Hc|]. specialize (Hown t). lia.
        -- now apply Hw.
  - destruct (pcs s t) eqn:Hpc; try (split; assumption).
    unfold release.
    destruct ((match w with Up => 0 <? count s | Down => count s <? 0 end) && (0 <? owners s t)) eqn:Hh; cbn; [|split; assumption].
    apply andb_prop in Hh as [Hheld Ho].
    split.
    + intros u. cbn [count owners pcs]. unfold upd. destruct (Nat.eqb u t); [lia | apply Hown].
    + intros u w' Hu. cbn [count owners pcs] in Hu |- *.
      destruct (count s - sgn w =? 0) eqn:Hz.
      * unfold wake_all in Hu. destruct (pcs s u); discriminate.
      * destruct (Hw u w' Hu) as [Hc' Ho']. split.
        -- destruct w, w'; cbn in *; lia.
        -- unfold upd. destruct (Nat.eqb_spec u t) as [->|]; [|exact Ho']. rewrite Hpc in Hu. discriminate.
Qed.

Theorem inv_reach labels : Inv (fold_left step labels init).
Proof.
  assert (H : forall s, Inv s -> Inv (fold_left step labels s)).
  { induction labels as [|l ls IH]; cbn; intros s Hs; [exact Hs|]. apply IH, inv_step, Hs. }
  apply H, inv_init.
Qed.

(* no lost wake-up: in every reachable state a free lock has no sleeper *)
Corollary free_lock_no_sleeper labels t w :
  let s := fold_left step labels init in count s = 0 -> pcs s t <> Waiting w.
Proof.
  intros s Hc Hp. destruct (inv_reach labels) as [_ Hw]. destruct (Hw t w Hp) as [Hcomp _].
  fold s in Hcomp. rewrite Hc in Hcomp. destruct w; cbn in Hcomp; discriminate.
Qed.

(* ---------------------------------------------------------------------------------------------
   Exclusion, with a ghost list of hold tokens: a token (t, w) is added by every successful acquire
   and one is removed by every successful release. *)
Definition token := (tid * want)%type.
Definition want_eqb (a b : want) : bool := match a, b with Up, Up | Down, Down => true | _, _ => false end.
Fixpoint remove_one (t : tid) (l : list token) : list token :=
  match l with
  | [] => []
  | (u, w) :: l' => if Nat.eqb u t then l' else (u, w) :: remove_one t l'
  end.
Definition holds_of (t : tid) (l : list token) : Z := Z.of_nat (length (filter (fun x => Nat.eqb (fst x) t) l)).

Definition gstep (sg : st * list token) (l : label) : st * list token :=
  let '(s, g) := sg in
  match l with
  | LAcq b w t =>
      match pcs s t with
      | Idle => let '(s', o) := try_acquire b w t s in (s', match o with Got => (t, w) :: g | _ => g end)
      | _ => (s, g) end
  | LRetry t =>
      match pcs s t with
      | Woken w => let '(s', o) := try_acquire true w t s in (s', match o with Got => (t, w) :: g | _ => g end)
      | _ => (s, g) end
  | LRel w t =>
      match pcs s t with
      | Idle => let '(s', o) := release w t s in (s', match o with ReleasedOk => remove_one t g | _ => g end)
      | _ => (s, g) end
  end.

(* ghost invariant: all tokens share one want, the signed count is their number, owners count tokens per thread *)
Definition GInv (sg : st * list token) : Prop :=
  let '(s, g) := sg in
  (exists w0, Forall (fun x => snd x = w0) g /\ count s = sgn w0 * Z.of_nat (length g)) /\
  (forall t, owners s t = holds_of t g).

Lemma holds_cons t u w g : holds_of t ((u, w) :: g) = (if Nat.eqb u t then 1 else 0) + holds_of t g.
Proof. unfold holds_of. cbn [filter fst]. destruct (Nat.eqb u t); cbn [length]; lia. Qed.

Lemma remove_one_spec t g :
  0 < holds_of t g ->
  length (remove_one t g) = pred (length g) /\ (0 < length g)%nat /\
  (forall u, holds_of u (remove_one t g) = holds_of u g - (if Nat.eqb t u then 1 else 0)) /\
  (forall w0, Forall (fun x => snd x = w0) g -> Forall (fun x => snd x = w0) (remove_one t g)).
Proof.
  induction g as [|[u w] g IH]; intros H; [unfold holds_of in H; cbn in H; lia|].
  cbn [remove_one]. destruct (Nat.eqb_spec u t) as [->|Hne].
  - repeat split; cbn [length]; try lia.
    + intros v. rewrite holds_cons. rewrite (Nat.eqb_sym t v). destruct (Nat.eqb v t); lia.
    + intros w0 F. inversion F; assumption.
  - rewrite holds_cons in H. destruct (Nat.eqb_spec u t); [congruence|].
    destruct (IH ltac:(lia)) as (L & P & Hh & F).
    repeat split; cbn [length]; try lia.
    + intros v. rewrite !holds_cons, Hh. lia.
    + intros w0 Fw. inversion Fw as [|? ? Hhd Htl]. constructor; [exact Hhd | apply F; exact Htl].
Qed.

Lemma ginv_init : GInv (init, []).
Proof. split; [exists Up; split; [constructor | reflexivity] | intros t; reflexivity]. Qed.

Lemma acquire_ginv b w t s g :
  GInv (s, g) ->
  GInv (let '(s', o) := try_acquire b w t s in (s', match o with Got => (t, w) :: g | _ => g end)).
Proof.
  intros [(w0 & F & C) O]. unfold try_acquire.
  destruct (compatible w (count s)) eqn:Hc.
  - split.
    + cbn [count]. destruct g as [|x g].
      * exists w. split; [constructor; [reflexivity|constructor]|]. cbn [length] in *. lia.
      * assert (w0 = w).
        { cbn [length] in C. destruct w0, w; try reflexivity; cbn in *; lia. }
        subst w0. exists w. split; [constructor; [reflexivity|exact F]|]. cbn [length] in *. lia.
    + intros u. cbn [owners]. unfold upd. rewrite holds_cons, (Nat.eqb_sym t u).
      destruct (Nat.eqb_spec u t) as [->|]; rewrite ?O; lia.
  - destruct (0 <? owners s t); [|destruct (negb b)]; (split; [exists w0; split; assumption | exact O]).
Qed.

Lemma release_ginv w t s g :
  GInv (s, g) ->
  GInv (let '(s', o) := release w t s in (s', match o with ReleasedOk => remove_one t g | _ => g end)).
Proof.
  intros [(w0 & F & C) O]. unfold release.
  destruct ((match w with Up => 0 <? count s | Down => count s <? 0 end) && (0 <? owners s t)) eqn:Hh;
    [|split; [exists w0; split; assumption | exact O]].
  apply andb_prop in Hh as [Hheld Ho].
  assert (Hpos : 0 < holds_of t g) by (rewrite <- O; lia).
  destruct (remove_one_spec t g Hpos) as (L & P & Hh & FF).
  assert (w0 = w) by (destruct w0, w; try reflexivity; cbn in *; lia). subst w0.
  split.
  - exists w. split; [apply FF, F|]. cbn [count]. rewrite L. destruct w; cbn in *; lia.
  - intros u. cbn [owners]. unfold upd. rewrite Hh, (Nat.eqb_sym t u).
    destruct (Nat.eqb_spec u t) as [->|]; rewrite ?O; lia.
Qed.

Lemma ginv_step sg l : GInv sg -> GInv (gstep sg l).
Proof.
  destruct sg as [s g]. intros H. destruct l as [b w t | t | w t]; cbn [gstep];
    destruct (pcs s t); try exact H; try (apply acquire_ginv; exact H); apply release_ginv; exact H.
Qed.

(* C13_exclusion: in every reachable state no thread holds the lock up while another (or the same) holds it down *)
Theorem exclusion labels t1 t2 :
  let '(s, g) := fold_left gstep labels (init, []) in ~ (In (t1, Up) g /\ In (t2, Down) g).
Proof.
  assert (H : forall sg, GInv sg -> GInv (fold_left gstep labels sg)).
  { induction labels as [|l ls IH]; cbn; intros sg Hs; [exact Hs|]. apply IH, ginv_step, Hs. }
  specialize (H _ ginv_init). destruct (fold_left gstep labels (init, [])) as [s g].
  destruct H as [(w0 & F & _) _]. rewrite Forall_forall in F. intros [H1 H2].
  pose proof (F _ H1) as E1. pose proof (F _ H2) as E2. cbn in E1, E2. congruence.
Qed.
Print Assumptions exclusion.
