(* Feasibility sketch: C03 — the chunked read loop of util._md5sum_file feeds every byte exactly once, in order. *)
From Coq Require Import List NArith Bool Lia Arith.
Import ListNotations.

Section Md5Loop.
  Variable bs : nat.            (* block_size       = 256 * 128 *)
  Variable bpc : nat.           (* blocks_per_chunk = 1024      *)
  Hypothesis bs_pos : 0 < bs.
  Hypothesis bpc_pos : 0 < bpc.

  Definition byte := N.
  (* f.read(bs) on a file whose unread part is [rest] *)
  Definition read (rest : list byte) : list byte * list byte := (firstn bs rest, skipn bs rest).

  (* _md5_chunk: for block in iter(lambda: f.read(bs), b""): update(block); count += 1; if count >= bpc: return False
                 return True
     [fed] accumulates the blocks handed to md5.update, most recent last *)
  Fixpoint md5_chunk (fuel count : nat) (rest : list byte) (fed : list (list byte)) : bool * list byte * list (list byte) :=
    match fuel with
    | O => (true, rest, fed)                                  (* unreachable with enough fuel *)
    | S fuel' =>
        let '(block, rest') := read rest in
        match block with
        | [] => (true, rest', fed)                            (* sentinel b"" : end of file *)
        | _ => let fed' := fed ++ [block] in
               if bpc <=? S count then (false, rest', fed') else md5_chunk fuel' (S count) rest' fed'
        end
    end.

  (* outer loop: while not eof: eof = chunk(...) *)
  Fixpoint md5_file (fuel : nat) (rest : list byte) (fed : list (list byte)) : list (list byte) :=
    match fuel with
    | O => fed
    | S fuel' =>
        let '(eof, rest', fed') := md5_chunk (S (length rest)) 0 rest fed in
        if eof then fed' else md5_file fuel' rest' fed'
    end.

  Lemma firstn_nil_iff (l : list byte) : firstn bs l = [] <-> l = [].
  Proof. destruct l; destruct bs eqn:E; cbn; try lia; split; congruence. Qed.

  Lemma chunk_spec fuel : forall count rest fed,
    length rest < fuel ->
    let '(eof, rest', fed') := md5_chunk fuel count rest fed in
    concat fed' ++ rest' = concat fed ++ rest /\
    (eof = true -> rest' = []) /\
    (eof = false -> length rest' < length rest).
  Proof.
    induction fuel as [|fuel IH]; intros count rest fed Hf; [lia|].
    cbn [md5_chunk read].
    destruct (firstn bs rest) as [|b block] eqn:Eb.
    - pose proof (proj1 (firstn_nil_iff rest) Eb) as Er. rewrite Er, skipn_nil. repeat split; auto; discriminate.
    - assert (Hsplit : (b :: block) ++ skipn bs rest = rest) by (rewrite <- Eb; apply firstn_skipn).
      assert (Hlen : length (skipn bs rest) < length rest).
      { rewrite <- Hsplit at 2. rewrite app_length. cbn. lia. }
      destruct (bpc <=? S count).
      + split; [|split; [discriminate | intros _; exact Hlen]].
        rewrite concat_app. cbn [concat]. rewrite app_nil_r, <- app_assoc, Hsplit. reflexivity.
      + specialize (IH (S count) (skipn bs rest) (fed ++ [b :: block])).
        destruct (md5_chunk fuel (S count) (skipn bs rest) (fed ++ [b :: block])) as [[eof rest'] fed'].
        destruct IH as (Hc & He & Hn); [lia|].
        repeat split.
        * rewrite Hc, concat_app. cbn [concat]. rewrite app_nil_r, <- app_assoc, Hsplit. reflexivity.
        * exact He.
        * intros E. specialize (Hn E). lia.
  Qed.

  Lemma file_spec fuel : forall rest fed, length rest < fuel -> concat (md5_file fuel rest fed) = concat fed ++ rest.
  Proof.
    induction fuel as [|fuel IH]; intros rest fed Hf; [lia|].
    cbn [md5_file].
    pose proof (chunk_spec (S (length rest)) 0 rest fed (Nat.lt_succ_diag_r _)) as H.
    destruct (md5_chunk (S (length rest)) 0 rest fed) as [[eof rest'] fed'].
    destruct H as (Hc & He & Hn). destruct eof.
    - rewrite (He eq_refl), app_nil_r in Hc. exact Hc.
    - rewrite IH by (specialize (Hn eq_refl); lia). exact Hc.
  Qed.

  (* every byte of every file, of any length, is hashed exactly once and in order *)
  Theorem md5_chunks_cover content : concat (md5_file (S (length content)) content []) = content.
  Proof. rewrite file_spec by lia. reflexivity. Qed.
End Md5Loop.
Print Assumptions md5_chunks_cover.
