(* Correspondence for C14: a node's history of dispatches / task ends with the reserved total observed after each *)
From Coq Require Import List NArith ZArith Bool Arith.
From Alp Require Import Base.Str Base.Types Model.Reserve.
Import ListNotations.
Open Scope Z_scope.
Fixpoint totals (st : rstate) (evs : list ev) : list Z :=
  match evs with [] => [] | e :: evs' => let st' := rstep st e in reserved st' :: totals st' evs' end.
Definition case := (list ev * list Z)%type.
Definition check (c : case) : bool := list_eqb Z.eqb (totals rinit (fst c)) (snd c) && Nat.eqb (errors (rrun (fst c))) 0.
(* single calls: (size, check_only, bavail, reserved before, (result, reserved after)) *)
Definition rcase := (Z * bool * option Z * Z * (bool * Z))%type.
Definition rcheck (c : rcase) : bool :=
  let '(size, co, bavail, res, (ok, after)) := c in
  let '(ok', after') := reserve size co bavail res in Bool.eqb ok ok' && Z.eqb after after'.

(* the gate on quantities: (avail, min, total, max, size, bavail, reserved before, (queued?, reserved afterwards)) in bytes *)
Definition gcase := (option Z * Z * Z * option Z * Z * option Z * Z * (bool * Z))%type.
Definition gcheck (c : gcase) : bool :=
  let '(av, mn, tot, mx, size, bav, res, (q, r)) := c in
  let '(q', r') := pull_gate_n av mn tot mx size bav res in Bool.eqb q q' && Z.eqb r r'.
