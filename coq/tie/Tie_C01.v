From Coq Require Import List NArith ZArith Bool Lia ZifyBool Arith.
From Alp Require Import Base.Str Base.Types Model.Delete.
From Run Require Gen_delete.
Open Scope Z_scope.
Lemma tie_copies_required a : Gen_delete.g_copies_required a = Z.of_nat (copies_required a).
Proof. destruct a; reflexivity. Qed.
Lemma tie_too_few n r : Gen_delete.g_too_few (Z.of_nat n) (Z.of_nat r) = too_few n r.
Proof. unfold Gen_delete.g_too_few, too_few. destruct (Nat.ltb_spec n r); lia. Qed.
Lemma tie_enoent e : Gen_delete.g_is_enoent e 2 = (e =? 2).
Proof. reflexivity. Qed.
