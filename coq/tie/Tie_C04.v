From Coq Require Import List NArith ZArith Bool.
From Alp Require Import Base.Str Base.Types Model.Import.
From Run Require Gen_import.
Import ListNotations.
Lemma t_not_file a b : Gen_import.g_not_a_file a b = a || negb b. Proof. reflexivity. Qed.
Lemma t_revive w : Gen_import.g_revive_suspect w = wants_eqb w WY. Proof. destruct w; reflexivity. Qed.
Lemma t_absolute b : Gen_import.g_vet_absolute b = b. Proof. reflexivity. Qed.
Lemma t_marker p : Gen_import.g_vet_marker p = str_eqb p [65; 76; 80; 69; 78; 72; 79; 82; 78; 95; 78; 79; 68; 69]%N. Proof. reflexivity. Qed.
Lemma t_recurse b : Gen_import.g_vet_recurse b = b. Proof. reflexivity. Qed.
