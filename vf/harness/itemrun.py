"""Sweeps of single-item worlds: every crash point of one iteration of the destination's daemon, and fault-free rounds afterwards.
Produces Coq case terms for Corr/Item.v plus direct (Python) statements of C09/C05 evaluated on the real observations."""
from __future__ import annotations

from vf.harness import itemworld as iw

SRC = [("Y", "good")] * 8 + [("M", "good"), ("M", "bad"), ("Y", None), ("Y", "bad"), ("X", "bad"), ("N", None), ("M", None)]
ROWS = [None] * 6 + [("X", "Y"), ("X", "Y"), ("M", "Y"), ("N", "Y"), ("N", "N"), ("Y", "Y"), ("Y", "N"), ("M", "N"), ("X", "N"), ("Y", "M"), ("X", "M")]
REMOTE_MODES = ["ok"] * 6 + ["fail", "mkstemp", "write_failed", "die_tmp", "die_partial"]


def gen_case(rng):
    tr = rng.choice(["rsync", "rsync", "bbcp", "bbcp", "hardlink", "internal", "notool", "noroute"])
    local = iw.TRANSPORTS[tr][0]
    sh, sd = ("Y", "good") if local else rng.choice(SRC)
    row = rng.choice(ROWS)
    if row is None:
        disk = rng.choice([None, None, None, "good", "bad"])
    elif row[0] == "Y":
        disk = "good"
    elif row[0] == "N":
        disk = rng.choice([None, None, "good", "bad"])
    else:
        disk = rng.choice(["good", "bad", None])
    i = {"src_has": sh, "src_disk": sd, "dst_row": row, "dst_disk": disk, "ph": rng.random() < 0.15 and disk is None, "tmp": False,
         "req": rng.choice(["pending"] * 8 + ["completed", "cancelled"])}
    e = {"src_active": rng.random() < 0.9, "dst_usable": rng.random() < 0.93, "gate_ok": rng.random() < 0.9, "transport": tr, "del_ok": rng.random() < 0.5}
    mode = rng.choice(REMOTE_MODES) if tr in ("rsync", "bbcp") else "ok"
    if mode in ("mkstemp", "write_failed") and tr == "bbcp":
        mode = "fail"
    return i, e, mode


CORE = []
for _tr in ("rsync", "bbcp", "hardlink", "internal"):
    for _row, _disk in ((None, None), (("X", "Y"), "bad"), (("N", "N"), None)):
        CORE.append(({"src_has": "Y", "src_disk": "good", "dst_row": _row, "dst_disk": _disk, "ph": False, "tmp": False, "req": "pending"},
                     {"src_active": True, "dst_usable": True, "gate_ok": True, "transport": _tr, "del_ok": True}, "ok"))
# a transfer onto a removed-and-released row where the deletion-safety rule would not allow a deletion
for _tr in ("rsync", "hardlink"):
    CORE.append(({"src_has": "Y", "src_disk": "good", "dst_row": ("N", "N"), "dst_disk": None, "ph": False, "tmp": False, "req": "pending"},
                 {"src_active": True, "dst_usable": True, "gate_ok": True, "transport": _tr, "del_ok": False}, "ok"))
for _m in ("fail", "mkstemp", "die_tmp", "die_partial"):
    CORE.append(({"src_has": "Y", "src_disk": "good", "dst_row": None, "dst_disk": None, "ph": False, "tmp": False, "req": "pending"},
                 {"src_active": True, "dst_usable": True, "gate_ok": True, "transport": "rsync", "del_ok": False}, _m))
CORE.append(({"src_has": "Y", "src_disk": "good", "dst_row": ("Y", "N"), "dst_disk": "good", "ph": False, "tmp": False, "req": "cancelled"},
             {"src_active": True, "dst_usable": True, "gate_ok": True, "transport": "rsync", "del_ok": True}, "ok"))
CORE.append(({"src_has": "Y", "src_disk": "good", "dst_row": ("M", "Y"), "dst_disk": "bad", "ph": False, "tmp": False, "req": "pending"},
             {"src_active": True, "dst_usable": True, "gate_ok": True, "transport": "bbcp", "del_ok": False}, "ok"))


def rounds_from(sim, e, n):
    """fault-free rounds: every host iterates once per round; returns the projections and any daemon error"""
    sim.set_tools(iw.TRANSPORTS[e["transport"]][1])
    out, errs = [], []
    for _ in range(n):
        for h in iw.hosts_of(e):
            r = sim.iterate(h)
            if r["error"]:
                errs.append(r["error"])
        out.append(iw.project(sim))
    return out, errs


def sweep(base, i, e, mode, recover_rounds=0, on_world=None):
    """-> dict(trace=[projection after a kill at tick j, j=1..n] + [normal end], recover=[(crash state, [after each round])], errors)"""
    sim = iw.build(base, i, e, mode)
    errors = []
    try:
        if on_world:
            on_world(sim)
        res = sim.iterate("h2")
        n = res["ncalls"]
        if res["error"]:
            errors.append(("uncrashed", res["error"]))
        final = iw.project(sim)
        recover = []
        if recover_rounds:
            obs, errs = rounds_from(sim, e, recover_rounds)
            recover.append((None, final, obs))
            errors += [("rounds", x) for x in errs]
    finally:
        sim.shutdown()
    trace = []
    for j in range(1, n + 1):
        sim = iw.build(base, i, e, mode)
        try:
            if on_world:
                on_world(sim)
            r = sim.iterate("h2", crash_at=j)
            if r["error"] not in (None, "crash"):
                errors.append((f"crash@{j}", r["error"]))
            st = iw.project(sim)
            trace.append(st)
            if recover_rounds:
                obs, errs = rounds_from(sim, e, recover_rounds)
                recover.append((j, st, obs))
                errors += [(f"rounds after crash@{j}", x) for x in errs]
        finally:
            sim.shutdown()
    return {"trace": trace + [final], "recover": recover, "errors": errors, "ncalls": n}


def trace_term(i, e, mode, trace):
    return f"(CTrace {iw.cenv(e)} {iw.BEH[mode]} {iw.citem(i)} [" + "; ".join(iw.citem(o) for o in trace) + "])"


def rounds_term(e, start, obs):
    """rounds of freshly started daemons from `start`"""
    return f"(CRounds {iw.cenv(e)} {iw.citem(start)} [" + "; ".join(iw.citem(o) for o in obs) + "])"


def rounds_on_term(e, mode, first, obs):
    """further rounds of the same daemons after one uninterrupted iteration of the destination's daemon on `first`"""
    return f"(CRoundsOn {iw.cenv(e)} {iw.BEH[mode]} {iw.citem(first)} [" + "; ".join(iw.citem(o) for o in obs) + "])"


# ---- the statements, on observations ------------------------------------------------------------------------------------
def backed(st):
    """a copy recorded healthy (and not released, i.e. not in the deletion window) is backed by good bytes"""
    bad = []
    if st["src_has"] == "Y" and st["src_disk"] != "good":
        bad.append("source recorded healthy without good bytes")
    if st["dst_row"] is not None and st["dst_row"][0] == "Y" and st["dst_row"][1] != "N" and st["dst_disk"] != "good":
        bad.append("destination recorded healthy without good bytes")
    return bad


def good_env(e):
    return e["src_active"] and e["dst_usable"] and e["gate_ok"] and e["transport"] not in ("notool", "noroute")


def healed(st):
    return st["dst_row"] == ("Y", "Y") and st["dst_disk"] == "good" and st["req"] != "pending" and st["src_has"] == "Y" and st["src_disk"] == "good"
