"""C16 — post_add: autosync / autoclean rules on real sqlite tables; both triggers (import, pull)."""
import ast
import itertools

from vf import core
from vf.core import cbool, clist, cn, ctup
from vf.translate import core as T

TRUSTED = [
    "Coq 8.16.1 kernel + VM; no native_compute",
    "translator vf/translate for the guards of post_add and state_on_node, the literal filters of the two rule queries and the autoclean UPDATE (checked textually), "
    "and the single call of post_add in each trigger (copy_request_done, _import_file)",
    "sqlite + peewee as the meaning of the queries (list-comprehension reading validated by correspondence); rows are compared in id order",
]
RULE = ("rule graphs over <= 4 nodes in <= 3 groups (self-loops, both flags, several edges per node) x copy states x existing requests, post_add called on the real tables; "
        "exhaustive small graphs in thorough; both real triggers (import, completed pull) checked to call it exactly once; non-trivial = at least one rule touches the node or its group; distinct by full input")

HAS = {"Y": "HY", "M": "HM", "X": "HX", "N": "HN"}
WANTS = {"Y": "WY", "M": "WM", "N": "WN"}


def gen(ctx):
    iou = T.parse(core.REPO / "alpenhorn/io/ioutil.py")
    sto = T.parse(core.REPO / "alpenhorn/db/storage.py")
    atoms = {"edge.group_to.state_on_node(file_)[0]": ("state", "has"), "edge.self_loop": ("self_loop", "bool"), "copy.has_file": ("copy_has", "has")}
    d = [
        T.nth_test(iou, "post_add", 0, {}, "g_lacks_healthy", atoms=atoms, expect_count=3),
        T.nth_test(iou, "post_add", 1, {}, "g_skip_self_loop", atoms=atoms),
        T.nth_test(sto, "StorageGroup.state_on_node", 0, {}, "g_state_is_y", atoms=atoms, expect_count=3),
        T.nth_test(sto, "StorageGroup.state_on_node", 1, {}, "g_state_is_m", atoms=atoms),
        T.nth_test(sto, "StorageGroup.state_on_node", 2, {"state": "has"}, "g_state_is_x", ["copy_has", "state"], atoms=atoms),
    ]
    fn = T.find_func(iou, "post_add")
    wheres = [ast.unparse(x) for x in ast.walk(fn) if isinstance(x, ast.Call) and isinstance(x.func, ast.Attribute) and x.func.attr == "where"]
    want = [
        "StorageTransferAction.select().where(StorageTransferAction.node_from == node, StorageTransferAction.group_to != node.group, StorageTransferAction.autosync == True)",
        "StorageTransferAction.select().where(StorageTransferAction.group_to == node.group, StorageTransferAction.node_from != node, StorageTransferAction.autoclean == True)",
        "ArchiveFileCopy.update(wants_file='N', last_update=utcnow()).where(ArchiveFileCopy.file == file_, ArchiveFileCopy.node == edge.node_from, ArchiveFileCopy.has_file == 'Y', ArchiveFileCopy.wants_file == 'Y')",
    ]
    if sorted(wheres) != sorted(want):
        raise T.Untranslatable(f"UNTRANSLATABLE: queries of post_add changed: {wheres}")
    creates = [ast.unparse(x) for x in ast.walk(fn) if isinstance(x, ast.Call) and ast.unparse(x.func) == "ArchiveFileCopyRequest.create"]
    if creates != ["ArchiveFileCopyRequest.create(node_from=node, group_to=edge.group_to, file=file_)"]:
        raise T.Untranslatable(f"UNTRANSLATABLE: request creation in post_add changed: {creates}")
    sl = T.find_func(sto, "StorageTransferAction.self_loop")
    if ast.unparse(T.strip_doc(sl.body)[0]) != "return self.node_from.group == self.group_to":
        raise T.Untranslatable("UNTRANSLATABLE: StorageTransferAction.self_loop changed")
    # both triggers call post_add exactly once
    aut = T.parse(core.REPO / "alpenhorn/daemon/auto_import.py")
    for tree, q, call in ((iou, "copy_request_done", "post_add(io.node, req.file)"), (aut, "_import_file", "ioutil.post_add(node.db, file_)")):
        calls = [ast.unparse(x) for x in ast.walk(T.find_func(tree, q)) if isinstance(x, ast.Call) and ast.unparse(x.func).endswith("post_add")]
        if calls != [call]:
            raise T.Untranslatable(f"UNTRANSLATABLE: {q} calls post_add as {calls}, expected one call {call}")
    # the two commands that write the rule table: refusal test, no-change tests, and an update that names the row it looked up
    for path, flagname, order in (("alpenhorn/cli/node/autoclean.py", "autoclean", "node = resolve_node(node_name)"), ("alpenhorn/cli/group/autosync.py", "autosync", "group = resolve_group(group_name)")):
        fn_ = T.find_func(T.parse(core.REPO / path), flagname)
        txt = ast.unparse(fn_)
        tests = [ast.unparse(x.test) for x in T.if_tests(fn_)]
        if tests != ["group == node.group and (not remove)", f"action.{flagname} is not remove", "remove", "action"]:
            raise T.Untranslatable(f"UNTRANSLATABLE: the tests of `{flagname}` changed: {tests}")
        for frag in ("with database_proxy.atomic():", "action = StorageTransferAction.get(node_from=node, group_to=group)",
                     f"StorageTransferAction.update({flagname}=not remove).where(StorageTransferAction.id == action.id).execute()",
                     f"StorageTransferAction.create(node_from=node, group_to=group, {flagname}=not remove)"):
            if frag not in txt:
                raise T.Untranslatable(f"UNTRANSLATABLE: `{flagname}` no longer contains `{frag}`")
    return {"Gen_postadd": T.HEADER + "\n".join(d) + "\n"}


def proofs(ctx):
    try:
        files = gen(ctx)
    except T.Untranslatable as e:
        ctx.broke("translator", "post_add / state_on_node", str(e))
        files = None
    if files:
        core.check_tie(ctx, files, ["Tie_C16"])
    core.check_property_file(ctx, "C16.v")


def run_case(case):
    """build the tables, call the real post_add, return copies and requests after"""
    from vf.harness import world as w
    from alpenhorn.io import ioutil

    w.fresh_db()
    allg = set(case["groups"].values()) | {b for _, b, _, _ in case["rules"]} | {b for _, _, b in case["reqs"]}
    groups = {g: w.mkgroup(f"g{g}") for g in sorted(allg)}
    nodes = {n: w.mknode(None, f"n{n}", groups[g], root=f"/nonexistent/{n}") for n, g in sorted(case["groups"].items())}
    acq = w.mkacq("a")
    files = {f: w.mkfile(acq, f"f{f}", b"x") for f in (1, 2)}
    for (a, b, s, c) in case["rules"]:
        w.StorageTransferAction.create(node_from=nodes[a], group_to=groups[b], autosync=s, autoclean=c)
    cids = []
    for (f, n, h, wt) in case["copies"]:
        cids.append(w.mkcopy(nodes[n], files[f], h, wt).id)
    for (f, a, b) in case["reqs"]:
        w.mkreq(files[f], nodes[a], groups[b])
    nid = {v.id: k for k, v in nodes.items()}
    gid = {v.id: k for k, v in groups.items()}
    fid = {v.id: k for k, v in files.items()}
    ioutil.post_add(w.StorageNode.get(id=nodes[case["node"]].id), w.ArchiveFile.get(id=files[case["file"]].id))
    copies = [(c.id, fid[c.file_id], nid[c.node_id], c.has_file, c.wants_file) for c in w.ArchiveFileCopy.select().order_by(w.ArchiveFileCopy.id)]
    reqs = [(fid[r.file_id], nid[r.node_from_id], gid[r.group_to_id], bool(r.completed), bool(r.cancelled)) for r in w.ArchiveFileCopyRequest.select().order_by(w.ArchiveFileCopyRequest.id)]
    states = {g: groups[g].state_on_node(files[case["file"]])[0] for g in groups}
    return cids, copies, reqs, states


def reference(case):
    """the documented behaviour, written from the StorageTransferAction docstring and the property text"""
    grp = case["groups"]
    n, f = case["node"], case["file"]
    copies = [list(c) for c in case["copies"]]
    new = []
    for (a, b, s, c) in case["rules"]:
        if grp[a] == b:
            continue  # self-loop
        if s and a == n:
            if not any(cf == f and grp[cn_] == b and h == "Y" for (cf, cn_, h, _) in case["copies"]):
                new.append((f, n, b))
        if c and b == grp[n] and a != n:
            for cp in copies:
                if cp[0] == f and cp[1] == a and cp[2] == "Y" and cp[3] == "Y":
                    cp[3] = "N"
    return [tuple(c) for c in copies], new


def gen_case(rng):
    nn = rng.randint(2, 4)
    ng = rng.randint(1, 3)
    groups = {n: rng.randint(1, ng) for n in range(1, nn + 1)}
    rules = []
    for a in range(1, nn + 1):
        for b in range(1, ng + 1):
            if rng.random() < 0.5:
                rules.append((a, b, rng.random() < 0.6, rng.random() < 0.6))
    copies = []
    for f in (1, 2):
        for n in range(1, nn + 1):
            if rng.random() < 0.7:
                copies.append((f, n, rng.choice("YYYMXN"), rng.choice("YYMN")))
    reqs = [(rng.choice((1, 2)), rng.randint(1, nn), rng.randint(1, ng)) for _ in range(rng.randint(0, 2))]
    return {"groups": groups, "rules": rules, "copies": copies, "reqs": reqs, "node": rng.randint(1, nn), "file": 1}


def term(case, cids, copies, reqs):
    g = clist([ctup(cn(n), cn(gr)) for n, gr in sorted(case["groups"].items())], "(N * N)")
    rules = clist([f"(U {cn(a)} {cn(b)} {cbool(s)} {cbool(c)})" for a, b, s, c in case["rules"]], "rule")
    cs = clist([f"(C {cn(i)} {cn(f)} {cn(n)} {HAS[h]} {WANTS[w]})" for i, (f, n, h, w) in zip(cids, case["copies"])], "copy")
    rs = clist([f"(R {cn(f)} {cn(a)} {cn(b)})" for f, a, b in case["reqs"]], "req")
    cs2 = clist([f"(C {cn(i)} {cn(f)} {cn(n)} {HAS[h]} {WANTS[w]})" for (i, f, n, h, w) in copies], "copy")
    rs2 = clist([f"(R {cn(f)} {cn(a)} {cn(b)})" for (f, a, b, _, _) in reqs], "req")
    return ctup(g, rules, cn(case["node"]), cn(case["file"]), cs, rs, cs2, rs2)


def one(ctx, case, terms, sterms, keep):
    cids, copies, reqs, states = run_case(case)
    ctx.count("post_add")
    grp = case["groups"]
    if any(a == case["node"] or b == grp[case["node"]] for a, b, _, _ in case["rules"]):
        ctx.distinct_add(repr(case))
    exp_copies, exp_new = reference(case)
    got_copies = [tuple(c[1:]) for c in copies]
    got_new = [r[:3] for r in reqs[len(case["reqs"]):]]
    old_ok = [r[:3] for r in reqs[: len(case["reqs"])]] == [tuple(r) for r in case["reqs"]] and not any(r[3] or r[4] for r in reqs)
    if got_copies != exp_copies or sorted(got_new) != sorted(exp_new) or not old_ok:
        ctx.fail("C16:rules", f"post_add(node {case['node']}, file {case['file']}): copies {got_copies} (expected {exp_copies}); new requests {got_new} (expected {exp_new})",
                 {"family": "post_add", "case": {**case, "groups": {str(k): v for k, v in case["groups"].items()}}})
    terms.append(term(case, cids, copies, reqs))
    keep.append(case)
    gl = clist([ctup(cn(n), cn(gr)) for n, gr in sorted(case["groups"].items())], "(N * N)")
    cs2 = clist([f"(C {cn(i)} {cn(f)} {cn(n)} {HAS[h]} {WANTS[w]})" for (i, f, n, h, w) in copies], "copy")
    for g, st in states.items():
        sterms.append(ctup(gl, cs2, cn(g), cn(case["file"]), HAS[st]))


CORPUS = [
    # F-C16: autoclean rule from node 2, which sits in the receiving group of node 1
    {"groups": {1: 1, 2: 1, 3: 2}, "rules": [(2, 1, False, True), (3, 1, False, True), (1, 2, True, False)],
     "copies": [(1, 1, "Y", "Y"), (1, 2, "Y", "Y"), (1, 3, "Y", "Y")], "reqs": [], "node": 1, "file": 1},
    {"groups": {1: 1, 2: 2}, "rules": [(1, 2, True, True), (1, 1, True, True)], "copies": [(1, 1, "Y", "Y"), (1, 2, "M", "Y")], "reqs": [(1, 1, 2)], "node": 1, "file": 1},
]


def explore(ctx):
    terms, sterms, keep = [], [], []
    for c in CORPUS:
        one(ctx, c, terms, sterms, keep)
    for i in range(350 if ctx.quick() else 6000):
        one(ctx, gen_case(ctx.rng), terms, sterms, keep)
    ctx.sample({"case": {**keep[0], "groups": {str(k): v for k, v in keep[0]["groups"].items()}}})
    bad = core.run_cases(ctx, "post_add", "Corr.C16", "case", "check", terms, shard=300, extra_imports=("Model.PostAdd",))
    for i in bad[:3]:
        ctx.broke("correspondence", f"post_add: model and implementation differ on {keep[i]}")
    bad = core.run_cases(ctx, "state", "Corr.C16", "scase", "scheck", sterms, shard=600, extra_imports=("Model.PostAdd",))
    for i in bad[:3]:
        ctx.broke("correspondence", f"state_on_node: model and implementation differ: {sterms[i][:300]}")
    explore_rules(ctx, 120 if ctx.quick() else 3000)
    explore_triggers(ctx)


def explore_triggers(ctx):
    """both triggers, on every kind of destination record: a completed pull (real copy_request_done) and an import (real _import_file task)
    fire the rules when the file newly becomes present --- also over a row that already existed (removed, released, corrupt)"""
    import pathlib
    import shutil
    import time

    from alpenhorn.daemon import auto_import as AI
    from alpenhorn.daemon import update as U
    from alpenhorn.io import ioutil
    from alpenhorn.io.default import DefaultNodeIO
    from vf.harness import world as w

    base = ctx.tmp() / "triggers"
    for trigger in ("pull", "import"):
        for row in (None, ("N", "N"), ("N", "Y"), ("X", "Y"), ("X", "N")):
            if trigger == "import" and row is not None and (row[0] == "X" or row == ("N", "Y")):
                continue  # a known copy that is present (even corrupt) is not imported again; a wanted copy that had gone missing comes back as suspect
            shutil.rmtree(base, ignore_errors=True)
            w.fresh_db(host="h1")
            gs, gt, ga = w.mkgroup("gsrc"), w.mkgroup("gtransit"), w.mkgroup("garchive")
            src = w.mknode(base, "src", gs, stype="F")
            tr = w.mknode(base, "transit", gt, stype="A")
            w.mknode(base, "arch", ga, stype="A")
            w.StorageTransferAction.create(node_from=src, group_to=gt, autosync=False, autoclean=True)
            w.StorageTransferAction.create(node_from=tr, group_to=ga, autosync=True, autoclean=False)
            acq = w.mkacq("acq")
            content = b"payload-16-bytes"
            f = w.mkfile(acq, "data.dat", content)
            w.mkcopy(src, f, "Y", "Y", size_b=len(content))
            if row is not None:
                w.mkcopy(tr, f, row[0], row[1], size_b=len(content))
            w.put_on_disk(tr, f, content)
            queue = w.StepQueue.make()
            if trigger == "pull":
                req = w.mkreq(f, src, gt)
                io = DefaultNodeIO(w.StorageNode.get(id=tr.id), {}, queue)
                ioutil.copy_request_done(req, io, success=True, md5ok=True, start_time=time.time() - 1)
            else:
                un = U.UpdateableNode(queue, w.StorageNode.get(id=tr.id))
                AI.import_file(un, queue, pathlib.PurePath("acq/data.dat"), True, None)
                w.drain_with_workers(queue)
            onward = w.ArchiveFileCopyRequest.select().where(w.ArchiveFileCopyRequest.node_from == tr.id, w.ArchiveFileCopyRequest.group_to == ga.id).count()
            sc = w.ArchiveFileCopy.get(file=f, node=src)
            tc = w.ArchiveFileCopy.get_or_none(file=f, node=tr)
            ctx.count("trigger")
            ctx.distinct_add(("trigger", trigger, row))
            rp = {"family": "trigger", "trigger": trigger, "destination_row_before": row}
            if tc is None or tc.has_file != "Y":
                ctx.broke("harness", "trigger scenario", f"{trigger} over row {row} did not make the copy present: {tc and (tc.has_file, tc.wants_file)}")
                continue
            if onward != 1 or (sc.has_file, sc.wants_file) != ("Y", "N"):
                ctx.fail("C16:trigger-did-not-fire", f"the file became present on 'transit' by {trigger} (its record there before: {row}): {onward} autosync request(s) transit -> garchive (expected 1), "
                         f"copy on the autoclean source is {(sc.has_file, sc.wants_file)} (expected released)", rp)
    shutil.rmtree(base, ignore_errors=True)


def explore_rules(ctx, n):
    """random sequences of the real `group autosync` / `node autoclean` commands (with --remove); the table read back for every
    (node, group) pair, and each command's answer, against Model/Rules.v"""
    from vf.harness import cliworld as cw
    from vf.harness import world as w

    rng = ctx.rng
    terms, keep = [], []
    for k in range(n):
        w.fresh_db(host="h1")
        ng = rng.randint(2, 4)
        groups = [w.mkgroup(f"G{i}") for i in range(1, ng + 1)]
        nodes = []
        for i in range(1, rng.randint(2, 5) + 1):
            nodes.append(w.mknode(None, f"N{i}", rng.choice(groups), root=f"/nonexistent/N{i}"))
        cmds, outs, log = [], [], []
        for _ in range(rng.randint(1, 9)):
            nd, gr = rng.choice(nodes), rng.choice(groups)
            flag = rng.choice(["sync", "clean"])
            enable = rng.random() < 0.7
            if flag == "sync":
                code, out, exc = cw.invoke("group autosync", [gr.name, nd.name] + ([] if enable else ["--remove"]))
            else:
                code, out, exc = cw.invoke("node autoclean", [nd.name, gr.name] + ([] if enable else ["--remove"]))
            o = 0 if code != 0 else 1 if "No change" in out else 2
            if exc is not None and not isinstance(exc, SystemExit):
                ctx.fail("C16:rule-command-failed", f"{flag} {nd.name}->{gr.name} enable={enable}: {exc!r}", {"family": "rules", "log": log})
            cmds.append(f"(K {'FSync' if flag == 'sync' else 'FClean'} {cn(nd.id)} {cn(gr.id)} {cbool(enable)})")
            outs.append(o)
            log.append((flag, nd.name, gr.name, enable, o))
        rows = {(r.node_from_id, r.group_to_id): (bool(r.autosync), bool(r.autoclean)) for r in w.StorageTransferAction.select()}
        if len(rows) != w.StorageTransferAction.select().count():
            ctx.fail("C16:duplicate-rule-rows", f"two rule records for one (node, group) pair after {log}", {"family": "rules", "log": log})
        flags = [(nd.id, gr.id) + rows.get((nd.id, gr.id), (False, False)) for nd in nodes for gr in groups]
        # the property's reading, independently of the model: last accepted command per (flag, node, group) wins, nothing else moves
        want = {}
        for flag, ndn, grn, enable, o in log:
            nd = next(x for x in nodes if x.name == ndn)
            gr = next(x for x in groups if x.name == grn)
            if enable and nd.group_id == gr.id:
                continue
            want[(flag, nd.id, gr.id)] = enable
        for (ndid, grid, s_, c_) in flags:
            for flag, got in (("sync", s_), ("clean", c_)):
                if got != want.get((flag, ndid, grid), False):
                    ctx.fail("C16:rules-not-as-configured", f"after {log}: auto{flag} of node {ndid} -> group {grid} is {got}, configured {want.get((flag, ndid, grid), False)}", {"family": "rules", "log": log})
        ctx.count("rule-commands", len(log))
        ctx.distinct_add(("rules", tuple(log)))
        terms.append(ctup(clist([ctup(cn(nd.id), cn(nd.group_id)) for nd in nodes], "(N * N)"), clist(cmds, "cmd"), clist([cn(o) for o in outs], "N"),
                          clist([ctup(cn(a), cn(b), cbool(c), cbool(d_)) for a, b, c, d_ in flags], "(N * N * bool * bool)")))
        keep.append(log)
    bad = core.run_cases(ctx, "rules", "Corr.C16r", "rcase", "rcheck", terms, shard=300, extra_imports=("Model.Rules",))
    for i in bad[:3]:
        ctx.broke("correspondence", f"rule commands: model and implementation differ on {keep[i]}")


def search(ctx):
    explore(ctx)


def replay(ctx, rp):
    case = rp["replay"]["case"]
    case["groups"] = {int(k): v for k, v in case["groups"].items()}
    case["rules"] = [tuple(r) for r in case["rules"]]
    case["copies"] = [tuple(c) for c in case["copies"]]
    case["reqs"] = [tuple(r) for r in case["reqs"]]
    terms, st, keep = [], [], []
    one(ctx, case, terms, st, keep)
    for f in ctx.failing:
        print(f["what"])
    return 1 if ctx.failing else 0
