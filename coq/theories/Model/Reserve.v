(* C14: DefaultNodeIO.reserve_bytes / release_bytes / pull gate, per node, under the module mutex. *)
From Coq Require Import List NArith ZArith Bool.
From Alp Require Import Base.Str Base.Types.
Import ListNotations.
Open Scope Z_scope.

Definition factor : Z := 2.                                     (* DefaultNodeIO.reserve_factor *)

(* guards as in the code *)
Definition insufficient (bavail : option Z) (reserved size : Z) : bool :=
  negb (is_none bavail) && (match bavail with Some b => b - reserved <? size | None => false end).
Definition release_too_much (reserved size : Z) : bool := reserved <? size.

(* reserve_bytes(size, check_only): (success, reserved afterwards) *)
Definition reserve (size : Z) (check_only : bool) (bavail : option Z) (reserved : Z) : bool * Z :=
  let sz := size * factor in
  if insufficient bavail reserved sz then (false, reserved)
  else (true, if check_only then reserved else reserved + sz).

(* release_bytes(size): None = ValueError *)
Definition release (size : Z) (reserved : Z) : option Z :=
  let sz := size * factor in
  if release_too_much reserved sz then None else Some (reserved - sz).

(* DefaultNodeIO.pull: (task queued?, reserved afterwards) *)
Definition pull_gate (under_min over_max : bool) (size : Z) (bavail : option Z) (reserved : Z) : bool * Z :=
  if under_min then (false, reserved)
  else if over_max then (false, reserved)
  else reserve size false bavail reserved.

(* The two node properties the gate reads (StorageNode.under_min / check_over_max), on exact quantities (bytes; the GiB values of
   the index are these divided by 2^30): free space unknown never blocks; no limit, or a limit <= 0, never blocks; a node AT its
   limit is full. *)
Definition node_under_min (avail : option Z) (min_avail : Z) : bool := match avail with None => false | Some a => a <? min_avail end.
Definition node_over_max (total : Z) (max_total : option Z) : bool :=
  match max_total with None => false | Some m => if m <=? 0 then false else m <=? total end.
Definition pull_gate_n (avail : option Z) (min_avail total : Z) (max_total : option Z) (size : Z) (bavail : option Z) (reserved : Z) : bool * Z :=
  pull_gate (node_under_min avail min_avail) (node_over_max total max_total) size bavail reserved.

(* history of one node: dispatches and task ends *)
Inductive ev :=
| Dispatch (id : N) (size : Z) (under_min over_max : bool) (bavail : option Z)
| Finish (id : N)                                   (* the pull task of request id ended, by whatever path: its
                                                       clean-up ran release_bytes(size) exactly once (C10) *)
| Reinit.                                           (* the node's I/O object is re-created (io_config changed, node came back):
                                                       DefaultNodeIO.__init__ does _reserved_bytes.setdefault(name, 0) *)
Record rstate := { reserved : Z; live : list (N * Z); errors : nat }.
Definition rinit : rstate := {| reserved := 0; live := []; errors := 0 |}.
Fixpoint take (id : N) (l : list (N * Z)) : option (Z * list (N * Z)) :=
  match l with
  | [] => None
  | (i, s) :: l' => if N.eqb i id then Some (s, l')
                    else match take id l' with Some (s', r) => Some (s', (i, s) :: r) | None => None end
  end.
Definition rstep (st : rstate) (e : ev) : rstate :=
  match e with
  | Dispatch id size um om bavail =>
      let '(ok, r) := pull_gate um om size bavail (reserved st) in
      {| reserved := r; live := if ok then (id, size) :: live st else live st; errors := errors st |}
  | Finish id =>
      match take id (live st) with
      | Some (size, rest) =>
          match release size (reserved st) with
          | Some r => {| reserved := r; live := rest; errors := errors st |}
          | None => {| reserved := reserved st; live := rest; errors := S (errors st) |}
          end
      | None => st                                   (* not a queued-or-running pull: nothing ends *)
      end
  | Reinit => st                                     (* setdefault: the running total of transfers in flight is kept *)
  end.
Definition rrun (evs : list ev) : rstate := fold_left rstep evs rinit.
Fixpoint outstanding (l : list (N * Z)) : Z := match l with [] => 0 | (_, s) :: l' => s * factor + outstanding l' end.
