From Coq Require Import List NArith ZArith Bool Lia ZifyBool.
From Alp Require Import Base.Str Base.Types Model.Reserve.
Import ListNotations.
Open Scope Z_scope.

Definition sizes_ok (evs : list ev) : Prop := Forall (fun e => match e with Dispatch _ s _ _ _ => 0 <= s | _ => True end) evs.
Definition RInv (st : rstate) : Prop :=
  reserved st = outstanding (live st) /\ errors st = 0%nat /\ Forall (fun p => 0 <= snd p) (live st).

Lemma outstanding_nonneg l : Forall (fun p : N * Z => 0 <= snd p) l -> 0 <= outstanding l.
Proof. induction 1 as [|[i s] l H _ IH]; cbn [outstanding snd] in *; unfold factor; lia. Qed.

Lemma take_spec id l s r : take id l = Some (s, r) ->
  outstanding l = s * factor + outstanding r /\ (Forall (fun p : N * Z => 0 <= snd p) l -> 0 <= s /\ Forall (fun p : N * Z => 0 <= snd p) r).
Proof.
  revert s r; induction l as [|[i z] l IH]; intros s r H; cbn [take] in H; [discriminate|].
  destruct (N.eqb i id).
  - injection H as <- <-. cbn [outstanding]. split; [reflexivity|]. intros F; inversion F; subst; auto.
  - destruct (take id l) as [[s' r']|] eqn:E; [|discriminate]. injection H as <- <-.
    destruct (IH _ _ eq_refl) as [A B]. cbn [outstanding]. split; [unfold factor in *; lia|].
    intros F; inversion F as [|? ? H1 H2]; subst. destruct (B H2) as [B1 B2]. split; [exact B1 | constructor; assumption].
Qed.

Lemma rinv_step st e : RInv st -> (match e with Dispatch _ s _ _ _ => 0 <= s | _ => True end) -> RInv (rstep st e).
Proof.
  intros (HR & HE & HF) Hs. destruct e as [id size um om bavail | id |]; cbn [rstep]; [| |repeat split; assumption].
  - unfold pull_gate. destruct um; [repeat split; assumption|]. destruct om; [repeat split; assumption|].
    unfold reserve. destruct (insufficient bavail (reserved st) (size * factor)); unfold RInv; cbn [reserved live errors].
    + repeat split; assumption.
    + repeat split; [cbn [outstanding]; lia | assumption | constructor; [exact Hs | exact HF]].
  - destruct (take id (live st)) as [[size rest]|] eqn:E; [|repeat split; assumption].
    destruct (take_spec _ _ _ _ E) as [A B]. destruct (B HF) as [B1 B2].
    pose proof (outstanding_nonneg _ B2) as Hn.
    unfold release, release_too_much. destruct (reserved st <? size * factor) eqn:Hlt; [lia|].
    unfold RInv. cbn [reserved live errors]. repeat split; [lia | assumption | assumption].
Qed.

(* the reserved total is always twice the sizes of the queued-or-running pulls; release never raises *)
Lemma balance evs : sizes_ok evs -> RInv (rrun evs).
Proof.
  unfold rrun. assert (H : forall st, RInv st -> sizes_ok evs -> RInv (fold_left rstep evs st)).
  { induction evs as [|e evs IH]; intros st Hs Hok; [exact Hs|]. inversion Hok; subst. cbn [fold_left]. apply IH; [apply rinv_step|]; assumption. }
  intros Hok. apply H; [|exact Hok]. repeat split; constructor.
Qed.

Lemma zero_when_idle evs : sizes_ok evs -> live (rrun evs) = [] -> reserved (rrun evs) = 0.
Proof. intros H E. destruct (balance evs H) as (HR & _). rewrite HR, E. reflexivity. Qed.

Lemma never_negative evs : sizes_ok evs -> 0 <= reserved (rrun evs) /\ errors (rrun evs) = 0%nat.
Proof. intros H. destruct (balance evs H) as (HR & HE & HF). split; [rewrite HR; apply outstanding_nonneg, HF | exact HE]. Qed.

(* a pull is queued only if twice its size fits in the free space net of reservations and the node is neither
   under its minimum nor at its size limit; free space unknown (None) does not block *)
Lemma gate_sound um om size bavail res : fst (pull_gate um om size bavail res) = true ->
  um = false /\ om = false /\ (forall b, bavail = Some b -> size * factor <= b - res) /\
  snd (pull_gate um om size bavail res) = res + size * factor.
Proof.
  unfold pull_gate. destruct um; [discriminate|]. destruct om; [discriminate|]. unfold reserve, insufficient.
  destruct bavail as [b|]; cbn [is_none negb andb].
  - destruct (b - res <? size * factor) eqn:E; cbn [fst snd]; [discriminate|]. intros _. repeat split; try reflexivity.
    intros b' H; injection H as <-. lia.
  - cbn [fst snd]. intros _. repeat split; try reflexivity. intros b H; discriminate.
Qed.
(* the same on the quantities themselves: not below the minimum free space, strictly below the size limit *)
Lemma gate_sound_n avail minv total maxv size bavail res : fst (pull_gate_n avail minv total maxv size bavail res) = true ->
  (forall a, avail = Some a -> minv <= a) /\ (forall m, maxv = Some m -> 0 < m -> total < m) /\
  (forall b, bavail = Some b -> size * factor <= b - res).
Proof.
  unfold pull_gate_n. intros H. apply gate_sound in H as [Hu [Ho [Hb _]]]. split; [|split; [|exact Hb]].
  - intros a ->. cbn [node_under_min] in Hu. lia.
  - intros m -> Hm. cbn [node_over_max] in Ho. destruct (m <=? 0) eqn:E; lia.
Qed.
Lemma gate_at_limit avail minv total m size bavail res : 0 < m -> m <= total -> fst (pull_gate_n avail minv total (Some m) size bavail res) = false.
Proof.
  intros Hm Ht. unfold pull_gate_n, pull_gate. destruct (node_under_min avail minv); [reflexivity|].
  cbn [node_over_max]. destruct (m <=? 0) eqn:E; [lia|]. destruct (m <=? total) eqn:F; [reflexivity | lia].
Qed.
Lemma gate_refusal_keeps um om size bavail res : fst (pull_gate um om size bavail res) = false -> snd (pull_gate um om size bavail res) = res.
Proof.
  unfold pull_gate. destruct um; [reflexivity|]. destruct om; [reflexivity|]. unfold reserve.
  destruct (insufficient bavail res (size * factor)); cbn [fst snd]; [reflexivity | discriminate].
Qed.
Lemma check_only_never_reserves size bavail res : snd (reserve size true bavail res) = res.
Proof. unfold reserve. destruct (insufficient _ _ _); reflexivity. Qed.

Definition ex_evs : list ev :=
  [Dispatch 1 10 false false (Some 100); Dispatch 2 45 false false (Some 100); Dispatch 3 30 false false (Some 100);
   Finish 1; Dispatch 4 5 true false None; Finish 3; Finish 3].
Lemma example_history : reserved (rrun ex_evs) = 0 /\ live (rrun ex_evs) = [] /\ sizes_ok ex_evs.
Proof. split; [vm_compute; reflexivity|]. split; [vm_compute; reflexivity|]. repeat constructor; cbn; lia. Qed.
