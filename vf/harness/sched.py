"""Deterministic cooperative scheduler over real threads (one baton) with a virtual clock.

`fakes(S)` gives replacements for threading.Lock/RLock/Condition/get_ident and time.monotonic/sleep that
yield to the scheduler at every acquire / release / wait; every scheduling decision is made by `choose`,
so a schedule is a list of choices and can be enumerated or replayed exactly."""
import threading as _t
import types


class Abort(BaseException):
    """raised inside every simulated thread once the step budget of a run is spent (livelock)"""


class Sched:
    def __init__(self, choose, max_steps=200000):
        self.choose = choose
        self.max_steps = max_steps
        self.steps = 0
        self.abort = False
        self.threads = {}
        self.cur = None
        self.trace = []  # (chosen index, number of runnable threads) per decision
        self.main_ev = _t.Event()
        self.now = 0  # virtual seconds (integers, so float arithmetic in the code under test is exact)
        self.log = []

    def spawn(self, tid, fn):
        st = {"ev": _t.Event(), "done": False, "blocked": None, "deadline": None, "res": None}

        def run():
            st["ev"].wait()
            st["ev"].clear()
            try:
                if self.abort:
                    raise Abort()
                st["res"] = ("ok", fn())
            except BaseException as e:  # noqa: BLE001
                st["res"] = ("exc", repr(e))
            st["done"] = True
            self._switch(tid, finished=True)

        st["th"] = _t.Thread(target=run, daemon=True)
        st["th"].start()
        self.threads[tid] = st

    def _ready(self, s):
        if s["done"]:
            return False
        if s["blocked"] is None:
            return True
        if s["blocked"]():
            return True
        return s["deadline"] is not None and self.now >= s["deadline"]

    def runnable(self):
        r = [t for t, s in self.threads.items() if self._ready(s)]
        if r:
            return r
        dl = [s["deadline"] for s in self.threads.values() if not s["done"] and s["deadline"] is not None]
        if dl:
            self.now = max(self.now, min(dl))  # nobody can run: jump to the earliest deadline
            return [t for t, s in self.threads.items() if self._ready(s)]
        return []

    def _abort_all(self):
        self.abort = True
        self.main_ev.set()
        for s in self.threads.values():
            s["ev"].set()

    def _switch(self, me, finished=False):
        if self.abort:
            if finished:
                return
            raise Abort()
        self.steps += 1
        if self.steps > self.max_steps:  # the threads keep yielding without the virtual clock ever moving on
            self._abort_all()
            if finished:
                return
            raise Abort()
        r = self.runnable()
        if not r:
            self.main_ev.set()
            if not finished:
                self.threads[me]["ev"].wait()
                if self.abort:
                    raise Abort()
            return
        i = self.choose(len(r)) % len(r)
        self.trace.append((i, len(r)))
        nxt = r[i]
        if nxt == me and not finished:
            return
        self.cur = nxt
        self.threads[nxt]["ev"].set()
        if not finished:
            self.threads[me]["ev"].wait()
            self.threads[me]["ev"].clear()
            if self.abort:
                raise Abort()

    def yield_(self):
        self._switch(self.cur)

    def block_until(self, pred, deadline=None):
        me = self.cur
        s = self.threads[me]
        s["blocked"] = pred
        s["deadline"] = deadline
        self._switch(me)
        ok = pred()
        s["blocked"] = None
        s["deadline"] = None
        return ok

    def run(self, wall_timeout=20):
        r = self.runnable()
        i = self.choose(len(r)) % len(r)
        self.trace.append((i, len(r)))
        self.cur = r[i]
        self.threads[self.cur]["ev"].set()
        self.main_ev.wait(wall_timeout)
        if self.abort:
            for s in self.threads.values():
                s["th"].join(2)
        stuck = [t for t, s in self.threads.items() if not s["done"]]
        return {t: s["res"] for t, s in self.threads.items()}, stuck


def fakes(S, on_event=None):
    ev = on_event or (lambda *a: None)

    class Lock:
        def __init__(self):
            self.owner = None

        def acquire(self, blocking=True, timeout=-1):
            S.yield_()
            if self.owner is not None:
                if not blocking:
                    return False
                S.block_until(lambda: self.owner is None)
            self.owner = S.cur
            ev("mutex", S.cur, self)
            return True

        def release(self):
            if getattr(S, "yield_in_section", False):
                S.yield_()  # a thread may be pre-empted while it still holds the mutex (others see it busy)
            ev("unlock", S.cur, self)
            self.owner = None
            S.yield_()

        def locked(self):
            return self.owner is not None

        def _is_owned(self):
            return self.owner == S.cur

        __enter__ = acquire

        def __exit__(self, *a):
            self.release()

    class Condition:
        def __init__(self, lock=None):
            self.lock = lock or Lock()
            self.waiters = []

        def __enter__(self):
            return self.lock.acquire()

        def __exit__(self, *a):
            self.lock.release()

        def acquire(self, *a, **k):
            return self.lock.acquire(*a, **k)

        def release(self):
            self.lock.release()

        def wait(self, timeout=None):
            me = S.cur
            if self.lock.owner != me:
                raise RuntimeError("cannot wait on un-acquired lock")
            tok = {"n": False}
            self.waiters.append(tok)
            ev("wait", me, self, timeout)
            self.lock.owner = None
            notified = S.block_until(lambda: tok["n"], None if timeout is None else S.now + max(timeout, 0))
            if not notified:
                # remove *this* waiter (tokens are equal as dicts: compare by identity, or a time-out would drop another waiter)
                self.waiters[:] = [t for t in self.waiters if t is not tok]
            if self.lock.owner is not None:
                S.block_until(lambda: self.lock.owner is None)
            self.lock.owner = me
            ev("woke", me, self, notified)
            ev("mutex", me, self.lock)
            return notified

        def wait_for(self, predicate, timeout=None):
            # as threading.Condition.wait_for, on the virtual clock
            end = None if timeout is None else S.now + max(timeout, 0)
            result = predicate()
            while not result:
                if end is not None:
                    left = end - S.now
                    if left <= 0:
                        break
                    self.wait(left)
                else:
                    self.wait(None)
                result = predicate()
            return result

        def notify(self, n=1):
            if self.lock.owner != S.cur:
                raise RuntimeError("cannot notify on un-acquired lock")
            for tok in self.waiters[:n]:
                tok["n"] = True
            ev("notify", S.cur, self, min(n, len(self.waiters)), len(self.waiters))
            del self.waiters[:n]

        def notify_all(self):
            self.notify(len(self.waiters))

    def monotonic():
        return float(S.now)

    def sleep(d):
        S.block_until(lambda: False, S.now + d)

    th = types.SimpleNamespace(Lock=Lock, RLock=Lock, Condition=Condition, get_ident=lambda: S.cur,
                               Thread=_t.Thread, Event=_t.Event, current_thread=_t.current_thread)
    return th, monotonic, sleep


class Explorer:
    """depth-first enumeration of all schedules: run(prefix) re-executes from scratch following `prefix`, then 0s"""

    def __init__(self):
        self.prefix = []
        self.done = False

    def chooser(self):
        pos = [0]
        prefix = self.prefix

        def choose(n):
            i = pos[0]
            pos[0] += 1
            return prefix[i] if i < len(prefix) else 0

        return choose

    def advance(self, trace):
        """next prefix in DFS order given the (choice, branching) trace of the run just finished"""
        t = list(trace)
        while t and t[-1][0] + 1 >= t[-1][1]:
            t.pop()
        if not t:
            self.done = True
            return
        self.prefix = [c for c, _ in t[:-1]] + [t[-1][0] + 1]
