(* C11/C12: scheduler/queue.py FairMultiFIFOQueue, one function per critical section.
   The redundant level sets of the implementation (_keys_by_inprogress) are abstracted by the per-FIFO
   in-progress counts they mirror; the choice among admissible FIFOs (Python iterates a set) is made by
   the caller and checked ([get_commit]). *)
From Coq Require Import List NArith ZArith Bool Arith.
Import ListNotations.

Record qitem := { q_id : N; q_excl : bool }.
Record kst := { fifo : list qitem; cnt : nat }.                 (* one FIFO: queued items, in-progress count *)
Definition dentry := (Z * qitem * N)%type.                      (* (expiry, item, key) *)
Record qstate := { ks : list (N * kst); locks : list N; total_q : nat; total_ip : nat;
                   dfr : list dentry; joining : bool }.

Definition empty : qstate := {| ks := []; locks := []; total_q := 0; total_ip := 0; dfr := []; joining := false |}.

Fixpoint lookup (k : N) (l : list (N * kst)) : option kst :=
  match l with [] => None | (k', v) :: l' => if N.eqb k k' then Some v else lookup k l' end.
Fixpoint update (k : N) (v : kst) (l : list (N * kst)) : list (N * kst) :=
  match l with
  | [] => [(k, v)]
  | (k', v') :: l' => if N.eqb k k' then (k, v) :: l' else (k', v') :: update k v l'
  end.
Definition kget (k : N) (s : qstate) : kst :=
  match lookup k (ks s) with Some v => v | None => {| fifo := []; cnt := 0 |} end.
Definition mem (k : N) (l : list N) : bool := existsb (N.eqb k) l.
Definition remove (k : N) (l : list N) : list N := filter (fun x => negb (N.eqb k x)) l.

Definition with_ks (s : qstate) (l : list (N * kst)) (lk : list N) (tq ti : nat) : qstate :=
  {| ks := l; locks := lk; total_q := tq; total_ip := ti; dfr := dfr s; joining := joining s |}.

(* _put (under the lock): put(item, key, exclusive, wait <= 0), and the promotion of a deferral *)
Definition put_now (it : qitem) (k : N) (s : qstate) : qstate :=
  let v := kget k s in
  with_ks s (update k {| fifo := fifo v ++ [it]; cnt := cnt v |} (ks s)) (locks s) (S (total_q s)) (total_ip s).

(* put(..., wait > 0) under _dlock: refused while a join() is in progress *)
Definition put_deferred (now wait : Z) (it : qitem) (k : N) (s : qstate) : qstate * bool :=
  if joining s then (s, false)
  else ({| ks := ks s; locks := locks s; total_q := total_q s; total_ip := total_ip s;
           dfr := (now + wait, it, k)%Z :: dfr s; joining := joining s |}, true).

(* heap order: by expiry, then by the item (ids stand for the items' own order) *)
Definition dle (a b : dentry) : bool :=
  let '(ea, ia, _) := a in let '(eb, ib, _) := b in
  (ea <? eb)%Z || ((ea =? eb)%Z && (q_id ia <=? q_id ib)%N).
Fixpoint dinsert (d : dentry) (l : list dentry) : list dentry :=
  match l with [] => [d] | x :: l' => if dle d x then d :: l else x :: dinsert d l' end.
Definition dsort (l : list dentry) : list dentry := fold_right dinsert [] l.
Definition expired (now : Z) (d : dentry) : bool := let '(e, _, _) := d in (e <=? now)%Z.

(* while deferrals and deferrals[0][0] <= monotonic(): heappop; _put *)
Definition promote (now : Z) (s : qstate) : qstate :=
  let due := dsort (filter (expired now) (dfr s)) in
  let s' := {| ks := ks s; locks := locks s; total_q := total_q s; total_ip := total_ip s;
               dfr := filter (fun d => negb (expired now d)) (dfr s); joining := joining s |} in
  fold_left (fun acc d => let '(_, it, k) := d in put_now it k acc) due s'.

(* candidate filter of _get *)
Definition head_blocks (c : nat) (h : qitem) : bool := negb (Nat.eqb c 0) && q_excl h.   (* count and fifo[0][1] *)
Definition eligible (s : qstate) (kv : N * kst) : bool :=
  let '(k, v) := kv in
  negb (mem k (locks s)) &&
  match fifo v with
  | [] => false
  | h :: _ => negb (head_blocks (cnt v) h)
  end.
Definition min_level (s : qstate) : option nat :=
  fold_right (fun kv acc => if eligible s kv then
                              match acc with None => Some (cnt (snd kv)) | Some m => Some (Nat.min m (cnt (snd kv))) end
                            else acc) None (ks s).
Definition admissible (s : qstate) (k : N) : bool :=
  match lookup k (ks s), min_level s with
  | Some v, Some m => eligible s (k, v) && Nat.eqb (cnt v) m
  | _, _ => false
  end.

(* the pop half of _get, for the key the implementation chose *)
Definition get_commit (k : N) (s : qstate) : option (qstate * qitem) :=
  if admissible s k then
    match lookup k (ks s) with
    | Some {| fifo := h :: t; cnt := c |} =>
        Some (with_ks s (update k {| fifo := t; cnt := S c |} (ks s))
                (if q_excl h then k :: locks s else locks s) (pred (total_q s)) (S (total_ip s)), h)
    | _ => None
    end
  else None.

(* one pass of _get after the wait: promote, then pick.  [choice] = the key the implementation popped from
   (None = it returned None).  Result: None = the observation is impossible for the model. *)
Definition get_attempt (now : Z) (choice : option N) (s : qstate) : option (qstate * option qitem) :=
  let s1 := promote now s in
  match choice with
  | Some k => match get_commit k s1 with Some (s2, it) => Some (s2, Some it) | None => None end
  | None => match min_level s1 with
            | None => Some (s1, None)
            | Some _ => if Nat.ltb (total_q s1) 1 then Some (s1, None) else None
            end
  end.

(* task_done(key): None = ValueError *)
Definition task_done (k : N) (s : qstate) : option qstate :=
  match lookup k (ks s) with
  | Some v => if Nat.leb (cnt v) 0 then None
              else Some (with_ks s (update k {| fifo := fifo v; cnt := pred (cnt v) |} (ks s))
                           (remove k (locks s)) (total_q s) (pred (total_ip s)))
  | None => None
  end.

(* join(): first section (under _dlock), exit test of the wait loop, last section *)
Definition join_begin (s : qstate) : qstate :=
  {| ks := ks s; locks := locks s; total_q := total_q s; total_ip := total_ip s; dfr := []; joining := true |}.
Definition join_may_return (s : qstate) : bool := negb ((0 <? total_ip s) || (0 <? total_q s))%nat.
Definition join_end (s : qstate) : qstate :=
  {| ks := ks s; locks := locks s; total_q := total_q s; total_ip := total_ip s; dfr := dfr s; joining := false |}.
(* the notification test at the end of task_done *)
Definition all_done (s : qstate) : bool := Nat.eqb (total_q s) 0 && Nat.eqb (total_ip s) 0.

Definition qsize (s : qstate) : nat := total_q s.
Definition inprogress_size (s : qstate) : nat := total_ip s.
Definition deferred_size (s : qstate) : nat := length (dfr s).
Definition fifo_size (k : N) (s : qstate) : nat :=
  match lookup k (ks s) with Some v => length (fifo v) + cnt v | None => 0 end.

(* ---- operations, observations, and ghost history ---- *)
Inductive op :=
| Put (it : qitem) (k : N)
| PutDeferred (now wait : Z) (it : qitem) (k : N)
| GetAttempt (now : Z) (choice : option N)
| Done (k : N)
| JoinBegin | JoinCheck | JoinEnd
| QSize | IPSize | DSize | FSize (k : N).

Inductive obs :=
| ONone | OBool (b : bool) | OItem (i : option N) | OErr | ONat (n : nat) | OImpossible.

Definition step (s : qstate) (o : op) : qstate * obs :=
  match o with
  | Put it k => (put_now it k s, ONone)
  | PutDeferred now w it k => let '(s', b) := put_deferred now w it k s in (s', OBool b)
  | GetAttempt now ch => match get_attempt now ch s with
                         | Some (s', r) => (s', OItem (match r with Some it => Some (q_id it) | None => None end))
                         | None => (s, OImpossible) end
  | Done k => match task_done k s with Some s' => (s', ONone) | None => (s, OErr) end
  | JoinBegin => (join_begin s, ONone)
  | JoinCheck => (s, OBool (join_may_return s))     (* one test of join()'s wait loop: true = the loop exits *)
  | JoinEnd => (join_end s, ONone)
  | QSize => (s, ONat (qsize s))
  | IPSize => (s, ONat (inprogress_size s))
  | DSize => (s, ONat (deferred_size s))
  | FSize k => (s, ONat (fifo_size k s))
  end.

Fixpoint run (s : qstate) (ops : list op) : list obs :=
  match ops with [] => [] | o :: ops' => let '(s', b) := step s o in b :: run s' ops' end.
Definition exec (ops : list op) : qstate := fold_left (fun s o => fst (step s o)) ops empty.

(* ghost history: what entered each FIFO, what was handed out, what is running, what join discarded *)
Record ghost := { g_put : list qitem; g_entered : list (N * qitem); g_delivered : list (N * qitem);
                  g_running : list (N * qitem); g_discarded : list qitem }.
Definition ghost0 : ghost := {| g_put := []; g_entered := []; g_delivered := []; g_running := []; g_discarded := [] |}.

Fixpoint remove_first_key (k : N) (l : list (N * qitem)) : list (N * qitem) :=
  match l with [] => [] | (k', it) :: l' => if N.eqb k k' then l' else (k', it) :: remove_first_key k l' end.

Definition g_log (g : ghost) (it : qitem) : ghost :=
  {| g_put := g_put g ++ [it]; g_entered := g_entered g; g_delivered := g_delivered g; g_running := g_running g; g_discarded := g_discarded g |}.
Definition g_enter (g : ghost) (k : N) (it : qitem) : ghost :=
  {| g_put := g_put g; g_entered := g_entered g ++ [(k, it)]; g_delivered := g_delivered g; g_running := g_running g; g_discarded := g_discarded g |}.
Definition g_deliver (g : ghost) (k : N) (it : qitem) : ghost :=
  {| g_put := g_put g; g_entered := g_entered g; g_delivered := g_delivered g ++ [(k, it)]; g_running := g_running g ++ [(k, it)]; g_discarded := g_discarded g |}.
Definition g_done (g : ghost) (k : N) : ghost :=
  {| g_put := g_put g; g_entered := g_entered g; g_delivered := g_delivered g; g_running := remove_first_key k (g_running g); g_discarded := g_discarded g |}.
Definition g_discard (g : ghost) (l : list qitem) : ghost :=
  {| g_put := g_put g; g_entered := g_entered g; g_delivered := g_delivered g; g_running := g_running g; g_discarded := g_discarded g ++ l |}.

Definition items_of (l : list dentry) : list qitem := map (fun d : dentry => let '(_, it, _) := d in it) l.
Definition due (now : Z) (s : qstate) : list dentry := dsort (filter (expired now) (dfr s)).
Definition g_promote (g : ghost) (l : list dentry) : ghost :=
  fold_left (fun acc d => let '(_, it, k) := d in g_enter acc k it) l g.

Definition gstep (sg : qstate * ghost) (o : op) : qstate * ghost :=
  let '(s, g) := sg in
  let '(s', b) := step s o in
  (s', match o, b with
       | Put it k, _ => g_enter (g_log g it) k it
       | PutDeferred _ _ it _, OBool true => g_log g it
       | PutDeferred _ _ it _, _ => g_discard (g_log g it) [it]
       | GetAttempt now ch, OItem _ =>
           let g1 := g_promote g (due now s) in
           match ch, get_attempt now ch s with
           | Some k, Some (_, Some it) => g_deliver g1 k it
           | _, _ => g1
           end
       | Done k, ONone => g_done g k
       | JoinBegin, _ => g_discard g (items_of (dfr s))
       | _, _ => g
       end).
Definition gexec (ops : list op) : qstate * ghost := fold_left gstep ops (empty, ghost0).
