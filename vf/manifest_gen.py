"""Regenerate MANIFEST.json from the table below (keeps it valid at all times)."""
import json

CHECKS = {}  # pid -> dict(text, note, technique, design)
NA = {}


def chk(pid, text, note, technique, design):
    CHECKS[pid] = dict(text=text, note=note, technique=technique, design=design)


chk("C06",
    "Coq theorems for all strings: invalid_import_path rejects exactly the non-canonical names; accepted names are their own normal form and resolve strictly below any root; the rmdir climb never reaches the root. Tie: the function is re-translated from /repo on every run and proved equal to the model, and each of its four call sites (file create, acq create, import request, detector result) is pinned with its argument and its refusal (T1); `file create` / `acq create` are run on the string family; exhaustive/random strings and real remove_filedir runs are evaluated by the model in Coq (T2). Daemon-wide effect confinement is monitored, not proved: in random histories and in scripted symlink scenarios (a request or scan reaching a file through a symlinked directory or file, followed by replication and cleaning) every interposed mutating call must lie, and resolve, inside the root of a node managed by the iterating daemon, and the file outside all roots must survive.",
    "Coq kernel+VM; translator fragment; lexical path model (no symlinks); pathlib normalisation compared by correspondence only",
    "Coq proof (structural induction over strings via a 4-state scanner) + regenerated-model tie + vm_compute correspondence",
    "DESIGN.md §4 C06")

chk("C05",
    "Coq theorems over the item model (Model/Item.v; rounds = every daemon iterates once: decisions on the index as the iteration starts, then the queued tasks in order): from every item state (consistent or not) in every environment (source active or not, destination usable or not, full or not, 3 routes, 4 transport kinds, deletion allowed or not) four fault-free rounds reach a state that no later round changes, at which no copy on a managed node is suspect unless released, a released copy is deleted unless the deletion-safety rule holds it back, and a request is completed, cancelled, or pending with one of the six documented reasons, each of which is shown genuine. Decided by vm_compute over the complete enumeration (11 232 states x 192 environments) lifted by forallb_forall. Tie (T2): five fault-free rounds of the real daemons on single-item worlds from arbitrary start states are compared round by round with the model in Coq. Transport groups: TransportGroupIO.pull_force hands a local pull to a node iff some node is not under its minimum, not over its limit and has room, and then to such a node with the least free space; never for a remote source (Model/Transport.v, proved for all node lists; the three skip tests re-translated each run, T1; the real pull_force on random node tables compared in Coq, T2). Multi-item: random multi-host histories followed by fault-free rounds of all daemons to two identical snapshots, residual work judged by an independent blocking-reason oracle (monitor; the cross-item bound is observed, not proved).",
    "Coq kernel+VM; item model hand-written, tied by correspondence; rounds are serial (Sim); cross-item interference (shared source flags, autosync chains, space) only monitored; HSM / transport-class groups not simulated; import completion rests on C04's theorems and the monitors",
    "Coq proof by complete finite enumeration (vm_compute + forallb_forall) + vm_compute correspondence of fault-free rounds with the real daemons + monitored histories",
    "DESIGN.md §4 C05")

chk("C07",
    "Coq theorems over the model of update_loop's node query, UpdateableNode.check_init and DefaultNodeIO.check_init / init (Model/Locality.v), for all node tables, host names, marker contents and init requests: a node is managed exactly when its host equals the daemon's host name, it is active and the first line of its marker stripped of trailing white space is its name; nodes of other hosts and inactive nodes are always ignored; initialisation is queued only on an explicit pending request for a local active node failing the check, creates the marker only where none exists and never replaces one; one iteration performs I/O only on nodes that were local, active and initialised when it began and leaves every other marker as it was. Tie: the marker comparison (with str.rstrip modelled per code point) is re-translated from /repo on every run and proved equal to the model's (T1; query, tests, request look-up and exclusive-create mode pinned); one iteration of the real update_loop per random node table compared with the model in Coq, rstrip compared with Python on random strings and on every code point up to U+30FF (T2); histories with every mutating file-system call attributed to the iterating host and every copy row of unmanaged nodes compared before/after (only source flagging Y->M and autoclean Y->N allowed).",
    "Coq kernel+VM; translator fragment; Sim attribution of effects to the iterating host; tasks queued before a deactivation finish on that node (theorems speak of the state when the iteration began); HSM nodes are always initialised by design",
    "Coq proof (case analysis + induction over the node table) + regenerated guard tie + vm_compute correspondence + monitored histories",
    "DESIGN.md §4 C07")

chk("C08",
    "Coq theorems over the index model (Model/Sys.v: rows as lists of any length; writers: upsert with the INSERT/IntegrityError/UPDATE shape, keyed updates, completion with upsert in one step, cancellation, request creation, the import gate): every writer preserves well-formedness (unique (file,node) copies, unique (acq,name) files, unique request ids, completed => ordered time stamps and a copy row of the file on a node of the destination group, no temporary name registered), hence by induction every history of writers of any length from the empty index; the boolean check evaluated on snapshots is proved sound. Agreement with storage: in the item model every complete task from an agreeing state leaves healthy unreleased copies backed by good bytes, and a copy recorded removed is gone (complete enumeration). Tie: enum lists, db_value validation and every state literal written in /repo/alpenhorn re-read on every run (T1); every snapshot of the real index after every step of random histories (CLI, iterations, imports, transfers, deletions, kills, tracked faults) judged by wf_b in Coq against the harness's own verdict, malformed variants included (T2); monitors for index/storage agreement of copies not under tracked tampering (taint ends when the daemon re-verifies the copy).",
    "Coq kernel+VM; sqlite unique indexes as the cause of IntegrityError; op_ok (pull completes on a node of the request's group; clock not going backwards between two reads); operator overrides and tracked external faults exempt copies from agreement until the daemon's next verdict",
    "Coq proof (induction over histories of index writers; complete enumeration for the agreement half) + vm_compute snapshot correspondence + monitored histories",
    "DESIGN.md §4 C08")

chk("C09",
    "Coq theorems over the item model (Model/Item.v: one file, its source copy, its destination copy, the request; every task is a script of micro-operations, one per database statement / file-system call; a kill = a prefix of the script + roll-back of the open transaction): for every task (verification of either copy, deletion, group search, transfer by every route, transport and transport behaviour, gate), every start state with healthy copies backed, and every k, the state after a kill at k never records a healthy unreleased copy or a newly completed request without good bytes, never changes the source's bytes and never takes the bytes of a healthy wanted destination copy; every state a kill can leave during an iteration working on a pending transfer heals within three fault-free rounds to the uninterrupted outcome (destination healthy, wanted, good bytes; request no longer pending; source untouched); a released copy is gone one round after a kill anywhere in its deletion; a wanted suspect copy has its verdict one round after; imports (statement-level model shared with C04, each statement committed on its own): for every index state of the path and every k, a kill after k statements followed by a fresh task for the still-pending request ends with exactly the records of the uninterrupted import. Decided by vm_compute over the complete finite enumeration (11 232 item states x environments x behaviours x crash points) lifted by forallb_forall. Tie (T2): the real daemon is killed at every interposed call of one iteration in single-item worlds (state x environment x transport behaviour) and then runs three rounds; every crash state and round is compared with the model in Coq; effect order pinned from the source text. Import crashes: the records found after a kill at every interposed call must be crash states of the import model, and the restarted daemon's end state the model's (in Coq); random multi-item histories with one kill are compared with the uninterrupted run after convergence (monitors).",
    "Coq kernel+VM; kill = exception at an interposed call with sqlite roll-back (no torn system calls, no OS/disk loss); stand-in transports; tasks on one item do not overlap; item model hand-written, tied by correspondence only; imports covered by monitors and the C04 model, not by the item theorems",
    "Coq proof by complete finite enumeration (vm_compute + forallb_forall) + vm_compute correspondence of crash states and recovery rounds with the real daemon",
    "DESIGN.md §4 C09")

chk("C20",
    "Coq theorems over the model of io/lfs.py and io/lustrehsm.py: for every path (any bytes, state keywords included) the state read from '<path>:<flags>' and the restore-in-progress answer depend on the text after the prefix only (the unrepaired hsm_restoring is refuted in Coq: F-C20a); _restore_wait for every reported state x restore outcome keeps the _restoring set and the _restore_start dict on the same keys, never raises KeyError, removes the file on every final answer and keeps it while waiting, lifted by induction to every history of calls about any files (a file stays marked only while the last answer about it was 'wait'); hashing / ready / open only when the file system reports restored or unarchived; release_files = exactly the healthy, ready, restored copies of the shortest last_update-ordered prefix reaching the shortfall, nothing when headroom is met or free space unknown; idle refresh sets ready iff resident and records missing files absent. Tie: word tests, prefix stripping, run_lfs classification, shortfall arithmetic and stop test re-translated from /repo on every run (T1, skeletons of the other functions pinned); six correspondence families through the real LFS / LustreHSMNodeIO evaluated by the model in Coq (T2); end-to-end histories against a scripted Lustre-HSM stand-in (evolving residency, faults and time-outs at any lfs call, roots containing the keywords) under monitors incl. quiescence (every waiting task ends once the file system is healthy).",
    "Coq kernel+VM; translator fragment; lfs(1) stand-in prints the documented format; each _restore_wait call atomic w.r.t. other tasks and residency constant within one task (modelled, not verified); sqlite ordering by correspondence",
    "Coq proof (case analysis + induction over call histories and candidate lists) + regenerated guards tie + vm_compute correspondence + monitored histories",
    "DESIGN.md §4 C20")

chk("C19",
    "Coq theorems over the model of QueryWalker.get (the two queries and the wrap loop over the ascending live-id list): every call returns exactly n rows in cyclic order from the cursor, cursor = last+1, DoesNotExist iff empty; coverage for all table sizes, batch sizes (k > N too), start points and arbitrary table changes that keep x: x is returned within floor((m+a)/k)+1 calls (m rows ahead of x, a rows entering that stretch), hence ceil(N/k) when rows are only removed. The unrestricted ceil(N/k)+1 reading is refuted in Coq (C19_starvation_refuted) and on the real walker (known finding KF-C19). Age filter: strict > min age in UTC seconds. Walker life-cycle: dropped only when the node's I/O object was re-created (pinned); consecutive iterations of the real update_loop continue the walk where the previous one stopped (batches compared with the model in Coq, continuity and coverage monitored). Tie: hand-written model, every get() of the real QueryWalker on sqlite (static exhaustive small tables, dynamic random runs) and the real run_auto_verify age filter under 4 time zones evaluated by the model in Coq (T2).",
    "Coq kernel+VM; peewee/sqlite give the query semantics (list reading validated by correspondence); live-id list supplied by the harness",
    "Coq proof (rotation lemma on sorted lists + potential-function induction over runs) + vm_compute correspondence with the real QueryWalker",
    "DESIGN.md §4 C19")

chk("C15",
    "Coq theorems over the model of update_delete's candidate loop, for all copy tables, shortfalls, pending-source sets and node types: removable copies are selected only under space pressure on non-archive nodes with known free space; only unwanted, tracked, non-pending copies, in record order; released copies always; minimality (a removable copy is taken only while the credit of everything queued before it in the pass is short of the shortfall) and sufficiency; batching neither drops nor reorders. Tie: all 8 guards, both query clauses, the crediting statements and the shortfall expression are re-translated from /repo on every run and proved equal to the model's (T1); the real update_delete on sqlite with a recording io.delete is compared with the model in Coq on random tables (T2).",
    "Coq kernel+VM; translator fragment; GiB values restricted to multiples of 1/1024 so the float expression int((min-avail)*2**30) is exact (float rounding outside the model); sqlite ordering/filter semantics by correspondence",
    "Coq proof (induction over the candidate list with a running-credit invariant) + regenerated guards tie + vm_compute correspondence",
    "DESIGN.md §4 C15")

chk("C03",
    "Coq theorems: the verdict function of check_async is Y/X/N/abandoned exactly as the property states, for all observations and registered values (size 0 included); the chunked hash loop feeds every byte exactly once in order for every content length, block size and chunk size, hence equals one-shot hashing for any incremental hash; every digest spelling the CLI accepts is 32 hex digits stored in canonical lower case with the same value, and on canonical digests the daemon's string comparison decides value equality. Tie: guards, verdict letters and loop constants re-translated from /repo each run (T1); real file create/modify, real check_async on real files (all damage kinds, boundary sizes), and the real _md5sum_file source (real and substituted constants, recording hash) are compared with the model evaluated in Coq (T2); 32 MiB chunk boundary by monitor against hashlib.",
    "Coq kernel+VM; translator fragment; hashlib's incremental law and lower-case hexdigest are hypotheses; hash time-outs outside the theorem's premise",
    "Coq proof (case analysis, induction over the read loop, injectivity of hex value) + regenerated guards tie + vm_compute correspondence",
    "DESIGN.md §4 C03")

chk("C13",
    "Coq theorems over an executable small-step model of the (repaired) lock, one step per critical section, for every label sequence (= every schedule at mutex/condition granularity, any number of threads): exclusion (ghost hold tokens), re-entrancy, refusal of the opposite state, rejection of non-holder releases, no lost wake-up (a free lock has no sleeper), no deadlock (a sleeper always has a non-sleeping holder whose release succeeds), and for timed acquires on a virtual clock: the deadline is fixed at the call, never moves, and the first test after it returns. The pre-fix algorithm's lost wake-up is refuted in Coq (Regress/UpDownOld.v). Tie: guards and synchronisation statements re-translated each run (T1); the real lock runs under a deterministic scheduler over all schedules of small bracketed programs and every observed trace of critical sections is replayed in the model in Coq (T2).",
    "Coq kernel+VM; translator fragment; deterministic scheduler and its cooperative Lock/Condition (no spurious wake-ups); atomicity of statements inside a critical section; virtual clock",
    "Coq proof (invariants by induction over all step sequences, ghost tokens) + regenerated guards tie + vm_compute replay of scheduler traces",
    "DESIGN.md §4 C13")

chk("C11",
    "Coq theorems over an executable model of FairMultiFIFOQueue with one function per critical section and a ghost history, for every operation sequence (operations are single critical sections, so sequences are exactly the interleavings at lock granularity; any number of threads, keys, items): conservation with multiplicities (every put item is queued, deferred, handed out, or discarded by join), never handed out more often than put, per-FIFO order (delivered = prefix of entered), all reported sizes equal the true numbers, idle iff nothing queued or running, join returns only when drained, and the only step enabling join's exit is a task_done whose own notify test holds; idle reporting (Model/Idle.v): a node is reported idle iff its FIFO holds nothing queued or running, a group iff its own FIFO is empty, its nodes are known and each of them is idle (shape of UpdateableNode.idle / UpdateableGroup.idle pinned, real groups with random queue contents compared in Coq). Tie: guards and key statements re-translated each run (T1); the real queue runs under the deterministic scheduler (random and enumerated schedules of producer/consumers/joiner), each run is linearised at its lock acquisitions and replayed in the model in Coq (T2).",
    "Coq kernel+VM; translator fragment; abstraction of the level sets by in-progress counts; set-iteration choice taken from the implementation and checked admissible; scheduler and linearisation points; virtual clock",
    "Coq proof (invariant with ghost history by induction over all operation sequences) + regenerated guards tie + vm_compute replay of scheduler traces",
    "DESIGN.md §4 C11")
chk("C12",
    "Coq theorems on the same queue model: an exclusive item is its FIFO's only running item and locks it; nothing is handed out from a locked FIFO; an exclusive item starts only when nothing of its FIFO runs; the served FIFO has the fewest running items among eligible ones; a deferred item is promoted only after put-time + delay and stays deferred until then (exactly-once start = C11). On the Task model: a yield re-queues in the same FIFO with the same exclusivity; driving any well-formed generator body gives one re-queue per yield and a final invocation that runs a permutation of all registered clean-ups (exactly once, after the final step). Tie: T1 as C11 plus the re-queue call of Task.__call__; T2: queue traces as C11, and real Task objects with generated yield/clean-up scripts compared with the model in Coq.",
    "as C11; Python generator semantics for Task bodies by correspondence",
    "Coq proof (queue invariants; induction over task bodies, Permutation) + regenerated guards tie + vm_compute correspondence",
    "DESIGN.md §4 C12")

chk("C10",
    "Coq theorems over the model of Worker.run / Task clean-up for every task body (statements, clean-up registrations first/last, yields) and every set of statements raising OperationalError, in the body and in clean-ups, single or repeated: the daemon never aborts, the queue slot is released exactly once per delivery, every registered clean-up is started exactly once in order (none on a yielding step), the worker exits iff a fault was hit and a fresh copy is queued iff the task asked for it; the first registration of a pull (its space reservation) is released exactly once; atomic() blocks and single-write scripts are all-or-nothing under a fault at any statement; a statement outside a transaction on an auto-connecting database is retried exactly once. Tie: guard/handler shape translated each run (T1); scripted tasks through the real Task and Worker.run, real pull tasks with a fault at every statement index, the retry mixin over all flag combinations and WorkerPool.check with real threads compared with the model in Coq / monitored (T2).",
    "Coq kernel+VM; translator fragment; sqlite rollback semantics; faults injected at Database.execute_sql (BEGIN/COMMIT never fail); retry mixin over a stub base class (the fallback connector fails under the installed peewee 4.5); workers >= 1",
    "Coq proof (induction over bodies and clean-up deques, transaction scripts) + handler-shape tie + vm_compute correspondence with the real Worker.run",
    "DESIGN.md §4 C10")
chk("C14",
    "Coq theorems: for every history of pull dispatches (any sizes, limits, free-space readings) and task ends, the reserved total equals twice the sizes of the queued-or-running pulls, hence is zero when none, never negative, and release never raises; the release is the first clean-up a pull task registers, so it is started exactly once for every continuation of the body and every database-fault pattern (Worker model); a pull is queued only if 2 x size fits in free space net of reservations and the node is neither under its minimum nor over its limit; refusals and the transport 'fits' test reserve nothing; re-creating the node's I/O object (Reinit event: setdefault, pinned) keeps the total. Tie: guards, reserve_factor, mutex use and the position of the registration in pull_async translated each run (T1); real DefaultNodeIO.pull with a scripted statvfs and real pull tasks ending by every path (already present, no route, transport failure, digest mismatch, success, database error at statement k) run by the real Worker.run, reserved total compared after every event in Coq (T2).",
    "Coq kernel+VM; translator fragment; scripted os.statvfs; under_min/over_max booleans taken from the real node properties; one critical section per reserve/release call",
    "Coq proof (history invariant by induction; composition with the Worker clean-up theorem) + regenerated guards tie + vm_compute correspondence",
    "DESIGN.md §4 C14")

chk("C16",
    "Coq theorems over the model of post_add / state_on_node for all rule graphs, copy tables and request tables: the request table afterwards is the old one followed by exactly one request per autosync rule from the node into another group lacking a healthy copy; every copy row is unchanged except healthy, wanted copies of the file on the source node of an autoclean rule into the receiving group with the source outside that group, which only get wants := N (iff characterisation); self-loops fire in neither half; a group's state is Y iff some copy in it is healthy. Tie: guards translated, the three query filter expressions, the create call, self_loop and the single post_add call in each trigger (pull completion, import) checked each run (T1); the real post_add on sqlite over random/exhaustive rule graphs and copy states compared row by row with the model in Coq, plus a Python reference written from the documentation as monitor (T2).",
    "Coq kernel+VM; translator fragment and textual query checks; peewee/sqlite query semantics by correspondence",
    "Coq proof (list reasoning, iff characterisations) + regenerated guards tie + vm_compute table-diff correspondence",
    "DESIGN.md §4 C16")

chk("C17",
    "Coq theorems: the update phase of check_then_update runs iff an update was requested and (no check phase or confirmed); hence never in --check mode, never after a declined prompt, never with the file list on stdin without --force (check_if_from_stdin), and at most once; for any statements grouped into commit units (autocommitted statements, atomic() blocks), at most one writing unit implies that an error at any statement leaves the index old or new. Tie: check_then_update is translated as an event program and check_if_from_stdin as a boolean function each run and proved equal to the model; the four check-confirm-update commands are checked to call them as (not force, not check) (T1). The 24 mutating subcommands are invoked through click on random indexes with random flag combinations, names, file lists (stdin, empty) and prompt answers with a full index dump before/after; every index-changing invocation is re-run with an OperationalError at each statement on an identically rebuilt index; the observed statement log of each is grouped into commit units and checked in Coq; db init is run with a fault at each statement of an empty database (T2).",
    "Coq kernel+VM; translator fragment; sqlite transactional semantics incl. DDL; faults at Database.execute_sql; click parsing exercised, not modelled",
    "Coq proof (case analysis on the event program; induction over commit units) + regenerated-function tie + statement-log / dump-diff correspondence",
    "DESIGN.md §4 C17")

chk("C18",
    "Coq theorems over a model of the selections of node clean, node verify, node/group sync (and cancel forms) and file clean, for every index and option combination: the --size walk takes exactly the not-yet-scheduled copies of the shortest record-order prefix whose running size reaches the budget; repeating any of the commands selects nothing further (for clean unconditionally since the repair F-C18d: the --target test leaves out the node being cleaned, so the update never feeds back into the selection); a repeated sync never creates a second pending request for the same file, source and destination. The documented --days filter is refuted for the implementation in Coq and on the real command (known finding KF-C18a, not repaired because an upstream test pins the slip). Tie: hand-written model; every command is run through click with --force on random indexes and the resulting tables are compared with the model in Coq; each is also run in --check mode (no change, same count announced), run twice (idempotence), and compared with a Python reading of the help texts (monitor); the literal filters are checked textually (T1).",
    "Coq kernel+VM; hand-written selection model validated by correspondence; help-text reading of the monitor; registration times in whole seconds",
    "Coq proof (list induction, idempotence of filter/update pairs, counting) + vm_compute table correspondence + documented-selection monitor",
    "DESIGN.md §4 C18")

chk("C01",
    "Coq theorems: the archive-count test passing implies two healthy archive copies on other nodes (for any node type and any state of the copy itself, given the unique (file,node) index); the delete task, for every batch, index and pattern of failing unlinks, issues each unlink at a moment when the index (as updated by its own earlier deletions) records two other healthy archive copies, unlinks only what it was handed, at most once, and changes no other row; what update_delete hands over (C15 model) is unwanted, tracked and not a pending source, removable copies only under space pressure. The statement for overlapping tasks is refuted in Coq (C01_interleaved_refuted) and reproduced on two real daemons (known finding KF-C01-1). Tie: guards, archive_count filter and the count-unlink-tidy-update order translated/checked each run (T1); delete_async on random tables with real files compared with the model in Coq; random multi-host histories on the real update_loop with the property evaluated at every destructive os-level call against the index at that instant, including 'no other task destroys a healthy copy' (T2).",
    "Coq kernel+VM; translator fragment; daemon simulation harness and its interposition; tasks atomic w.r.t. one another in the theorems; sqlite unique index",
    "Coq proof (counting split + induction over the batch with the evolving index) + regenerated guards tie + vm_compute correspondence + history monitors",
    "DESIGN.md §4 C01")

chk("C02",
    "Coq theorems over the decision model of a transfer (update_pull, group_search_async, routing and outcome handling of pull_async, copy_request_done) for every pre-state, transport and outcome: completion implies a healthy destination record written with it (one atomic block), rule firing, a reported success, and no differing or missing digest; any failure leaves the request pending and uncancelled, no healthy destination record, the destination path removed, and the source flagged exactly when it may be at fault; a pull task runs only if the group state was corrupt or nothing was recorded and no file was found on disk (a stray file is marked suspect instead); only from an active, healthy, ready source; routing facts. Byte-faithfulness of rsync/bbcp/link is the transport contract (assumed; checked on the stand-ins and the real rsync by the monitor, which found and led to the repair of F-C02b). Tie: all guards and the exact test sequences of the four functions translated/checked each run (T1); the product transport x outcome x destination pre-state x source state x file shape is run through the real destination daemon and compared with the model in Coq; monitors check bytes, artefacts, timestamps (T2).",
    "Coq kernel+VM; translator fragment; transport contract; stand-in tools; the harness predicts transport and tool outcome from the scenario",
    "Coq proof (finite case analysis over the decision model; transaction script) + regenerated guards tie + vm_compute correspondence + byte-level monitor",
    "DESIGN.md §4 C02")

chk("C04",
    "Coq theorems over the model of _import_file / update_import: symlinks, non-regular files, dot-files, transfer artefacts, paths through a symlinked directory, locked files (request stays pending), detector-rejected paths and non-canonical acquisition names never create a record or fire a rule; an import that goes through creates exactly the missing acquisition/file records and leaves one tracked copy (present+wanted, or suspect when a wanted copy had gone missing); with registration disabled nothing is registered; only relative canonical paths and resolvable in-tree scans get a task. Concurrency: for ANY number of tasks and ANY statement interleaving (statements atomic, unique indexes), the copy record is only ever absent / present+wanted / suspect+wanted, a successful task implies acquisition, file and copy exist, the step function is total (every IntegrityError handled) and every scheduled task advances. Tie: guards and the exact test sequences / INSERT fall-backs / file_walk symlink tests checked each run (T1); single import requests over path kinds x detector answers x register x pre-existing records, request vetting incl. symlink loops, scans of random real trees (with files already registered in every copy state) against os.walk+hashlib, synthetic watchdog events, and two real importers interleaved at execute_sql granularity, compared with the model in Coq / monitored (T2).",
    "Coq kernel+VM; translator fragment; detector contract; sqlite statement atomicity and unique indexes; synthesised watchdog events",
    "Coq proof (decision-function case analysis; invariant over all schedules of n tasks) + regenerated guards tie + vm_compute correspondence + tree-walk monitor",
    "DESIGN.md §4 C04")

ALL = [f"C{i:02d}" for i in range(1, 21)]
NA_REASON = "check not yet built in this revision (planned: see DESIGN.md §7); nothing is claimed for it"


def main():
    m = {
        "version": 1,
        "setup_cmd": "/verif/setup.sh",
        "hooks": {
            "guard": "ALPENHORN_VERIF",
            "enable": "no source hooks: all instrumentation is applied from outside by module-attribute replacement in the harness process (the guard variable is unused by /repo)",
            "baseline_off_cmd": "cd /repo && /venv/bin/python -m pytest -ra -q -p no:cacheprovider --timeout=900 --continue-on-collection-errors",
            "source_commits": [],
            "add_only": True,
        },
        "engines": [{"name": "alp-coq", "path": "/verif/check", "serves_properties": sorted(CHECKS),
                     "kind_free_text": "Coq 8.16 development (theories/) + fail-closed Python-ast translator (tie T1) + correspondence harness evaluating the model by vm_compute on the implementation's observations (tie T2) + property monitors for the failing-input search"}],
        "checks": [],
        "not_applicable": [],
        "notes": "Known findings and fixes: /verif/known_findings.json. Seeded breakages used to test the machinery: /verif/seeded/.",
    }
    for pid in ALL:
        if pid in CHECKS:
            c = CHECKS[pid]
            m["checks"].append({
                "property_id": pid,
                "quick_cmd": f"./check {pid} --tier quick",
                "thorough_cmd": f"./check {pid} --tier thorough",
                "evidence_file": f"/verif/evidence/{pid}.json",
                "replay_cmd_template": f"./check {pid} --replay {{path}}",
                "engine": "alp-coq",
                "level_claimed": {"category": "proof", "text": c["text"], "design_ref": c["design"]},
                "level_note": c["note"],
                "technique": c["technique"],
            })
        else:
            m["not_applicable"].append({"property_id": pid, "reason": NA.get(pid, NA_REASON)})
    json.dump(m, open("/verif/MANIFEST.json", "w"), indent=1)


if __name__ == "__main__":
    main()
