(* C08 — Index well-formedness and index/storage agreement over all histories. *)
From Coq Require Import List NArith ZArith Bool Arith.
From Alp Require Import Base.Str Base.Types Model.Import Model.Sys Proofs.SysProofs Model.Pull Model.Item Proofs.ItemProofs.
Import ListNotations.

(* Well-formedness: at most one copy row per (file, node), one file row per (acquisition, name), request ids unique, a
   completed request carries ordered time stamps and a copy row of its file exists on a node of its destination group, and no
   registered name is a dot-prefixed / temporary one.  (Legal state letters are the constructors of [has] and [wants].)
   Every index writer preserves it ... *)
Theorem C08_every_writer_preserves_wf : forall groups i o, wf groups i -> op_ok groups i o -> wf groups (Sys.apply groups i o).
Proof. exact apply_wf. Qed.
Print Assumptions C08_every_writer_preserves_wf.
(* ... hence it holds after every history of writers, of any length, from the empty index *)
Theorem C08_all_histories_wf : forall groups ops,
  ops_ok groups {| copies := []; files := []; reqs := [] |} ops -> wf groups (Sys.run groups {| copies := []; files := []; reqs := [] |} ops).
Proof. intros groups ops H. apply run_wf; [apply empty_wf | exact H]. Qed.
Print Assumptions C08_all_histories_wf.
(* the boolean check the harness evaluates on every snapshot of the real index is sound for wf *)
Theorem C08_snapshot_check_sound : forall groups i, wf_b groups i = true -> wf groups i.
Proof. exact wf_b_sound. Qed.
Print Assumptions C08_snapshot_check_sound.
(* the import gate never registers a temporary name *)
Theorem C08_no_temp_registered : forall facts, creates_records (import_decision facts) = true -> dot_name facts || in_temp_dir facts = false.
Proof. exact gate_no_temp. Qed.
Print Assumptions C08_no_temp_registered.

(* Agreement with storage (item model): every complete task, from any state in which healthy copies are backed by good bytes,
   leaves healthy unreleased copies backed by good bytes ... *)
Theorem C08_tasks_keep_agreement : forall e b i t, safe i = true -> task_pre t i = true -> safe (run_task e b i t) = true.
Proof. exact task_run_safe. Qed.
Print Assumptions C08_tasks_keep_agreement.
(* ... and a copy the daemon records as removed is gone from disk *)
Theorem C08_removed_is_gone : forall i, safe i = true -> wants_of i = WN -> gone (Item.run (delete_script i) i) = true.
Proof. exact delete_leaves_nothing. Qed.
Print Assumptions C08_removed_is_gone.

Example C08_example : wf_b ex_groups (Sys.run ex_groups {| copies := []; files := []; reqs := [] |} ex_ops) = true /\
  map (fun c => (c_node c, c_has c, c_wants c)) (copies (Sys.run ex_groups {| copies := []; files := []; reqs := [] |} ex_ops)) = [(1, HY, WN); (2, HY, WY)]%N.
Proof. exact example_sys. Qed.
