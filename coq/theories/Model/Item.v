(* One work item followed through the daemons: a file, its source copy, its copy in the destination group and the transfer
   request between them.  Tasks are scripts of micro-operations (one per database statement / file-system call), so a crash is a
   prefix of a script followed by the roll-back of the open transaction.  Shared by C05, C08, C09. *)
From Coq Require Import List NArith Bool Arith.
From Alp Require Import Base.Str Base.Types Model.Pull.
Import ListNotations.
Local Open Scope nat_scope.

Inductive bytes := Good | Bad.                       (* relative to the registered size and digest *)
Inductive rstate := Pending | Completed | Cancelled.
Record item := {
  src_has : has;                       (* source copy record (wanted) *)
  src_disk : option bytes;             (* what is at the source path *)
  dst_row : option (has * wants);      (* copy record in the destination group, if any *)
  dst_disk : option bytes;             (* what is at the destination path *)
  ph : bool;                           (* .<name>.placeholder next to the destination *)
  tmp : bool;                          (* a temporary artefact left behind next to the destination (.alpentemp*, a transport's temp file): never cleaned *)
  stg : bool;                          (* the staging directory of the attempt in progress *)
  req : rstate;
  due : bool }.                        (* memory of the destination's daemon: it has not yet had an idle update since it started, so its
                                          first idle update will queue the tidy-up task (stale placeholders); a restarted daemon starts with true *)

Definition bytes_eqb (a b : bytes) : bool := match a, b with Good, Good | Bad, Bad => true | _, _ => false end.
Definition obytes_eqb (a b : option bytes) : bool := match a, b with Some x, Some y => bytes_eqb x y | None, None => true | _, _ => false end.
Definition rstate_eqb (a b : rstate) : bool := match a, b with Pending, Pending | Completed, Completed | Cancelled, Cancelled => true | _, _ => false end.
Definition row_eqb (a b : option (has * wants)) : bool :=
  match a, b with Some (h, w), Some (h', w') => has_eqb h h' && wants_eqb w w' | None, None => true | _, _ => false end.
Definition item_eqb (a b : item) : bool :=
  has_eqb (src_has a) (src_has b) && obytes_eqb (src_disk a) (src_disk b) && row_eqb (dst_row a) (dst_row b) && obytes_eqb (dst_disk a) (dst_disk b)
  && Bool.eqb (ph a) (ph b) && Bool.eqb (tmp a) (tmp b) && Bool.eqb (stg a) (stg b) && rstate_eqb (req a) (req b) && Bool.eqb (due a) (due b).

(* ---- micro-operations ---- *)
Inductive mop :=
| PhCreate | PhRemove
| TmpCreate | TmpRemove             (* the daemon's own staging directory *)
| TmpLeave                          (* the transport dies leaving its temporary file *)
| Land (b : bytes)                 (* the destination path now holds b (rename / replace: atomic) *)
| DstUnlink
| TxBegin | TxCommit
| RowPut (h : has) (w : wants)     (* insert, or update on IntegrityError *)
| RowHas (h : has)                 (* UPDATE ... SET has_file *)
| SrcHas (h : has)
| ReqSet (r : rstate).

Definition set_dst_row i r := {| src_has := src_has i; src_disk := src_disk i; dst_row := r; dst_disk := dst_disk i; ph := ph i; tmp := tmp i; stg := stg i; req := req i; due := due i |}.
Definition set_dst_disk i d := {| src_has := src_has i; src_disk := src_disk i; dst_row := dst_row i; dst_disk := d; ph := ph i; tmp := tmp i; stg := stg i; req := req i; due := due i |}.
Definition set_ph i b := {| src_has := src_has i; src_disk := src_disk i; dst_row := dst_row i; dst_disk := dst_disk i; ph := b; tmp := tmp i; stg := stg i; req := req i; due := due i |}.
Definition set_tmp i b := {| src_has := src_has i; src_disk := src_disk i; dst_row := dst_row i; dst_disk := dst_disk i; ph := ph i; tmp := b; stg := stg i; req := req i; due := due i |}.
Definition set_stg i b := {| src_has := src_has i; src_disk := src_disk i; dst_row := dst_row i; dst_disk := dst_disk i; ph := ph i; tmp := tmp i; stg := b; req := req i; due := due i |}.
Definition set_src_has i h := {| src_has := h; src_disk := src_disk i; dst_row := dst_row i; dst_disk := dst_disk i; ph := ph i; tmp := tmp i; stg := stg i; req := req i; due := due i |}.
Definition set_req i r := {| src_has := src_has i; src_disk := src_disk i; dst_row := dst_row i; dst_disk := dst_disk i; ph := ph i; tmp := tmp i; stg := stg i; req := r; due := due i |}.
Definition set_due i b := {| src_has := src_has i; src_disk := src_disk i; dst_row := dst_row i; dst_disk := dst_disk i; ph := ph i; tmp := tmp i; stg := stg i; req := req i; due := b |}.

(* state while a task runs: the item and, inside a transaction, the database fields to restore on a crash *)
Definition dbpart := (has * option (has * wants) * rstate)%type.
Definition db_of (i : item) : dbpart := (src_has i, dst_row i, req i).
Definition restore (i : item) (d : dbpart) : item :=
  let '(sh, row, r) := d in {| src_has := sh; src_disk := src_disk i; dst_row := row; dst_disk := dst_disk i; ph := ph i; tmp := tmp i; stg := stg i; req := r; due := due i |}.
Definition rstate_ := (item * option dbpart)%type.

Definition step (s : rstate_) (m : mop) : rstate_ :=
  let '(i, snap) := s in
  match m with
  | PhCreate => (set_ph i true, snap)
  | PhRemove => (set_ph i false, snap)
  | TmpCreate => (set_stg i true, snap)
  | TmpRemove => (set_stg i false, snap)
  | TmpLeave => (set_tmp i true, snap)
  | Land b => (set_dst_disk i (Some b), snap)
  | DstUnlink => (set_dst_disk i None, snap)
  | TxBegin => (i, Some (db_of i))
  | TxCommit => (i, None)
  | RowPut h w => (set_dst_row i (Some (h, w)), snap)
  | RowHas h => (set_dst_row i (match dst_row i with Some (_, w) => Some (h, w) | None => None end), snap)
  | SrcHas h => (set_src_has i h, snap)
  | ReqSet r => (set_req i r, snap)
  end.
Definition exec (l : list mop) (i : item) : rstate_ := fold_left step l (i, None).
Definition run (l : list mop) (i : item) : item := fst (exec l i).
(* killed after the first k micro-operations: the open transaction is rolled back, files stay as they are *)
Definition killed (j : item) : item :=
  set_due (set_stg (set_tmp j (tmp j || stg j)) false) true.      (* nobody removes the staging directory any more; the next daemon starts afresh *)
Definition crash (k : nat) (l : list mop) (i : item) : item :=
  let '(j, snap) := exec (firstn k l) i in killed (match snap with Some d => restore j d | None => j end).

(* ---- the tasks ---- *)
(* how the transport behaves in this attempt *)
Inductive leftover := LNone | LTmp | LPartial.
Inductive beh := BWorks | BFail (check_src : bool) (l : leftover).
Record tenv := { trusted : bool;      (* the transport vouches for the digest itself (rsync, hard link) rather than reporting one (bbcp, internal copy) *)
                 inproc : bool }.     (* hard link / internal copy: staged in a .alpentemp directory by the daemon itself *)
Inductive route_ := NoRoute | NoTool | Tool.

Definition dst_state (i : item) : has := match dst_row i with Some (h, _) => h | None => HN end.
Definition stage (e : tenv) (l : list mop) : list mop := if inproc e then TmpCreate :: l ++ [TmpRemove] else l.
(* (operations of the transport, did it report success with an acceptable digest, check_src) *)
Definition transport_ops (e : tenv) (b : beh) (i : item) : list mop * bool * bool :=
  match b with
  | BWorks => match src_disk i with
              | Some c => (stage e [Land c], trusted e || bytes_eqb c Good, true)
              | None => (stage e [], false, true)                (* link_stat failed: the source is flagged *)
              end
  | BFail cs LNone => (stage e [], false, cs)
  | BFail cs LTmp => (stage e [TmpLeave], false, cs)
  | BFail cs LPartial => (stage e [Land Bad], false, cs)
  end.
Definition done_ops (ok cs : bool) : list mop :=
  if ok then [TxBegin; RowPut HY WY; ReqSet Completed; TxCommit]
  else (if cs then [SrcHas HM] else []) ++ [DstUnlink].
Definition pull_script (r : route_) (e : tenv) (b : beh) (i : item) : list mop :=
  if is_y (dst_state i) then [ReqSet Cancelled]
  else match r with
       | NoRoute => []
       | NoTool => (if dst_disk i then [] else [PhCreate]) ++ [PhRemove; DstUnlink]
       | Tool => let '(ops, ok, cs) := transport_ops e b i in
                 (if dst_disk i then [] else [PhCreate]) ++ ops ++ [PhRemove] ++ done_ops ok cs
       end.

Definition verdict_of (d : option bytes) : has := match d with Some Good => HY | Some Bad => HX | None => HN end.
Definition check_dst_script (i : item) : list mop := [RowHas (verdict_of (dst_disk i))].
Definition check_src_script (i : item) : list mop := [SrcHas (verdict_of (src_disk i))].
Definition delete_script (i : item) : list mop := [DstUnlink; RowPut HN WN].
Definition mark_suspect_script : list mop := [RowPut HM WY].

(* ---- one round of all daemons on this item ---- *)
Record env := { src_active : bool;      (* the source node is active (and then its host's daemon verifies it) *)
                dst_usable : bool;      (* the destination group has a local, active, initialised node *)
                gate_ok : bool;         (* the destination has room *)
                rt : route_;
                te : tenv;
                del_ok : bool }.        (* enough other archive copies to delete the destination copy when it is released *)

(* The main loop first decides, on the index as it is when the iteration starts, which tasks to queue (cancelling a request is
   done on the spot); the queued tasks then run in order, each re-reading what it needs. *)
Inductive task := TCheckSrc | TCheckDst | TDelete | TSearchPull | TPullForce | TTidy.
Definition wants_of (i : item) : wants := match dst_row i with Some (_, w) => w | None => WN end.

(* what task t does when it starts in state i *)
Definition pull_gate (e : env) (b : beh) (i : item) : list mop :=        (* DefaultNodeIO.pull: the space gate, then pull_async *)
  if gate_ok e then pull_script (rt e) (te e) b i else [].
Definition task_script (e : env) (b : beh) (i : item) (t : task) : list mop :=
  match t with
  | TCheckSrc => check_src_script i
  | TCheckDst => check_dst_script i
  | TDelete => if del_ok e then delete_script i else []
  | TSearchPull => match group_search (dst_state i) (if dst_disk i then true else false) with
                   | SCancel => [ReqSet Cancelled]
                   | SMarkSuspect => mark_suspect_script
                   | SHandOff => pull_gate e b i
                   end
  | TPullForce => pull_gate e b i
  | TTidy => if ph i then [PhRemove] else []          (* DefaultNodeIO.idle_update: remove the stale placeholder beside a registered file *)
  end.
Definition run_task (e : env) (b : beh) (i : item) (t : task) : item := run (task_script e b i t) i.

Definition src_dispatch (e : env) (i : item) : list task := if src_active e && is_m (src_has i) then [TCheckSrc] else [].
Definition dst_dispatch (e : env) (i : item) : item * list task :=
  let checks := if is_m (dst_state i) && negb (wants_eqb (wants_of i) WN) then [TCheckDst] else [] in
  let deletes := match dst_row i with Some (h, WN) => if negb (is_n h) then [TDelete] else [] | _ => [] end in
  match req i with
  | Pending =>
      match update_pull (dst_state i) (src_active e) (src_has i) true (is_x (dst_state i)) with
      | DCancel => (set_req i Cancelled, checks ++ deletes)
      | DSkip => (i, checks ++ deletes)
      | DPullForce => (i, checks ++ deletes ++ [TPullForce])
      | DPull => (i, checks ++ deletes ++ [TSearchPull])
      end
  | _ => (i, checks ++ deletes)
  end.
(* The idle update follows the dispatch in the same pass of the main loop: the node is idle when nothing was queued in its own FIFO
   (checks, deletions and a forced pull that passed the space gate are; the pre-pull search is queued in the group's FIFO).  The first
   idle update of a daemon queues the tidy-up task; the next one is 400 idle updates away (outside every horizon considered here). *)
Definition node_busy (e : env) (ts : list task) : bool :=
  existsb (fun t => match t with TCheckDst | TDelete => true | TPullForce => gate_ok e | _ => false end) ts.
(* the tidy-up and the pre-pull search sit in different FIFOs, both idle: either may be taken first *)
Definition dst_dispatch_tidy (tidy_first : bool) (e : env) (i : item) : item * list task :=
  let '(i', ts) := dst_dispatch e i in
  if due i' && negb (node_busy e ts) then (set_due i' false, if tidy_first then TTidy :: ts else ts ++ [TTidy]) else (i', ts).
Definition src_round (e : env) (i : item) : item := fold_left (run_task e BWorks) (src_dispatch e i) i.
Definition dst_round (e : env) (b : beh) (i : item) : item :=
  if dst_usable e then let '(i', ts) := dst_dispatch_tidy true e i in fold_left (run_task e b) ts i' else i.
Definition round (e : env) (b : beh) (i : item) : item := dst_round e b (src_round e i).
Fixpoint rounds (n : nat) (e : env) (i : item) : item := match n with O => i | S n' => rounds n' e (round e BWorks i) end.

(* every state a kill can leave behind during one iteration of the destination's daemon, in order *)
Definition crash_states (l : list mop) (i : item) : list item := map (fun k => crash k l i) (seq 0 (length l)).
Fixpoint trace_tasks (e : env) (b : beh) (i : item) (ts : list task) : list item :=
  match ts with
  | [] => [i]
  | t :: ts' => crash_states (task_script e b i t) i ++ trace_tasks e b (run_task e b i t) ts'
  end.
Definition dst_trace_o (tidy_first : bool) (e : env) (b : beh) (i : item) : list item :=
  if dst_usable e then let '(i', ts) := dst_dispatch_tidy tidy_first e i in i :: trace_tasks e b i' ts else [i].
Definition dst_trace := dst_trace_o true.

(* ---- what must hold of every state, crashed or not ---- *)
(* a copy recorded healthy, and a completed request, are backed by good bytes *)
Definition backed (i : item) : bool :=
  (negb (is_y (src_has i)) || obytes_eqb (src_disk i) (Some Good))
  && (negb (is_y (dst_state i)) || obytes_eqb (dst_disk i) (Some Good)).
Definition completed_backed (i : item) : bool :=
  negb (rstate_eqb (req i) Completed) || (is_y (dst_state i) && obytes_eqb (dst_disk i) (Some Good)).

(* ---- why a pending request may stay pending (the documented reasons) ---- *)
Inductive reason := SourceInactive | SourceSuspect | DestinationFull | DestinationAwaitingCheck | NoUsableNode | NoTransportRoute.
Definition blocked (e : env) (i : item) : option reason :=
  if negb (dst_usable e) then Some NoUsableNode
  else if is_m (dst_state i) then Some DestinationAwaitingCheck
  else if negb (src_active e) then Some SourceInactive
  else if is_m (src_has i) then Some SourceSuspect
  else if negb (gate_ok e) then Some DestinationFull
  else match rt e with Tool => None | _ => Some NoTransportRoute end.

(* ---- finite enumerations ---- *)
Definition all_has := [HY; HM; HX; HN].
Definition all_wants := [WY; WM; WN].
Definition all_obytes := [None; Some Good; Some Bad].
Definition all_bool := [true; false].
Definition all_rstate := [Pending; Completed; Cancelled].
Definition all_rows : list (option (has * wants)) := None :: map Some (list_prod all_has all_wants).
Definition all_items : list item :=
  flat_map (fun a => flat_map (fun b => flat_map (fun c => flat_map (fun d => flat_map (fun p => flat_map (fun t => flat_map (fun g => flat_map (fun r => map (fun u =>
    {| src_has := a; src_disk := b; dst_row := c; dst_disk := d; ph := p; tmp := t; stg := g; req := r; due := u |}) all_bool) all_rstate) all_bool) all_bool) all_bool) all_obytes) all_rows) all_obytes) all_has.
Definition all_leftover := [LNone; LTmp; LPartial].
Definition all_beh : list beh := BWorks :: flat_map (fun cs => map (BFail cs) all_leftover) all_bool.
Definition all_tenv : list tenv := flat_map (fun a => map (fun b => {| trusted := a; inproc := b |}) all_bool) all_bool.
Definition all_route := [NoRoute; NoTool; Tool].
Definition all_env : list env :=
  flat_map (fun a => flat_map (fun b => flat_map (fun c => flat_map (fun r => flat_map (fun t => map (fun d =>
    {| src_active := a; dst_usable := b; gate_ok := c; rt := r; te := t; del_ok := d |}) all_bool) all_tenv) all_route) all_bool) all_bool) all_bool.
