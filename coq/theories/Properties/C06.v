(* C06 — Path confinement.  Only statements, closed by [exact], with Print Assumptions. *)
From Coq Require Import List NArith Bool.
From Alp Require Import Base.Str Model.Path Proofs.PathProofs Model.Import Proofs.ImportProofs.
Import ListNotations.

(* A name is accepted iff it is a canonical relative path: non-empty and no "", "." or ".." component
   (a leading or trailing slash is an empty first or last component). For every string. *)
Theorem C06_valid_iff_canonical : forall s : str, invalid_import_path s = negb (canonical s).
Proof. exact invalid_iff_not_canonical. Qed.
Print Assumptions C06_valid_iff_canonical.

(* A stored (accepted) name equals its own normalised form. *)
Theorem C06_stored_name_normal : forall s : str, invalid_import_path s = false -> normpath_rel s = s.
Proof. exact valid_normpath_id. Qed.
Print Assumptions C06_stored_name_normal.

(* The file name an import registers (what is left of the imported path once the detector's acquisition is taken off) is
   itself a canonical name, and acquisition + "/" + file name is the imported path — for every path and every answer of a
   detector; the path itself (file name "."), a sibling or a string prefix leave no name (fix F-C06d). *)
Theorem C06_stored_file_name_canonical : forall p acq n : str, file_name p acq = Some n -> canonical n = true /\ p = acq ++ [47%N] ++ n.
Proof. exact file_name_canonical. Qed.
Print Assumptions C06_stored_file_name_canonical.

(* root/name normalises to the normalised root followed by the name's components: never the root
   itself, never outside it — for every root (any spelling) and every accepted name. *)
Theorem C06_resolves_strictly_under_root : forall (rootc : list str) (s : str),
  invalid_import_path s = false ->
  norm_comps (rootc ++ split s) = norm_comps rootc ++ split s /\
  strictly_under (norm_comps rootc) (norm_comps (rootc ++ split s)) = true.
Proof. exact valid_under_root. Qed.
Print Assumptions C06_resolves_strictly_under_root.

(* Directory clean-up after a delete climbs only through proper descendants of the root and never
   reaches the root itself (path comparison; the textual comparison of the unrepaired code is
   refuted in Regress/RemoveFiledirOld.v). *)
Theorem C06_rmdir_below_root : forall rootc relrev t,
  In t (rmdir_targets rootc relrev) -> strictly_under rootc t = true.
Proof. exact rmdir_targets_under. Qed.
Print Assumptions C06_rmdir_below_root.
Theorem C06_root_never_removed : forall rootc relrev, ~ In rootc (rmdir_targets rootc relrev).
Proof. exact rmdir_targets_never_root. Qed.
Print Assumptions C06_root_never_removed.

(* non-vacuity: an accepted nested name, and a rejected one *)
Example C06_example_valid : invalid_import_path [97; 47; 46; 98]%N = false /\ invalid_import_path [97; 47; 46; 46; 47; 98]%N = true.
Proof. split; vm_compute; reflexivity. Qed.
