"""C02 matrix: transports x outcomes x destination pre-states, through the real group/node dispatch."""
from common import *
import os, hashlib, itertools, shutil, stat, json
from alpenhorn.daemon import update
from alpenhorn.scheduler import FairMultiFIFOQueue, pool, global_abort
import alpenhorn.io.default as dflt
class OneShot(pool.EmptyPool):
    def check(self): global_abort.set()
class Q(FairMultiFIFOQueue):
    def get(self, timeout=None): return super().get(timeout=0.01)
def iterate(q, host="h1"):
    config.config["base"]["hostname"] = host
    global_abort.clear(); update.update_loop(q, OneShot(), False); global_abort.clear()
FAKE = '''#!/venv/bin/python
import sys, shutil, os
mode = open(os.environ["FAKE_MODE"]).read().strip()
src, dst = sys.argv[-2], sys.argv[-1]
if mode == "ok": shutil.copy2(src, dst); sys.exit(0)
if mode == "fail": sys.stderr.write("rsync: some error\\n"); sys.exit(23)
if mode == "partial_fail": open(dst, "wb").write(open(src,"rb").read()[:2]); sys.stderr.write("rsync: write failed on x: No space\\n"); sys.exit(11)
if mode == "truncate_ok": open(dst, "wb").write(open(src,"rb").read()[:2]); sys.exit(0)
'''
results = []
for transport, mode, pre in itertools.product(["rsync"], ["ok","fail","partial_fail","truncate_ok"], ["absent","unregistered","recN","recX","recM","recY"]):
    if transport != "rsync" and mode != "ok": continue
    tmp, sdb = setup("h1")
    dflt._reserved_bytes.clear()
    bindir = tmp/"bin"; bindir.mkdir(); modef = tmp/"mode"; modef.write_text(mode); os.environ["FAKE_MODE"] = str(modef)
    path_keep = os.environ["PATH"]
    if transport == "rsync":
        (bindir/"rsync").write_text(FAKE); os.chmod(bindir/"rsync", 0o755); os.environ["PATH"] = str(bindir)
    elif transport == "internal":
        os.environ["PATH"] = str(bindir)      # no rsync at all
    g1 = StorageGroup.create(name="g1"); g2 = StorageGroup.create(name="g2")
    src = mknode(tmp,"src",g1, stype=("A" if transport=="hardlink" else "F")); dst = mknode(tmp,"dst",g2, stype="A")
    acq = ArchiveAcq.create(name="acq"); data = b"hello world"
    f = ArchiveFile.create(acq=acq,name="f",size_b=len(data),md5sum=hashlib.md5(data).hexdigest())
    (tmp/"src"/"acq").mkdir(); (tmp/"src"/"acq"/"f").write_bytes(data)
    ArchiveFileCopy.create(file=f,node=src,has_file="Y",wants_file="Y")
    dpath = tmp/"dst"/"acq"/"f"
    if pre != "absent":
        dpath.parent.mkdir(); dpath.write_bytes(b"OLD-CONTENT")
    if pre.startswith("rec"):
        ArchiveFileCopy.create(file=f,node=dst,has_file=pre[3],wants_file="Y")
        if pre == "recN": dpath.unlink()
    req = ArchiveFileCopyRequest.create(file=f,node_from=src,group_to=g2)
    q = Q()
    try:
        iterate(q)
        r = ArchiveFileCopyRequest.get(id=req.id)
        dc = ArchiveFileCopy.get_or_none(file=f,node=dst); sc = ArchiveFileCopy.get(file=f,node=src)
        listing = sorted(p.name for p in dpath.parent.iterdir()) if dpath.parent.exists() else None
        content = dpath.read_bytes() if dpath.exists() else None
        results.append((transport, mode, pre, "done" if r.completed else ("canc" if r.cancelled else "pend"),
                        dc.has_file if dc else "-", sc.has_file,
                        "same" if content == data else ("OLD" if content == b"OLD-CONTENT" else ("absent" if content is None else "DIFF")),
                        listing, dict(dflt._reserved_bytes)))
    except Exception as e:
        results.append((transport, mode, pre, "EXC", type(e).__name__, str(e)[:80]))
    os.environ["PATH"] = path_keep
    shutil.rmtree(tmp)
for r in results: print(*r)
